"""Application family for C06 (errors reach the right handler, every observer, and stop the pipeline).

`make(rng, name)` draws an application whose interesting part is the error path:

  * several fallible constructors (request-scoped and transient), middlewares (wrap / pre / post) and handlers,
    on different branches of the dependency graphs;
  * error handlers `x<k>` with a distinct HTTP status each (520+k), designated in every way pavex offers:
    component-specific (`.error_handler(X)` on the registration), by error type (`bp.error_handler(X)` in some
    blueprint: visible only from that blueprint downwards), a user fallback for `pavex::Error` (status 590+k),
    or nothing at all (the framework's `pavex::Error::to_response`, status 500, logs nothing);
    error handlers may take injected inputs of their own;
  * 0-3 error observers registered at different points (before / after routes, inside nested blueprints);
  * nested blueprints, so that scoping matters for handlers, observers and middlewares.

The spec is a gen_app spec (rendered by gen_app.render) plus `spec["err"]`: the description the Lean model
(`pxmodel errors`) and the Python oracle of tools/checks/c06.py read:

  err.ctors   [{i, life, ins:[type ids], fallible}]
  err.handlers[{i, ins, fallible}]            err.mws [{i, kind, ins, fallible}]
  err.ehs     [{k, target:["c"|"h"|"m", i] | ["any"], ins, status}]
  err.observers [{i, ins}]
  err.bp      ops: ["ctor", i, k|null] ["mw", i, k|null] ["route", i, k|null] ["obs", o] ["eh", k] ["nest", [ops]]
              (k = component-specific error handler)
"""
import gen_app

PLAN = {"quick": 16, "thorough": 160}


def plan(tier):
    return PLAN[tier]


def _closure_infallible(ctors, j, memo):
    if j in memo:
        return memo[j]
    c = ctors[j]
    ok = not c["fallible"] and all(_closure_infallible(ctors, x[0], memo) for x in c["ins"])
    memo[j] = ok
    return ok


def _deps(ctors, j):
    out = {j}
    for x in ctors[j]["ins"]:
        out |= _deps(ctors, x[0])
    return out


def localise(rng, ebp, ctors, handlers, mws, ehs, observers):
    """move some constructors into the nested blueprint that holds all their users, so that the scope of the
    *fallible component* (not of the route) decides which by-type error handler is visible"""
    nests = [op for op in ebp if op[0] == "nest"]
    if not nests:
        return ebp

    def inside(ops, acc):
        for op in ops:
            if op[0] in ("route", "mw"):
                acc.add((op[0], op[1]))
            elif op[0] == "nest":
                inside(op[1], acc)
        return acc
    used_by_eh = {j for e in ehs for j, _ in e["ins"]} | {j for o in observers for j, _ in o["ins"]}
    for nb in nests:
        if rng.random() < 0.5:
            continue
        members = inside(nb[1], set())
        local = set()
        for c in reversed(ctors):
            i = c["i"]
            if i in used_by_eh or c["life"] == "singleton":
                continue
            users_c = [d["i"] for d in ctors if any(x[0] == i for x in d["ins"])]
            users_h = [("route", h["i"]) for h in handlers if any(x[0] == i for x in h["ins"])]
            users_m = [("mw", w["i"]) for w in mws if any(x[0] == i for x in w["ins"])]
            if not (users_c or users_h or users_m):
                continue
            if all(u in local for u in users_c) and all(u in members for u in users_h + users_m) and rng.random() < 0.7:
                local.add(i)
        if local:
            moved = [op for op in ebp if op[0] == "ctor" and op[1] in local]
            ebp = [op for op in ebp if not (op[0] == "ctor" and op[1] in local)]
            nb[1][:0] = moved
    return ebp


def corpus_minis():
    """corpus/C06/*.jsonl: one application per line in the compact form `draw` produces"""
    import glob
    import json
    import os
    out = []
    d = os.path.join(os.path.dirname(os.path.dirname(os.path.abspath(__file__))), "corpus", "C06")
    for fn in sorted(glob.glob(os.path.join(d, "*.jsonl"))):
        out += [json.loads(l) for l in open(fn) if l.strip()]
    return out


def make(rng, name):
    idx = int(name[1:]) if name[1:].isdigit() else 10 ** 9
    fixed = corpus_minis()
    if idx < len(fixed):
        # corpus first: hand-written / minimised applications, always part of the family
        return build(name, fixed[idx])
    return build(name, draw(rng))


def draw(rng):
    """the application in compact form (independent of the module name)"""
    n = rng.randrange(3, 8)
    types, ctors = [], []
    for i in range(n):
        copy = rng.random() < 0.15
        clone = copy or rng.random() < 0.3
        types.append({"i": i, "clone": clone, "copy": copy, "cap": None})
        life = rng.choices(["request", "transient", "singleton"], weights=[6, 2, 1.5])[0]
        pool = list(range(i))
        if life == "singleton":
            pool = [j for j in pool if ctors[j]["life"] == "singleton"]
        k = min(len(pool), rng.choice([0, 0, 1, 1, 2, 2, 3]))
        rng.shuffle(pool)
        ins = []
        for j in pool[:k]:
            mode = "ref"
            if types[j]["copy"] and ctors[j]["life"] != "singleton" and rng.random() < 0.5:
                mode = "val"
            ins.append([j, mode])
        ctors.append({"i": i, "out": i, "life": life, "cloning": clone and not copy and rng.random() < 0.5, "ins": ins,
                      "fallible": life != "singleton" and rng.random() < 0.5, "async": rng.random() < 0.3})
    memo = {}
    safe = [j for j in range(n) if _closure_infallible(ctors, j, memo)]

    def comp_ins(kmax, pool=None):
        pool = list(range(n)) if pool is None else list(pool)
        rng.shuffle(pool)
        k = min(len(pool), rng.choice([0, 1, 1, 2, 2, 3][:kmax + 2]))
        out = []
        for j in pool[:k]:
            mode = "ref"
            if types[j]["copy"] and ctors[j]["life"] != "singleton" and rng.random() < 0.5:
                mode = "val"
            out.append([j, mode])
        return out

    n_routes = rng.choice([1, 2, 2, 3])
    handlers = [{"i": h, "method": rng.choice(["GET", "POST"]), "ins": comp_ins(3),
                 "fallible": rng.random() < 0.5, "async": rng.random() < 0.5} for h in range(n_routes)]
    mws = [{"i": m, "kind": rng.choice(["wrap", "pre", "post"]), "ins": comp_ins(2), "fallible": rng.random() < 0.45}
           for m in range(rng.choice([0, 1, 2, 3, 4]))]
    observers = [{"i": o, "ins": [[j, "ref"] for j, _ in comp_ins(1, safe)] if rng.random() < 0.3 else []}
                 for o in range(rng.choice([0, 1, 1, 2, 2, 3]))]

    # ---- error handlers ------------------------------------------------------------------------
    ehs = []

    obs_types = {j for o in observers for j, _ in o["ins"]}

    def new_eh(target):
        k = len(ehs)
        r = rng.random()
        if r < 0.35:
            ins = [[j, "ref"] for j, _ in comp_ins(1, safe)]
        elif r < 0.42:
            # an input whose construction can fail as well (not the failing component's own output, nor
            # anything built from it: pavexc cannot generate code for that)
            # (for a `pavex::Error` handler the failing component can be any of them: infallible inputs only)
            bad = set(range(n))
            if target[0] == "c":
                bad = {j for j in range(n) if target[1] in _deps(ctors, j)}
            elif target[0] in "mh":
                bad = set()
            ins = [[j, "ref"] for j, _ in comp_ins(1, [j for j in range(n) if j not in safe and j not in bad])]
        else:
            ins = []
        for x in ins:
            # by value (cloneable types only); an observer may borrow the same value after the handler took it: pavexc
            # clones it for the handler (the happens-before edge handler -> first observer, fix 0fa7412)
            if ctors[x[0]]["life"] != "singleton" and ctors[x[0]]["cloning"] and rng.random() < 0.5:
                x[1] = "val"
        ehs.append({"k": k, "target": target, "ins": ins, "status": (590 + k % 9) if target == ["any"] else 520 + k})
        return k

    fallibles = [["c", c["i"]] for c in ctors if c["fallible"]] + [["h", h["i"]] for h in handlers if h["fallible"]] + \
                [["m", m["i"]] for m in mws if m["fallible"]]
    direct, typed = {}, []
    for f in fallibles:
        r = rng.random()
        if r < 0.2:
            direct[tuple(f)] = new_eh(f if rng.random() < 0.8 else ["any"])
        elif r < 0.65:
            typed.append(new_eh(f))
        if r >= 0.2 and rng.random() < 0.15:
            # a by-type handler as well as nothing / a second one somewhere else
            typed.append(new_eh(f))
    fallbacks = [new_eh(["any"]) for _ in range(rng.choice([0, 0, 1, 1, 2]))]

    # ---- blueprint -----------------------------------------------------------------------------
    root = [["ctor", c["i"], direct.get(("c", c["i"]))] for c in ctors]
    items = [["mw", m["i"], direct.get(("m", m["i"]))] for m in mws] + \
            [["route", h["i"], direct.get(("h", h["i"]))] for h in handlers] + \
            [["obs", o["i"]] for o in observers]
    rng.shuffle(items)
    for it in [x for x in items if x[0] == "obs"]:
        if rng.random() < 0.5:
            items.remove(it)
            items.insert(rng.randrange(0, 1 + len(items) // 3), it)

    def nestify(us, depth):
        out, i = [], 0
        while i < len(us):
            if depth < 2 and rng.random() < 0.3:
                k = rng.randrange(1, len(us) - i + 1)
                out.append(["nest", nestify(us[i:i + k], depth + 1)])
                i += k
            else:
                out.append(us[i])
                i += 1
        return out

    ebp = root + nestify(items, 0)
    ebp = localise(rng, ebp, ctors, handlers, mws, ehs, observers)

    # by-type handlers: visibility is decided by the blueprint the *fallible component* is registered in, so
    # put each one in that blueprint, in one that encloses it, or somewhere else (where it must not be seen)
    def blueprints(ops, path, acc):
        acc.append((path, ops))
        k = 0
        for op in ops:
            if op[0] == "nest":
                blueprints(op[1], path + [k], acc)
                k += 1
        return acc

    def decl_path(ops, kind, i, path):
        k = 0
        for op in ops:
            if op[0] == kind and op[1] == i:
                return path
            if op[0] == "nest":
                r = decl_path(op[1], kind, i, path + [k])
                if r is not None:
                    return r
                k += 1
        return None
    bps = blueprints(ebp, [], [])
    by_path = {tuple(p): ops for p, ops in bps}

    def place(k, ops):
        t = tuple(ehs[k]["target"])
        if any(op[0] == "eh" and tuple(ehs[op[1]]["target"]) == t for op in ops):
            return  # one handler per error type and blueprint
        ops.insert(rng.randrange(0, len(ops) + 1), ["eh", k])
    for k in typed + fallbacks:
        t = ehs[k]["target"]
        if t == ["any"]:
            place(k, ebp if rng.random() < 0.5 else rng.choice(bps)[1])
            continue
        dp = decl_path(ebp, {"c": "ctor", "m": "mw", "h": "route"}[t[0]], t[1], [])
        r = rng.random()
        if dp is None or r < 0.25:
            place(k, rng.choice(bps)[1])
        elif r < 0.6 or not dp:
            place(k, by_path[tuple(dp)])
        else:
            place(k, by_path[tuple(dp[:rng.randrange(0, len(dp))])])
    return {"types": types, "ctors": ctors, "handlers": handlers, "mws": mws, "observers": observers, "ehs": ehs, "bp": ebp}


def build(name, mini):
    """compact form -> gen_app spec (+ `err`, what the model and the oracle read)"""
    import copy
    mini = copy.deepcopy(mini)
    U = name.upper()
    types, ctors, handlers, mws = mini["types"], mini["ctors"], mini["handlers"], mini["mws"]
    observers, ehs, ebp = mini["observers"], mini["ehs"], mini["bp"]
    import zlib
    # `allow(error_fallback)` only silences a warning: which error handler is designated does not depend on it
    lint = lambda tag, i: zlib.crc32(("%s/%s/%d" % (name, tag, i)).encode()) % 5 < 2
    for c in ctors:
        c.setdefault("out", c["i"])
        c.setdefault("cloning", False)
        c.setdefault("async", False)
        c.setdefault("allow_fallback", lint("c", c["i"]))
    for h in handlers:
        h.setdefault("allow_fallback", lint("h", h["i"]))
    for m_ in mws:
        m_.setdefault("allow_fallback", lint("m", m_["i"]))
    for h in handlers:
        h["path"] = "/%s/r%d" % (name, h["i"])
        h.setdefault("method", "GET")
        h.setdefault("async", False)
    counter = [0]

    # ---- gen_app blueprint ops + Rust items ------------------------------------------------------
    def cid(tag, i):
        return "%s_%s%d" % (U, {"c": "C", "h": "H", "m": "M"}[tag], i)

    def to_ops(ops, prefix):
        out = []
        for op in ops:
            if op[0] == "ctor":
                out.append(["ctor", op[1]] if op[2] is None else ["raw", "{bp}.constructor(%s).error_handler(%s_X%d);" % (cid("c", op[1]), U, op[2])])
            elif op[0] == "mw":
                kind = mws[op[1]]["kind"]
                if op[2] is None:
                    out.append([kind, op[1]])
                else:
                    meth = {"wrap": "wrap", "pre": "pre_process", "post": "post_process"}[kind]
                    out.append(["raw", "{bp}.%s(%s).error_handler(%s_X%d);" % (meth, cid("m", op[1]), U, op[2])])
            elif op[0] == "route":
                handlers[op[1]]["full_path"] = prefix + handlers[op[1]]["path"]
                out.append(["route", op[1]] if op[2] is None else ["raw", "{bp}.route(%s).error_handler(%s_X%d);" % (cid("h", op[1]), U, op[2])])
            elif op[0] == "obs":
                out.append(["raw", "{bp}.error_observer(%s_O%d);" % (U, op[1])])
            elif op[0] == "eh":
                out.append(["raw", "{bp}.error_handler(%s_X%d);" % (U, op[1])])
            elif op[0] == "nest":
                counter[0] += 1
                pfx = "/n%d" % counter[0]
                out.append(["nest", {"prefix": pfx, "ops": to_ops(op[1], prefix + pfx)}])
        return out

    bp = to_ops(ebp, "")
    items_rs = []

    def params_of(ins):
        ps, ids = "", ""
        for q, (j, mode) in enumerate(ins):
            ps += ", a%d: %sT%d" % (q, {"ref": "&", "val": "", "mut": "&mut "}[mode], j)
            ids += ", a%d.id" % q
        return ps, " ".join("{}" for _ in ins), ids
    for e in ehs:
        t = e["target"]
        ety = "pavex::Error" if t == ["any"] else "E%s%d" % (t[0].upper(), t[1])
        params, fmt, ids = params_of(e["ins"])
        items_rs.append(
            "#[pavex::error_handler(id = \"__MODU___X%d\", default = false)]\n"
            "pub fn x%d(#[px(error_ref)] e: &%s%s) -> Response { log(format!(\"eh __MOD__.x%d : %s\"%s)); "
            "Response::new(pavex::http::StatusCode::from_u16(%d).unwrap()) }" % (e["k"], e["k"], ety, params, e["k"], fmt, ids, e["status"]))
    for o in observers:
        params, fmt, ids = params_of(o["ins"])
        items_rs.append("#[pavex::error_observer(id = \"__MODU___O%d\")]\n"
                        "pub fn o%d(e: &pavex::Error%s) { log(format!(\"observer __MOD__.o%d : %s\"%s)); }" % (o["i"], o["i"], params, o["i"], fmt, ids))
    # decoys: for the error type of every fallible component an OPT-IN handler (`default = false`) in a sub-module that the
    # blueprint imports. `bp.import` skips opt-in handlers: they serve only the components they are attached to, so the
    # import changes nothing (seeded change C06-5 interned them as by-type handlers: a component whose errors should reach
    # the `pavex::Error` fallback was then answered by the decoy).
    decoys = []
    for tag, comps in (("c", ctors), ("h", handlers), ("m", mws)):
        for c in comps:
            if c.get("fallible"):
                ety = "E%s%d" % (tag.upper(), c["i"])
                decoys.append("    #[pavex::error_handler(id = \"__MODU___DECOY_%s\", default = false)]\n"
                              "    pub fn decoy_%s(#[px(error_ref)] _e: &%s) -> Response { log(format!(\"eh __MOD__.decoy_%s : \")); "
                              "Response::new(pavex::http::StatusCode::from_u16(599).unwrap()) }" % (ety.upper(), ety.lower(), ety, ety.lower()))
    if decoys:
        items_rs.append("pub mod decoy {\n    use super::*;\n" + "\n".join(decoys) + "\n}")
        bp = [["raw", "{bp}.import(pavex::blueprint::from![crate::%s::decoy]);" % name]] + bp
    spec = {"name": name, "klass": "errors", "types": types, "ctors": ctors, "handlers": handlers, "mws": mws,
            "observers": [], "bp": bp, "usage": {}, "extra_items": items_rs, "mini": mini,
            "err": {"ctors": [{"i": c["i"], "life": c["life"], "ins": [x[0] for x in c["ins"]], "fallible": c["fallible"]} for c in ctors],
                    "handlers": [{"i": h["i"], "ins": [x[0] for x in h["ins"]], "fallible": h["fallible"]} for h in handlers],
                    "mws": [{"i": m["i"], "kind": m["kind"], "ins": [x[0] for x in m["ins"]], "fallible": m["fallible"]} for m in mws],
                    "ehs": [{"k": e["k"], "target": e["target"], "ins": [x[0] for x in e["ins"]], "status": e["status"]} for e in ehs],
                    "observers": [{"i": o["i"], "ins": [x[0] for x in o["ins"]]} for o in observers],
                    "bp": ebp}}
    return spec


def fallible_names(spec):
    m = spec["name"]
    e = spec["err"]
    return ["%s.c%d" % (m, c["i"]) for c in e["ctors"] if c["fallible"]] + \
           ["%s.m%d" % (m, w["i"]) for w in e["mws"] if w["fallible"]] + \
           ["%s.h%d" % (m, h["i"]) for h in e["handlers"] if h["fallible"]]


def request_script(spec):
    """plain; every fallible component failing alone; pairs; all at once; the same combined with early returns."""
    import random
    m = spec["name"]
    rng = random.Random("%s/%d" % (m, len(spec["bp"])))
    fall = fallible_names(spec)
    pres = [w["i"] for w in spec["mws"] if w["kind"] == "pre"]
    reqs = []
    for h in spec["handlers"]:
        base = {"method": h["method"], "path": h["full_path"], "route": h["i"]}
        reqs.append(dict(base, script=[], tag="e:plain", fail=[], early=[]))
        for f in fall:
            reqs.append(dict(base, script=[f], tag="e:one", fail=[f], early=[]))
        pairs = [(a, b) for i, a in enumerate(fall) for b in fall[i + 1:]]
        rng.shuffle(pairs)
        for a, b in pairs[:6]:
            reqs.append(dict(base, script=[a, b], tag="e:two", fail=[a, b], early=[]))
        if len(fall) >= 3:
            reqs.append(dict(base, script=list(fall), tag="e:all", fail=list(fall), early=[]))
        for p in pres:
            fs = rng.sample(fall, min(len(fall), 2))
            reqs.append(dict(base, script=["early:%s.m%d" % (m, p)] + fs, tag="e:early", fail=fs, early=[p]))
    return reqs


if __name__ == "__main__":
    import json
    import random
    import sys
    s = build("e0", draw(random.Random(int(sys.argv[1]) if len(sys.argv) > 1 else 1)))
    print(json.dumps(s["err"]))
    print(gen_app.render(s))
