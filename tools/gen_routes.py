"""C07 — generator of applications with rich route tables, and of a request script for each.

`make(rng, name)` draws an AppSpec in the format of tools/gen_app.py (no constructors or middlewares:
handlers log "handler <mod>.h<i>", custom fallbacks log "fallback <mod>.fb<k> : <allowed methods>" and
answer 460+k). The routing part of the spec is repeated, as plain data, under spec["rt"]:

    {"handlers": [{"i", "guard": {"some": [..]} | {"any": true} | {"any": "all"}, "path"}],
     "ops": [["route", i] | ["fallback", k] | ["nest", {"prefix"?, "domain"?, "ops": [...]}]]}

which is what the Lean model (`pxmodel router`, op "bp") and the Python oracle of tools/checks/c07.py
read.  `request_script(spec)` derives the requests: every route with matching and non-matching methods
(well-known and custom), instantiated parameters, near-miss paths, unknown paths inside and outside
the nesting prefixes, the bare prefixes, other hosts.
"""

STATIC = ["a", "b", "ab", "users", "v1", "x"]
PNAMES = ["id", "x", "y", "name", "k"]
STD = ["GET", "POST", "PUT", "DELETE", "PATCH", "HEAD", "OPTIONS", "CONNECT", "TRACE"]
CUSTOM = ["PURGE", "LOCK", "BREW", "HEY"]
# the last one has upper-case letters in literal labels: guards are kept as written and compared as written
DOMAINS = ["a.com", "b.com", "api.a.com", "{sub}.a.com", "{sub}.b.com", "{*any}.api.a.com", "{t}x.b.com", "c.org", "Api.D.org"]
VALUES = ["v", "ab", "a", "zab", "q1", "b.json", "7"]


def corpus_apps():
    import json
    import os
    fn = os.path.join(os.path.dirname(os.path.dirname(os.path.abspath(__file__))), "corpus", "C07", "apps.json")
    return json.load(open(fn)) if os.path.exists(fn) else []


def plan(tier):
    return len(corpus_apps()) + (14 if tier == "quick" else 220)


def from_corpus(c, name):
    """a witness application of corpus/C07/apps.json in AppSpec form"""
    U = name.upper()
    handlers = []
    for h in c["handlers"]:
        g = h["guard"]
        d = {"i": h["i"], "path": h["path"], "ins": [], "fallible": False, "async": False, "method": "GET"}
        if "some" in g:
            d["method"] = g["some"][0]
            if len(g["some"]) > 1:
                d["methods"] = list(g["some"])
        else:
            d["any"] = g["any"]
        handlers.append(d)
    fbs = set()

    def conv(ops):
        out = []
        for op in ops:
            if op[0] == "fallback":
                fbs.add(op[1])
                out.append(["raw", "{bp}.fallback(%s_FB%d);" % (U, op[1])])
            elif op[0] == "nest":
                out.append(["nest", dict(op[1], ops=conv(op[1]["ops"]))])
            else:
                out.append(op)
        return out

    bp = conv(c["ops"])
    return {"name": name, "klass": "routes", "types": [], "ctors": [], "handlers": handlers, "mws": [], "observers": [],
            "bp": bp, "usage": {}, "extra_items": [fallback_item(k) for k in sorted(fbs)], "corpus_id": c["id"],
            "rt": {"handlers": c["handlers"], "ops": c["ops"]}, "seed_tag": 0.5,
            "extra_reqs": [{"method": m, "path": p, "host": h, "script": [], "tag": "corpus"} for m, p, h in c.get("reqs", [])]}


def _segment(rng, pname, rich):
    """one path segment; `rich` enables the prefix/suffix forms matchit supports"""
    r = rng.random()
    if r < 0.5:
        return rng.choice(STATIC)
    if r < 0.8 or not rich:
        return "{%s}" % pname
    if r < 0.88:
        return rng.choice(["u", "a", "ab"]) + "{%s}" % pname
    if r < 0.97:
        return "{%s}" % pname + rng.choice([".json", "b", "ab", "-x"])
    return rng.choice(["u", "a"]) + "{%s}" % pname + rng.choice([".json", "b"])


def _path(rng, rich):
    n = rng.choice([1, 1, 2, 2, 3])
    names = list(PNAMES)
    rng.shuffle(names)
    segs = [_segment(rng, names[i], rich) for i in range(n)]
    p = "".join("/" + s for s in segs)
    r = rng.random()
    if r < 0.12:
        p += "/{*rest}"
    elif r < 0.2:
        p += "/"
    elif r < 0.23:
        p = "/"
    elif r < 0.25:
        p = ""
    return p


def _guard(rng):
    r = rng.random()
    if r < 0.45:
        return {"some": [rng.choice(STD[:5])]}
    if r < 0.7:
        k = rng.choice([2, 2, 3])
        return {"some": sorted(set(rng.sample(STD, k)))}
    if r < 0.85:
        ms = [rng.choice(CUSTOM)]
        if rng.random() < 0.6:
            ms.append(rng.choice(STD[:4]))
        if rng.random() < 0.3:
            ms.append(rng.choice(CUSTOM))
        return {"some": sorted(set(ms))}
    if r < 0.93:
        return {"any": True}
    return {"any": "all"}


def _prefix(rng, rich):
    r = rng.random()
    if r < 0.55:
        return "/" + rng.choice(["n1", "api", "a", "users", "v1"])
    if r < 0.7:
        return "/" + rng.choice(["api", "a"]) + "/" + rng.choice(["v1", "b"])
    if r < 0.85:
        return "/" + rng.choice(["t", "a"]) + "/{tenant}"
    if r < 0.93 or not rich:
        return "/{tenant}"
    return "/{tenant}" + rng.choice([".d", "b"])


FALLBACK_EXTRA = ["", ", _c: &pavex::connection::ConnectionInfo", ", _p: &pavex::request::path::RawPathParams<'_, '_>",
                  ", _b: pavex::request::body::RawIncomingBody"]


def fallback_item(k):
    # besides the allowed methods, a fallback may ask for one of the framework items the generated router only binds
    # when some pipeline needs it (which one depends on k: the first fallback, usually the top-level one, takes none)
    return ('#[pavex::fallback(id = "__MODU___FB%d")]\n'
            'pub fn fb%d(a: &pavex::router::AllowedMethods%s) -> Response {\n'
            '    let seen = match a { pavex::router::AllowedMethods::All => "*".to_string(), '
            'pavex::router::AllowedMethods::Some(l) => l.iter().map(|m| m.as_str().to_owned()).collect::<Vec<_>>().join(",") };\n'
            '    log(format!("fallback __MOD__.fb%d : {}", seen));\n'
            '    Response::new(pavex::http::StatusCode::from_u16(%d).unwrap())\n'
            '}\n') % (k, k, FALLBACK_EXTRA[k % 4], k, 460 + k)


def make(rng, name):
    """A route table: 2-9 handlers spread over a blueprint tree (the witnesses of corpus/C07 first)."""
    U = name.upper()
    corpus = corpus_apps()
    if name[1:].isdigit() and int(name[1:]) < len(corpus):
        return from_corpus(corpus[int(name[1:])], name)
    rich = rng.random() < 0.45          # prefix/suffix parameter forms
    domain_based = rng.random() < 0.3   # every route below some domain guard
    conflicty = rng.random() < 0.25     # draw paths from a tiny pool: conflicts and overlaps are likely
    n = rng.randrange(2, 10)
    pool = None
    if conflicty:
        pool = [_path(rng, rich) for _ in range(3)]
    handlers, rt_handlers = [], []
    for i in range(n):
        if pool is not None and rng.random() < 0.7:
            path = rng.choice(pool)
        elif handlers and rng.random() < 0.3:
            path = rng.choice(handlers)["path"]  # several methods on one path
        else:
            path = _path(rng, rich)
        g = _guard(rng)
        h = {"i": i, "path": path, "ins": [], "fallible": False, "async": rng.random() < 0.5}
        if "some" in g:
            if len(g["some"]) == 1:
                h["method"] = g["some"][0]
            else:
                h["methods"] = list(g["some"])
                h["method"] = g["some"][0]
        else:
            h["any"] = g["any"]
            h["method"] = "GET"
        handlers.append(h)
        rt_handlers.append({"i": i, "guard": g, "path": path})
    fb_count = [0]

    def new_fallback():
        k = fb_count[0]
        fb_count[0] += 1
        return k

    def build(idxs, depth, in_domain):
        """ops for the handlers `idxs`; returns (render ops, rt ops)"""
        ops, rt = [], []
        idxs = list(idxs)
        while idxs:
            if depth < 3 and rng.random() < (0.45 if depth == 0 else 0.3):
                k = rng.randrange(1, len(idxs) + 1)
                sub, idxs = idxs[:k], idxs[k:]
                nb = {}
                r = rng.random()
                if domain_based and not in_domain:
                    nb["domain"] = rng.choice(DOMAINS)
                    if r < 0.3:
                        nb["prefix"] = _prefix(rng, rich)
                elif domain_based and r < 0.1:
                    nb["domain"] = rng.choice(DOMAINS)
                elif r < 0.8:
                    nb["prefix"] = _prefix(rng, rich)
                o1, o2 = build(sub, depth + 1, in_domain or "domain" in nb)
                if rng.random() < 0.5:
                    fk = new_fallback()
                    pos = rng.randrange(0, len(o1) + 1)
                    o1.insert(pos, ["raw", "{bp}.fallback(%s_FB%d);" % (U, fk)])
                    o2.insert(pos, ["fallback", fk])
                nb1 = dict(nb, ops=o1)
                nb2 = dict(nb, ops=o2)
                ops.append(["nest", nb1])
                rt.append(["nest", nb2])
            else:
                i = idxs.pop(0)
                if domain_based and not in_domain:
                    # a route outside every domain would mix domain-specific and domain-agnostic routes:
                    # wrap it (rarely leave it, to see the rejection)
                    if rng.random() < 0.97:
                        d = rng.choice(DOMAINS)
                        ops.append(["nest", {"domain": d, "ops": [["route", i]]}])
                        rt.append(["nest", {"domain": d, "ops": [["route", i]]}])
                        continue
                ops.append(["route", i])
                rt.append(["route", i])
        return ops, rt

    order = list(range(n))
    if rng.random() < 0.5:
        rng.shuffle(order)
    ops, rt = build(order, 0, False)
    if rng.random() < 0.35:
        fk = new_fallback()
        pos = rng.randrange(0, len(ops) + 1)
        ops.insert(pos, ["raw", "{bp}.fallback(%s_FB%d);" % (U, fk)])
        rt.insert(pos, ["fallback", fk])
    spec = {"name": name, "klass": "routes", "types": [], "ctors": [], "handlers": handlers, "mws": [],
            "observers": [], "bp": ops, "usage": {}, "extra_items": [fallback_item(k) for k in range(fb_count[0])],
            "rt": {"handlers": rt_handlers, "ops": rt}, "seed_tag": rng.random()}
    return spec


# ---- request scripts ------------------------------------------------------------------------------

def flatten(rt):
    """[(handler dict, full path, domain or None, chain of blueprints)], [(blueprint info)]"""
    hs = {h["i"]: h for h in rt["handlers"]}
    routes, bps = [], []

    def walk(ops, prefix, domain, chain):
        me = {"prefix": prefix, "domain": domain, "fallback": None, "chain": chain, "own_prefix": False}
        bps.append(me)
        for op in ops:
            if op[0] == "route":
                routes.append({"h": hs[op[1]], "path": prefix + hs[op[1]]["path"], "domain": domain, "bp": me})
            elif op[0] == "fallback":
                me["fallback"] = op[1]
            elif op[0] == "nest":
                nb = op[1]
                walk(nb["ops"], prefix + (nb.get("prefix") or ""), nb.get("domain") or domain, chain + [me])
                bps[-1]  # noqa
        return me

    walk(rt["ops"], "", None, [])
    return routes, bps


def instantiate(rng, pattern, values=VALUES):
    """a concrete string that the pattern matches by the documented meaning (best effort)"""
    out, i = "", 0
    while i < len(pattern):
        c = pattern[i]
        if c == "{":
            j = pattern.find("}", i)
            if j < 0:
                out += c
                i += 1
                continue
            name = pattern[i + 1:j]
            if name.startswith("*"):
                out += rng.choice(["r", "r/s", "r/", "zab/d"])
            else:
                out += rng.choice(values)
            i = j + 1
        else:
            out += c
            i += 1
    return out


def host_for(rng, guard):
    if guard is None:
        return "localhost"
    out = []
    for lab in guard.split("."):
        if lab.startswith("{*"):
            rest = lab[lab.index("}") + 1:]
            out.append(rng.choice(["w", "w.v"]) + rest)
        elif lab.startswith("{"):
            rest = lab[lab.index("}") + 1:]
            out.append(rng.choice(["w", "sub", "api"]) + rest)
        else:
            out.append(lab)
    return ".".join(out)


def mutate_path(rng, p):
    r = rng.random()
    if not p:
        return "/"
    if r < 0.2:
        return p + "/"
    if r < 0.35:
        return p[:-1] or "/"
    if r < 0.5:
        return p + rng.choice(["a", "b", "/x"])
    if r < 0.65:
        i = rng.randrange(len(p))
        return p[:i] + rng.choice("abx/") + p[i:]
    if r < 0.8:
        i = rng.randrange(len(p))
        return (p[:i] + p[i + 1:]) or "/"
    segs = p.split("/")
    k = rng.randrange(len(segs))
    segs[k] = rng.choice(STATIC + VALUES)
    return "/".join(segs) or "/"


def listed_custom(g):
    return [m for m in g.get("some", []) if m not in STD]


def request_script(spec):
    import random
    rng = random.Random(int(spec.get("seed_tag", 0.5) * 1e9))
    rt = spec["rt"]
    routes, bps = flatten(rt)
    reqs = list(spec.get("extra_reqs", []))
    seen = {(q["method"], q["path"], q["host"]) for q in reqs}

    def add(method, path, host, tag):
        if method == "CONNECT":
            # a 2xx answer to CONNECT turns the connection into a tunnel: the raw client would wait for its
            # read timeout. CONNECT stays in the method guards, it is just never sent.
            method = "TRACE"
        if not path.startswith("/"):
            path = "/" + path
        # keep the request line well-formed for the raw client
        if any(ch in path for ch in " \r\n\t?#{}") or any(ch in host for ch in " \r\n\t/"):
            return
        key = (method, path, host)
        if key in seen:
            return
        seen.add(key)
        reqs.append({"method": method, "path": path, "host": host, "script": [], "tag": tag})

    domains = sorted({r["domain"] for r in routes if r["domain"]})
    for r in routes:
        g = r["h"]["guard"]
        for rep in range(2):
            path = instantiate(rng, r["path"])
            host = host_for(rng, r["domain"])
            if "some" in g:
                # every method of the guard (mixed standard / custom guards included), on the first instantiation
                for m in (g["some"] if rep == 0 else g["some"][:2]):
                    add(m, path, host, "match")
            else:
                add(rng.choice(STD), path, host, "match-any")
            other = [m for m in STD if "some" not in g or m not in g["some"]]
            add(rng.choice(other), path, host, "other-method")
            add(rng.choice(CUSTOM), path, host, "custom-method")
            mine = [m for m in listed_custom(g)]
            if mine:
                add(rng.choice(mine), path, host, "own-custom-method")
            add(rng.choice(STD[:3]), mutate_path(rng, path), host, "near-miss")
            if rep == 0 and domains:
                add(rng.choice(STD[:2]), path, rng.choice(["zzz.org", "com", host + ":8080", host + ".", host_for(rng, rng.choice(domains))]), "other-host")
    for b in bps:
        if b["prefix"]:
            pre = instantiate(rng, b["prefix"])
            host = host_for(rng, b["domain"])
            add("GET", pre, host, "bare-prefix")
            add("GET", pre + "/", host, "prefix-slash")
            add("POST", pre + "/nope/" + rng.choice(VALUES), host, "unknown-inside")
            add("GET", pre + "z", host, "prefix-glued")
        elif b["domain"]:
            add("GET", "/nope", host_for(rng, b["domain"]), "unknown-in-domain")
    add("GET", "/%s/nope" % spec["name"], "localhost", "unknown-outside")
    add("DELETE", "/", "localhost", "root")
    if domains:
        add("GET", "/nope", host_for(rng, domains[0]), "unknown-in-domain")
        add("GET", "/nope", "unknown.example", "unknown-host")
    return reqs
