"""The shared end-to-end stage (DESIGN.md 5.2): generate applications, run the real (hooked) pavexc
on each, `cargo check` every accepted SDK, and cache the observations under a key that includes the
state of /repo's working tree, so C01-C10 pay for it once per tree."""
import glob
import re
import hashlib
import json
import os
import random
import shutil
import time

import e2e
import gen_app
import pxvlib

SCRATCH = os.path.join(pxvlib.VERIF, "scratch")

PLAN = {  # tier -> number of generated applications per class
    "quick": {"free": 10, "inclass": 10},
    "thorough": {"free": 120, "inclass": 120},
}
BATCH = 40  # modules per workspace
OPTIONAL_GENERATORS = [("gen_routes", "r"), ("gen_scopes", "s"), ("gen_errors", "e"), ("gen_mw", "w"), ("gen_own", "o"), ("gen_names", "n"), ("gen_generic", "x"), ("gen_deps", "d"), ("gen_stage", "t"), ("gen_config", "q")]


def _tool_hash():
    h = hashlib.sha256()
    for fn in ["gen_app.py", "e2e.py", "e2e_stage.py"] + sorted(os.path.basename(f) for f in glob.glob(os.path.join(pxvlib.VERIF, "tools", "gen_*.py")) if os.path.basename(f) != "gen_app.py"):
        h.update(open(os.path.join(pxvlib.VERIF, "tools", fn), "rb").read())
    for fn in sorted(glob.glob(os.path.join(pxvlib.VERIF, "corpus", "e2e", "*"))):
        h.update(open(fn, "rb").read())
    # optional generator modules and the corpus files they read decide which programs exist: part of the key
    for fn in [os.path.join(pxvlib.VERIF, "tools", m + ".py") for m, _ in OPTIONAL_GENERATORS] + \
            sorted(glob.glob(os.path.join(pxvlib.VERIF, "corpus", "C0[3-8]", "*"))):
        if os.path.exists(fn):
            h.update(open(fn, "rb").read())
    return h.hexdigest()[:10]


def stage_key(R):
    return "%s-%s-%d-%s" % (pxvlib.repo_state().replace("+", "_"), R.tier, R.seed, _tool_hash())


def corpus_modules():
    out = []
    for fn in sorted(glob.glob(os.path.join(pxvlib.VERIF, "corpus", "e2e", "*.rs"))):
        base = os.path.basename(fn)[:-3]
        meta = json.load(open(fn[:-3] + ".json")) if os.path.exists(fn[:-3] + ".json") else {}
        out.append((base, open(fn).read(), meta))
    return out


def build_programs(R):
    rng = random.Random(R.seed * 7919 + (1 if R.tier == "quick" else 2))
    progs = []
    for k, (base, src, meta) in enumerate(corpus_modules()):
        name = "k%d" % k
        progs.append({"name": name, "klass": "corpus", "corpus": base, "meta": meta, "spec": None,
                      "src": src.replace("__MODU__", name.upper()).replace("__MOD__", name)})
    i = 0
    for klass, n in PLAN[R.tier].items():
        for _ in range(n):
            name = "g%d" % i
            i += 1
            spec = gen_app.gen_spec(rng, name, klass)
            progs.append({"name": name, "klass": klass, "spec": spec, "src": gen_app.render(spec)})
    # C08: one documented rule violated per application (tools/gen_planted.py, if present)
    try:
        import gen_planted
    except ImportError:
        gen_planted = None
    if gen_planted is not None:
        prng = random.Random(R.seed * 104729 + (3 if R.tier == "quick" else 4))
        for j, rule in enumerate(gen_planted.plan(R.tier)):
            name = "p%d" % j
            base = gen_app.gen_spec(prng, name, "inclass")
            spec = gen_planted.plant(prng, base, rule)
            if spec is None:
                continue
            spec["klass"] = "planted:" + rule
            progs.append({"name": name, "klass": "planted:" + rule, "spec": spec, "src": gen_app.render(spec)})
    # further application families, each in its own optional module tools/<mod>.py exposing
    # plan(tier) -> int, make(rng, name) -> spec | None (spec["klass"] names the family) and, optionally,
    # request_script(spec) -> [requests] for the runtime stage
    for k, (modname, prefix) in enumerate(OPTIONAL_GENERATORS):
        try:
            mod = __import__(modname)
        except ImportError:
            continue
        xrng = random.Random(R.seed * 15485863 + 10 * k + (5 if R.tier == "quick" else 6))
        for j in range(mod.plan(R.tier)):
            name = "%s%d" % (prefix, j)
            spec = mod.make(xrng, name)
            if spec is None:
                continue
            spec.setdefault("klass", modname[4:])
            spec["generator"] = modname
            # a family may bring its own source text (`raw_src`); `no_runtime` keeps it out of the runner binary
            progs.append({"name": name, "klass": spec["klass"], "spec": spec, "src": spec.get("raw_src") or gen_app.render(spec)})
    names = [p["name"] for p in progs]
    if len(names) != len(set(names)):
        # a clash would silently drop programs (modules and observations are keyed by name): k = corpus, g = gen_app, p = planted
        raise RuntimeError("program names clash: %s" % sorted({n for n in names if names.count(n) > 1}))
    return progs


def _replay_programs(R):
    """the single program of a replay file ({"replay": {"app_module_source": .., "program": .., "klass": .., "spec": ..}}), or None"""
    path = getattr(R, "replay", None)
    if not path:
        return None
    try:
        rp = json.load(open(path))["replay"]
    except Exception:
        return None
    if not isinstance(rp, dict) or "app_module_source" not in rp:
        return None
    name = rp.get("program") or "r0"
    meta = None
    if rp.get("corpus"):
        try:
            meta = json.load(open(os.path.join(pxvlib.VERIF, "corpus", "e2e", rp["corpus"] + ".json")))
        except Exception:
            meta = None
    return [{"name": name, "klass": rp.get("klass") or ("corpus" if rp.get("corpus") else "replay"), "spec": rp.get("spec"),
             "corpus": rp.get("corpus"), "meta": meta, "src": rp["app_module_source"]}]


def get_stage(R, keep_workspace=False):
    """Returns (observations: {name: obs}, info). Cached per (tree state, tier, seed, tooling)."""
    os.makedirs(SCRATCH, exist_ok=True)
    key = stage_key(R)
    replay_progs = _replay_programs(R)
    if replay_progs is not None:
        # `--replay <file>`: the stage is the one program the replay file carries, run through the current compiler
        key = "%s-replay-0-%s" % (pxvlib.repo_state().replace("+", "_"), hashlib.sha256(replay_progs[0]["src"].encode()).hexdigest()[:10])
    cache = os.path.join(SCRATCH, "stage-%s.json" % key)
    if os.path.exists(cache):
        with open(cache) as f:
            st = json.load(f)
        R.log("e2e stage: cached (%s), %d programs" % (key, len(st["obs"])))
        os.utime(cache, None)
        return st["obs"], st["info"]
    with pxvlib.BuildLock("e2e-stage"):
        if os.path.exists(cache):
            with open(cache) as f:
                st = json.load(f)
            return st["obs"], st["info"]
        t0 = time.time()
        e2e.ensure_toolchain(R)
        ok, out = e2e.build_pavexc(R)
        if not ok:
            raise RuntimeError("pavexc does not build with hooks on: " + out[-1500:])
        # drop the stages / workspaces of other tree states (each is several GB), unless one of their entries was
        # touched recently: another check may be using it right now (a cache hit touches the stage file)
        groups = {}
        for p in glob.glob(os.path.join(SCRATCH, "stage-*.json")) + glob.glob(os.path.join(SCRATCH, "runtime-*.json")) + \
                glob.glob(os.path.join(SCRATCH, "ws-*")):
            m = re.search(r"([0-9a-f]{12}_[0-9a-f]{12}-[a-z]+-\d+-[0-9a-f]{10})", os.path.basename(p))
            try:
                groups.setdefault(m.group(1) if m else p, []).append((p, os.stat(p).st_mtime))
            except OSError:
                continue
        free_gb = shutil.disk_usage(SCRATCH).free / 2**30
        limit = 40 * 60 if free_gb > 40 else 10 * 60
        for k, entries in groups.items():
            if k == key or time.time() - max(t for _, t in entries) < limit:
                continue
            for p, _ in entries:
                shutil.rmtree(p, ignore_errors=True) if os.path.isdir(p) else os.unlink(p)
        progs = replay_progs if replay_progs is not None else build_programs(R)
        obs = {}
        info = {"key": key, "batches": [], "programs": len(progs)}
        if replay_progs is not None:
            info["replay"] = R.replay
        shared_target = os.path.join(SCRATCH, "ws-target-" + key)
        shared_home = os.path.join(SCRATCH, "ws-home-" + key)
        os.makedirs(shared_home, exist_ok=True)
        for b in range(0, len(progs), BATCH):
            batch = progs[b:b + BATCH]
            root = os.path.join(SCRATCH, "ws-%s-%d" % (key, b // BATCH))
            ws = e2e.Workspace(root, {p["name"]: p["src"] for p in batch}, target_dir=shared_target)
            ws.home = shared_home
            ws.write()
            tb = time.time()
            rc, out = ws.emit_blueprints()
            if rc != 0:
                # a module of the user crate does not compile: that is a generator problem, not a property of
                # pavex — drop the offending modules (recorded in the evidence) and go on with the others
                import re as _re
                bad = sorted(set(_re.findall(r"--> app/src/(\w+)\.rs", out)))
                bad = [b for b in bad if b in {p["name"] for p in batch}]
                if not bad:
                    raise RuntimeError("generated app crate does not compile (generator bug): " + out[-3000:])
                info.setdefault("generator_rejects", []).extend(bad)
                batch = [p for p in batch if p["name"] not in bad]
                ws = e2e.Workspace(root, {p["name"]: p["src"] for p in batch}, target_dir=shared_target)
                ws.home = shared_home
                ws.write()
                rc, out = ws.emit_blueprints()
                if rc != 0:
                    raise RuntimeError("generated app crate does not compile (generator bug): " + out[-3000:])
            bp_panics = [l.split()[1] for l in out.split("\n") if l.startswith("BP-PANIC ")]
            if bp_panics:
                info.setdefault("blueprint_builder_panics", []).extend(bp_panics)
                batch = [p for p in batch if p["name"] not in bp_panics]
            t1 = time.time()
            must = {p["name"] for p in batch if p["klass"] == "inclass" or (p.get("meta") or {}).get("expect") == "accept"}
            res = ws.pavexc_all([p["name"] for p in batch], must_accept=must)
            for p in batch:
                fa = res[p["name"]].get("first_attempt")
                if fa is not None:
                    same = (fa["rc"] == res[p["name"]]["rc"] and fa["panicked"] == res[p["name"]]["panicked"])
                    info.setdefault("repeated_alone", []).append({"program": p["name"], "first_rc": fa["rc"], "first_panicked": fa["panicked"],
                                                                  "alone_rc": res[p["name"]]["rc"], "same_outcome": same,
                                                                  "first_tail": "" if same else fa["out_tail"][-400:]})
            t2 = time.time()
            accepted = [p["name"] for p in batch if res[p["name"]]["rc"] == 0]
            cc = ws.cargo_check(accepted)
            t3 = time.time()
            for p in batch:
                r = res[p["name"]]
                o = {"name": p["name"], "klass": p["klass"], "spec": p["spec"], "corpus": p.get("corpus"),
                     "meta": p.get("meta"), "rc": r["rc"], "panicked": r["panicked"], "timed_out": r["timed_out"],
                     "secs": r["secs"], "out": r["out"][-6000:], "dump": r["dump"],
                     "files": ws.sdk_files(p["name"]), "lib_rs": ws.lib_rs(p["name"]) if r["rc"] == 0 else "",
                     "dot": ws.dot(p["name"]) if r["rc"] == 0 else "", "workspace": root, "src": p["src"]}
                if p["name"] in cc:
                    o["cargo_check"] = {"ok": cc[p["name"]][0], "err": cc[p["name"]][1]}
                obs[p["name"]] = o
            info["batches"].append({"root": root, "n": len(batch), "bp_s": round(t1 - tb, 1),
                                    "pavexc_s": round(t2 - t1, 1), "check_s": round(t3 - t2, 1)})
        info["wall_s"] = round(time.time() - t0, 1)
        with open(cache + ".tmp", "w") as f:
            json.dump({"obs": obs, "info": info}, f)
        os.replace(cache + ".tmp", cache)
        # a runtime cache computed from an earlier stage under the same key is stale now
        try:
            os.unlink(os.path.join(SCRATCH, "runtime-%s.json" % key))
        except OSError:
            pass
        R.log("e2e stage: %d programs in %.0fs (%s)" % (len(obs), info["wall_s"], info["batches"]))
        return obs, info


def workspace_of(obs_entry, info):
    """Re-open the scratch workspace a program of the stage lives in (for the extra runs of C09/C10)."""
    key = info["key"]
    ws = e2e.Workspace(obs_entry["workspace"], {}, target_dir=os.path.join(SCRATCH, "ws-target-" + key))
    ws.home = os.path.join(SCRATCH, "ws-home-" + key)
    return ws


def snapshot(paths):
    out = {}
    for p in paths:
        if os.path.exists(p):
            b = open(p, "rb").read()
            out[p] = (hashlib.sha256(b).hexdigest(), os.stat(p).st_mtime_ns)
        else:
            out[p] = None
    return out


def request_script(spec):
    """Scripted requests for one generated application (C03-C07)."""
    if spec.get("generator"):
        mod = __import__(spec["generator"])
        if hasattr(mod, "request_script"):
            return mod.request_script(spec)
    m = spec["name"]
    reqs = []
    fallible = ["%s.c%d" % (m, c["i"]) for c in spec["ctors"] if c["fallible"]] + \
               ["%s.m%d" % (m, w["i"]) for w in spec["mws"] if w["fallible"]]
    pres = [w["i"] for w in spec["mws"] if w["kind"] == "pre"]
    for h in spec["handlers"]:
        path = h.get("full_path", h["path"])
        base = {"method": h["method"], "path": path, "route": h["i"]}
        reqs.append(dict(base, script=[], tag="plain"))
        reqs.append(dict(base, script=[], tag="plain-again"))
        for p in pres:
            reqs.append(dict(base, script=["early:%s.m%d" % (m, p)], tag="early", early=[p]))
        if len(pres) >= 2:
            reqs.append(dict(base, script=["early:%s.m%d" % (m, p) for p in pres], tag="early-all", early=pres))
        for f in fallible + (["%s.h%d" % (m, h["i"])] if h["fallible"] else []):
            reqs.append(dict(base, script=[f], tag="fail", fail=f))
        other = "DELETE" if h["method"] != "DELETE" else "GET"
        reqs.append({"method": other, "path": path, "script": [], "tag": "wrong-method", "route": h["i"]})
    reqs.append({"method": "GET", "path": "/%s/nope" % m, "script": [], "tag": "unknown-path"})
    return reqs


def get_runtime(R):
    """Observations of the generated servers: {program: {"requests": [...], "result": runner output}}."""
    obs, info = get_stage(R)
    key = info["key"]
    cache = os.path.join(SCRATCH, "runtime-%s.json" % key)
    if os.path.exists(cache):
        with open(cache) as f:
            return obs, info, json.load(f)
    with pxvlib.BuildLock("e2e-runtime"):
        if os.path.exists(cache):
            with open(cache) as f:
                return obs, info, json.load(f)
        t0 = time.time()
        out = {}
        by_ws = {}
        for o in obs.values():
            if o["rc"] == 0 and o.get("cargo_check", {}).get("ok") and o["spec"] and not o["spec"].get("no_runtime"):
                by_ws.setdefault(o["workspace"], []).append(o)
        for root, progs in by_ws.items():
            ws = workspace_of(progs[0], info)
            names = [o["name"] for o in progs]
            e2e.write_runner(ws, names)
            script = {o["name"]: request_script(o["spec"]) for o in progs}
            res = e2e.run_servers(ws, script)
            for o in progs:
                out[o["name"]] = {"requests": script[o["name"]], "result": res.get(o["name"])}
        with open(cache + ".tmp", "w") as f:
            json.dump(out, f)
        os.replace(cache + ".tmp", cache)
        R.log("runtime stage: %d servers in %.0fs" % (len(out), time.time() - t0))
        return obs, info, out
