"""Running the real `pavexc` on generated applications, offline (DESIGN.md 5.1/5.2).

A *workspace* is a scratch cargo workspace with one `app` crate (one module per generated
application, so rustdoc runs once per batch) and one pre-created SDK crate per module.
"""
import concurrent.futures
import hashlib
import json
import os
import re
import shutil
import subprocess
import time

import gen_app
import pxvlib

TOOLCHAIN = os.path.join(pxvlib.VERIF, "toolchain")
PAVEXC_TARGET = os.path.join(pxvlib.HARNESS, "target-pavexc")
PAVEXC = os.path.join(PAVEXC_TARGET, "debug", "pavexc")


def ensure_toolchain(R=None):
    if not os.path.exists(os.path.join(TOOLCHAIN, "root", "share", "doc", "rust", "json", "std.json")) or \
            not os.path.exists(os.path.join(TOOLCHAIN, "bin", "rustup")):
        rc, out = pxvlib.sh(["bash", os.path.join(pxvlib.VERIF, "tools", "px_toolchain.sh")], timeout=1800)
        if rc != 0:
            raise RuntimeError("px_toolchain.sh failed: " + out[-2000:])


def build_pavexc(R):
    """Rebuilds pavexc (hooks on) from /repo's current working tree."""
    t = time.time()
    with pxvlib.BuildLock("cargo-pavexc"):
        rc, out = pxvlib.sh(["cargo", "build", "--manifest-path",
                             os.path.join(pxvlib.VERIF, ".repo", "compiler", "pavexc_cli", "Cargo.toml"),
                             "--target-dir", PAVEXC_TARGET], cwd=pxvlib.HARNESS, timeout=3600)
    R.log("cargo build pavexc_cli (hooks on): rc=%d %.1fs" % (rc, time.time() - t))
    if rc != 0:
        R.log(out[-3000:])
    return rc == 0, out


def tool_env(home):
    e = pxvlib.env_offline()
    e["PATH"] = os.path.join(TOOLCHAIN, "bin") + ":" + e["PATH"]
    e["CARGO_HOME"] = os.environ.get("CARGO_HOME", os.path.expanduser("~/.cargo"))
    e["RUSTUP_HOME"] = os.environ.get("RUSTUP_HOME", os.path.expanduser("~/.rustup"))
    e["HOME"] = home
    e.pop("RUSTFLAGS", None)
    return e


class Workspace:
    def __init__(self, root, modules, target_dir=None):
        """modules: {name: rust source of app/src/<name>.rs}"""
        self.root = root
        self.modules = dict(modules)
        self.target_dir = target_dir or os.path.join(root, "target")
        self.home = os.path.join(root, "home")

    def write(self):
        r = self.root
        shutil.rmtree(r, ignore_errors=True)
        for d in ["app/src/bin", "bp", "diag", "dump", "home", "sdk"]:
            os.makedirs(os.path.join(r, d))
        names = sorted(self.modules)
        members = ["app"] + ["sdk/%s" % m for m in names]
        repo = os.path.realpath(pxvlib.REPO)
        with open(os.path.join(r, "Cargo.toml"), "w") as f:
            f.write("[workspace]\nmembers = %s\nresolver = \"3\"\n[workspace.package]\nedition = \"2024\"\n"
                    "[workspace.dependencies]\npavex = { path = \"%s/runtime/pavex\", features = [\"server\"] }\n"
                    "[profile.dev]\ndebug = \"none\"\n" % (json.dumps(members), repo))
        shutil.copy(os.path.join(repo, "compiler", "ui_tests", "Cargo.lock"), os.path.join(r, "Cargo.lock"))
        with open(os.path.join(r, "app", "Cargo.toml"), "w") as f:
            f.write("[package]\nname = \"app\"\nversion = \"0.1.0\"\nedition = \"2024\"\n"
                    "[lints.rust.unexpected_cfgs]\nlevel = \"allow\"\ncheck-cfg = [\"cfg(pavex_ide_hint)\"]\n"
                    "[dependencies]\npavex = { workspace = true }\nserde = { version = \"1\", features = [\"derive\"] }\n")
        with open(os.path.join(r, "app", "src", "rt.rs"), "w") as f:
            f.write(gen_app.RT_RS)
        with open(os.path.join(r, "app", "src", "lib.rs"), "w") as f:
            f.write("pub mod rt;\n" + "".join("pub mod %s;\n" % m for m in names))
        for m in names:
            with open(os.path.join(r, "app", "src", m + ".rs"), "w") as f:
                f.write(self.modules[m])
            os.makedirs(os.path.join(r, "sdk", m, "src"))
            with open(os.path.join(r, "sdk", m, "Cargo.toml"), "w") as f:
                f.write("[package]\nname = \"sdk_%s\"\nversion = \"0.1.0\"\nedition = \"2024\"\n" % m)
            with open(os.path.join(r, "sdk", m, "src", "lib.rs"), "w") as f:
                f.write("// placeholder\n")
        with open(os.path.join(r, "app", "src", "bin", "bp.rs"), "w") as f:
            f.write("fn main() {\n    let out: std::path::PathBuf = std::env::args().nth(1).unwrap().into();\n" +
                    "".join("    app::%s::blueprint().persist(&out.join(\"%s.ron\")).unwrap();\n" % (m, m) for m in names) +
                    "}\n")

    def cargo(self, args, timeout=1800):
        e = tool_env(self.home)
        e["CARGO_TARGET_DIR"] = self.target_dir
        return pxvlib.sh(["cargo"] + args + ["--offline"], cwd=self.root, env=e, timeout=timeout)

    def emit_blueprints(self):
        return self.cargo(["run", "-q", "--bin", "bp", "--", os.path.join(self.root, "bp")])

    def pavexc(self, m, home=None, check=False, dump=True, timeout=300, exe=None, out_dir=None):
        home = home or self.home
        e = tool_env(home)
        e["CARGO_TARGET_DIR"] = self.target_dir
        dump_path = os.path.join(self.root, "dump", m + ".jsonl")
        if dump:
            if os.path.exists(dump_path):
                os.unlink(dump_path)
            e["PAVEX_VERIF_DUMP"] = dump_path
        cmd = [exe or PAVEXC, "--color", "never", "generate", "-b", os.path.join("bp", m + ".ron"),
               "-o", out_dir or os.path.join("sdk", m), "--diagnostics", os.path.join("diag", m + ".dot"),
               "--docs-toolchain", "nightly"]
        if check:
            cmd.append("--check")
        t = time.time()
        try:
            p = subprocess.run(cmd, cwd=self.root, env=e, stdout=subprocess.PIPE, stderr=subprocess.STDOUT,
                               text=True, timeout=timeout)
            rc, out, to = p.returncode, p.stdout, False
        except subprocess.TimeoutExpired as ex:
            rc, out, to = -9, (ex.stdout or b"").decode(errors="replace") if isinstance(ex.stdout, bytes) else (ex.stdout or ""), True
        dumps = []
        if dump and os.path.exists(dump_path):
            dumps = [json.loads(l) for l in open(dump_path) if l.strip()]
        return {"m": m, "rc": rc, "out": out, "secs": round(time.time() - t, 2), "timed_out": to, "dump": dumps,
                "panicked": "panicked" in out, "n_errors": len(re.findall(r"ERROR", out))}

    def pavexc_all(self, names, jobs=12, **kw):
        # the first run fills the doc cache for everybody else
        res = {}
        if not names:
            return res
        res[names[0]] = self.pavexc(names[0], **kw)
        with concurrent.futures.ThreadPoolExecutor(max_workers=jobs) as ex:
            for r in ex.map(lambda n: self.pavexc(n, **kw), names[1:]):
                res[r["m"]] = r
        return res

    def sdk_files(self, m):
        d = os.path.join(self.root, "sdk", m)
        out = {}
        for rel in ["Cargo.toml", "src/lib.rs"]:
            p = os.path.join(d, rel)
            if os.path.exists(p):
                b = open(p, "rb").read()
                out[rel] = {"sha": hashlib.sha256(b).hexdigest(), "mtime_ns": os.stat(p).st_mtime_ns, "len": len(b)}
        return out

    def lib_rs(self, m):
        p = os.path.join(self.root, "sdk", m, "src", "lib.rs")
        return open(p).read() if os.path.exists(p) else ""

    def dot(self, m):
        p = os.path.join(self.root, "diag", m + ".dot")
        return open(p).read() if os.path.exists(p) else ""

    def cargo_check(self, names):
        """`cargo check` each SDK; returns {m: (ok, first error lines)}."""
        res = {}
        if not names:
            return res
        rc, out = self.cargo(["check", "--keep-going"] + sum([["-p", "sdk_" + m] for m in names], []), timeout=3600)
        if rc == 0:
            return {m: (True, "") for m in names}
        # find out which failed
        for m in names:
            rc1, out1 = self.cargo(["check", "-p", "sdk_" + m], timeout=1800)
            errs = [l for l in out1.split("\n") if l.startswith("error")]
            res[m] = (rc1 == 0, "\n".join(errs[:6]))
        return res
