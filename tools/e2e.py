"""Running the real `pavexc` on generated applications, offline (DESIGN.md 5.1/5.2).

A *workspace* is a scratch cargo workspace with one `app` crate (one module per generated
application, so rustdoc runs once per batch) and one pre-created SDK crate per module.
"""
import concurrent.futures
import hashlib
import json
import os
import re
import shutil
import subprocess
import time

import gen_app
import pxvlib

TOOLCHAIN = os.path.join(pxvlib.VERIF, "toolchain")
PAVEXC_TARGET = os.path.join(pxvlib.HARNESS, "target-pavexc")
PAVEXC = os.path.join(PAVEXC_TARGET, "debug", "pavexc")


def ensure_toolchain(R=None):
    if not os.path.exists(os.path.join(TOOLCHAIN, "root", "share", "doc", "rust", "json", "std.json")) or \
            not os.path.exists(os.path.join(TOOLCHAIN, "bin", "rustup")):
        rc, out = pxvlib.sh(["bash", os.path.join(pxvlib.VERIF, "tools", "px_toolchain.sh")], timeout=1800)
        if rc != 0:
            raise RuntimeError("px_toolchain.sh failed: " + out[-2000:])


def build_pavexc(R):
    """Rebuilds pavexc (hooks on) from /repo's current working tree."""
    t = time.time()
    with pxvlib.BuildLock("cargo-pavexc"):
        rc, out = pxvlib.sh(["cargo", "build", "--manifest-path",
                             os.path.join(pxvlib.VERIF, ".repo", "compiler", "pavexc_cli", "Cargo.toml"),
                             "--target-dir", PAVEXC_TARGET], cwd=pxvlib.HARNESS, timeout=3600)
    R.log("cargo build pavexc_cli (hooks on): rc=%d %.1fs" % (rc, time.time() - t))
    if rc != 0:
        R.log(out[-3000:])
    return rc == 0, out


def tool_env(home):
    e = pxvlib.env_offline()
    e["PATH"] = os.path.join(TOOLCHAIN, "bin") + ":" + e["PATH"]
    e["CARGO_HOME"] = os.environ.get("CARGO_HOME", os.path.expanduser("~/.cargo"))
    e["RUSTUP_HOME"] = os.environ.get("RUSTUP_HOME", os.path.expanduser("~/.rustup"))
    e["HOME"] = home
    e.pop("RUSTFLAGS", None)
    return e


EXT_HELPER_PARTS = "pub mod inner { pub struct Salt { pub id: u64 } }\npub use inner::Salt;\n"
# the same public API (`helper::Salt`) defined in a module of another name: the path pavexc prints for the type changes
EXT_HELPER_PARTS_V2 = "pub mod core2 { pub struct Salt { pub id: u64 } }\npub use core2::Salt;\n"


class Workspace:
    def __init__(self, root, modules, target_dir=None):
        """modules: {name: rust source of app/src/<name>.rs}"""
        self.root = root
        self.modules = dict(modules)
        self.target_dir = target_dir or os.path.join(root, "target")
        self.home = os.path.join(root, "home")

    def write(self):
        r = self.root
        shutil.rmtree(r, ignore_errors=True)
        for d in ["app/src/bin", "bp", "diag", "dump", "home", "sdk", "helper/src", "ext/helper/src"]:
            os.makedirs(os.path.join(r, d))
        names = sorted(self.modules)
        members = ["app", "helper"] + ["sdk/%s" % m for m in names]
        repo = os.path.realpath(pxvlib.REPO)
        with open(os.path.join(r, "Cargo.toml"), "w") as f:
            f.write("[workspace]\nmembers = %s\nexclude = [\"ext\"]\nresolver = \"3\"\n[workspace.package]\nedition = \"2024\"\n"
                    "[workspace.dependencies]\npavex = { path = \"%s/runtime/pavex\", features = [\"server\"] }\n"
                    "[profile.dev]\ndebug = \"none\"\n" % (json.dumps(members), repo))
        lock = os.path.join(repo, "compiler", "ui_tests", "Cargo.lock")
        if not os.path.exists(lock):  # git-ignored upstream: absent from fresh worktrees of the repository
            lock = os.path.join(pxvlib.VERIF, "tools", "e2e_workspace.Cargo.lock")
        shutil.copy(lock, os.path.join(r, "Cargo.lock"))
        with open(os.path.join(r, "app", "Cargo.toml"), "w") as f:
            f.write("[package]\nname = \"app\"\nversion = \"0.1.0\"\nedition = \"2024\"\n"
                    "[lints.rust.unexpected_cfgs]\nlevel = \"allow\"\ncheck-cfg = [\"cfg(pavex_ide_hint)\"]\n"
                    "[dependencies]\npavex = { workspace = true }\nserde = { version = \"1\", features = [\"derive\"] }\n"
                    "helper = { path = \"../helper\" }\n"
                    # a second package whose LIBRARY is called `helper` too, outside the workspace (its docs are cached, the
                    # workspace member's never are): two `helper.json` compete for one file name in target/doc (C10)
                    "helper_ext = { package = \"helper\", path = \"../ext/helper\" }\n")
        # a second local crate: components whose signatures name `helper::Greeting` make the generated SDK depend on it,
        # so the set of dependencies of an SDK varies between programs (C10)
        with open(os.path.join(r, "helper", "Cargo.toml"), "w") as f:
            f.write("[package]\nname = \"helper\"\nversion = \"0.1.0\"\nedition = \"2024\"\n")
        with open(os.path.join(r, "helper", "src", "lib.rs"), "w") as f:
            f.write("#![doc(html_root_url = \"https://docs.rs/helper/0.1.0\")]\npub struct Greeting { pub id: u64 }\n"
                    "pub mod inner { pub struct Salt { pub id: u8 } }\n")
        with open(os.path.join(r, "ext", "helper", "Cargo.toml"), "w") as f:
            f.write("[package]\nname = \"helper\"\nversion = \"2.0.0\"\nedition = \"2024\"\n")
        # the items of the crate outside the workspace live in a file that is NOT a `.rs` file and is pulled in with
        # `include!`: its documentation is cached by pavexc under a checksum of the crate's sources, which has to cover
        # that file too (C10: the history `edit-included-source` rewrites it between two runs)
        with open(os.path.join(r, "ext", "helper", "src", "lib.rs"), "w") as f:
            f.write("#![doc(html_root_url = \"https://docs.rs/helper/2.0.0\")]\ninclude!(\"parts.inc\");\n")
        with open(os.path.join(r, "ext", "helper", "src", "parts.inc"), "w") as f:
            f.write(EXT_HELPER_PARTS)
        with open(os.path.join(r, "app", "src", "rt.rs"), "w") as f:
            f.write(gen_app.RT_RS)
        with open(os.path.join(r, "app", "src", "lib.rs"), "w") as f:
            f.write("pub mod rt;\n" + "".join("pub mod %s;\n" % m for m in names))
        for m in names:
            with open(os.path.join(r, "app", "src", m + ".rs"), "w") as f:
                f.write(self.modules[m])
            os.makedirs(os.path.join(r, "sdk", m, "src"))
            with open(os.path.join(r, "sdk", m, "Cargo.toml"), "w") as f:
                f.write("[package]\nname = \"sdk_%s\"\nversion = \"0.1.0\"\nedition = \"2024\"\n" % m)
            with open(os.path.join(r, "sdk", m, "src", "lib.rs"), "w") as f:
                f.write("// placeholder\n")
        with open(os.path.join(r, "app", "src", "bin", "bp.rs"), "w") as f:
            f.write("fn main() {\n    let out: std::path::PathBuf = std::env::args().nth(1).unwrap().into();\n" +
                    "".join("    if std::panic::catch_unwind(|| app::%s::blueprint().persist(&out.join(\"%s.ron\")).unwrap()).is_err() { eprintln!(\"BP-PANIC %s\"); }\n" % (m, m, m) for m in names) +
                    "}\n")

    def cargo(self, args, timeout=1800):
        e = tool_env(self.home)
        e["CARGO_TARGET_DIR"] = self.target_dir
        return pxvlib.sh(["cargo"] + args + ["--offline"], cwd=self.root, env=e, timeout=timeout)

    def emit_blueprints(self):
        return self.cargo(["run", "-q", "--bin", "bp", "--", os.path.join(self.root, "bp")])

    def pavexc(self, m, home=None, check=False, dump=True, timeout=300, exe=None, out_dir=None):
        home = home or self.home
        e = tool_env(home)
        e["CARGO_TARGET_DIR"] = self.target_dir
        dump_path = os.path.join(self.root, "dump", m + ".jsonl")
        if dump:
            if os.path.exists(dump_path):
                os.unlink(dump_path)
            e["PAVEX_VERIF_DUMP"] = dump_path
        cmd = [exe or PAVEXC, "--color", "never", "generate", "-b", os.path.join("bp", m + ".ron"),
               "-o", out_dir or os.path.join("sdk", m), "--diagnostics", os.path.join("diag", m + ".dot"),
               "--docs-toolchain", "nightly"]
        if check:
            cmd.append("--check")
        t = time.time()
        try:
            p = subprocess.run(cmd, cwd=self.root, env=e, stdout=subprocess.PIPE, stderr=subprocess.STDOUT,
                               text=True, timeout=timeout)
            rc, out, to = p.returncode, p.stdout, False
        except subprocess.TimeoutExpired as ex:
            rc, out, to = -9, (ex.stdout or b"").decode(errors="replace") if isinstance(ex.stdout, bytes) else (ex.stdout or ""), True
        dumps = []
        if dump and os.path.exists(dump_path):
            dumps = [json.loads(l) for l in open(dump_path) if l.strip()]
        return {"m": m, "rc": rc, "out": out, "secs": round(time.time() - t, 2), "timed_out": to, "dump": dumps,
                "panicked": "panicked" in out, "n_errors": len(re.findall(r"ERROR", out))}

    def pavexc_all(self, names, jobs=12, must_accept=(), **kw):
        # the first run fills the doc cache for everybody else
        res = {}
        if not names:
            return res
        res[names[0]] = self.pavexc(names[0], **kw)
        with concurrent.futures.ThreadPoolExecutor(max_workers=jobs) as ex:
            for r in ex.map(lambda n: self.pavexc(n, **kw), names[1:]):
                res[r["m"]] = r
        # The parallel runs share one cargo workspace: while one pavexc rewrites the manifest of its SDK crate or
        # re-documents the `app` crate, another one may run `cargo metadata` / read that JSON and fail for reasons that
        # have nothing to do with its blueprint (seen as "Failed to invoke `cargo metadata`" and as panics about
        # annotations that are missing from the docs). Nobody runs pavexc like that: every run that crashed, timed out,
        # failed in cargo, or rejected a program that must be accepted is repeated ALONE, and the repetition counts.
        # What the first attempt said is kept (`first_attempt`) and reported by the stage.
        def suspicious(r):
            return (r["panicked"] or r["timed_out"] or r["rc"] not in (0, 1) or "Failed to invoke `cargo" in r["out"]
                    or "cargo rustdoc" in r["out"] or (r["rc"] != 0 and r["m"] in must_accept) or (r["rc"] != 0 and r["n_errors"] == 0))
        for n in names:
            r = res[n]
            if suspicious(r):
                r2 = self.pavexc(n, **kw)
                r2["first_attempt"] = {"rc": r["rc"], "panicked": r["panicked"], "timed_out": r["timed_out"], "out_tail": r["out"][-1500:]}
                res[n] = r2
        return res

    def sdk_files(self, m):
        d = os.path.join(self.root, "sdk", m)
        out = {}
        for rel in ["Cargo.toml", "src/lib.rs"]:
            p = os.path.join(d, rel)
            if os.path.exists(p):
                b = open(p, "rb").read()
                out[rel] = {"sha": hashlib.sha256(b).hexdigest(), "mtime_ns": os.stat(p).st_mtime_ns, "len": len(b)}
        return out

    def lib_rs(self, m):
        p = os.path.join(self.root, "sdk", m, "src", "lib.rs")
        return open(p).read() if os.path.exists(p) else ""

    def dot(self, m):
        p = os.path.join(self.root, "diag", m + ".dot")
        return open(p).read() if os.path.exists(p) else ""

    def cargo_check(self, names):
        """`cargo check` each SDK; returns {m: (ok, first error lines)}."""
        res = {}
        if not names:
            return res
        rc, out = self.cargo(["check", "--keep-going"] + sum([["-p", "sdk_" + m] for m in names], []), timeout=3600)
        if rc == 0:
            return {m: (True, "") for m in names}
        # find out which failed
        for m in names:
            rc1, out1 = self.cargo(["check", "-p", "sdk_" + m], timeout=1800)
            errs = [l for l in out1.split("\n") if l.startswith("error")]
            res[m] = (rc1 == 0, "\n".join(errs[:6]))
        return res


# ---- running the generated servers (C03-C07) ---------------------------------------------------

RUNNER_MAIN_HEAD = r'''//! Generated: starts each generated server on 127.0.0.1:0, replays scripted requests over raw TCP,
//! returns status/headers/body and the application trace per request. One JSON document on stdout.
use std::io::{Read, Write};

fn http(port: u16, method: &str, path: &str, host: &str) -> serde_json::Value {
    let mut s = match std::net::TcpStream::connect(("127.0.0.1", port)) {
        Ok(s) => s,
        Err(e) => return serde_json::json!({"error": format!("connect: {e}")}),
    };
    s.set_read_timeout(Some(std::time::Duration::from_secs(10))).unwrap();
    let req = format!("{method} {path} HTTP/1.1\r\nHost: {host}\r\nConnection: close\r\nContent-Length: 0\r\n\r\n");
    if let Err(e) = s.write_all(req.as_bytes()) {
        return serde_json::json!({"error": format!("write: {e}")});
    }
    let mut buf = Vec::new();
    let _ = s.read_to_end(&mut buf);
    let text = String::from_utf8_lossy(&buf).to_string();
    let (head, body) = text.split_once("\r\n\r\n").unwrap_or((&text, ""));
    let mut lines = head.split("\r\n");
    let status: u16 = lines.next().and_then(|l| l.split(' ').nth(1)).and_then(|c| c.parse().ok()).unwrap_or(0);
    let mut headers = serde_json::Map::new();
    for l in lines {
        if let Some((k, v)) = l.split_once(':') {
            headers.insert(k.trim().to_ascii_lowercase(), serde_json::Value::String(v.trim().to_string()));
        }
    }
    serde_json::json!({"status": status, "headers": headers, "body": body})
}

fn script_of(req: &serde_json::Value) -> Vec<String> {
    req.get("script").and_then(|s| s.as_array()).map(|a| a.iter().filter_map(|x| x.as_str().map(String::from)).collect()).unwrap_or_default()
}
'''

RUNNER_MODULE = r'''
async fn run_%(m)s(reqs: &[serde_json::Value]) -> serde_json::Value {
    app::rt::take();
    app::rt::set_script(vec![]);
    let state = match sdk_%(m)s::ApplicationState::new(sdk_%(m)s::ApplicationConfig {}).await {
        Ok(s) => s,
        Err(e) => return serde_json::json!({"init_error": format!("{e:?}"), "init_trace": app::rt::take()}),
    };
    let init_trace = app::rt::take();
    let listener = std::net::TcpListener::bind("127.0.0.1:0").unwrap();
    let port = listener.local_addr().unwrap().port();
    let incoming: pavex::server::IncomingStream = listener.try_into().unwrap();
    let server = pavex::server::Server::new().listen(incoming);
    // `run` builds the generated `Router` (every `insert(..).unwrap()`): a panic there is an answer (C07)
    let handle = match std::panic::catch_unwind(std::panic::AssertUnwindSafe(|| sdk_%(m)s::run(server, state))) {
        Ok(h) => h,
        Err(p) => {
            let msg = p.downcast_ref::<String>().cloned().or_else(|| p.downcast_ref::<&str>().map(|s| s.to_string())).unwrap_or_default();
            return serde_json::json!({"start_panic": msg, "init_trace": init_trace});
        }
    };
    let mut out = Vec::new();
    for r in reqs {
        app::rt::set_script(script_of(r));
        let method = r["method"].as_str().unwrap_or("GET").to_string();
        let path = r["path"].as_str().unwrap_or("/").to_string();
        let host = r["host"].as_str().unwrap_or("localhost").to_string();
        let mut resp = tokio::task::spawn_blocking(move || http(port, &method, &path, &host)).await.unwrap();
        // give the worker a moment to finish post-response work before reading the trace
        tokio::time::sleep(std::time::Duration::from_millis(5)).await;
        resp["trace"] = serde_json::json!(app::rt::take());
        out.push(resp);
    }
    handle.shutdown(pavex::server::ShutdownMode::Forced).await;
    serde_json::json!({"init_trace": init_trace, "responses": out})
}
'''


def _runner_main(names):
    o = [RUNNER_MAIN_HEAD]
    for m in names:
        o.append(RUNNER_MODULE % {"m": m})
    o.append("#[tokio::main(flavor = \"multi_thread\", worker_threads = 2)]\nasync fn main() {\n"
             "    let mut input = String::new();\n    std::io::stdin().read_to_string(&mut input).unwrap();\n"
             "    let script: serde_json::Value = serde_json::from_str(&input).unwrap();\n"
             "    let mut out = serde_json::Map::new();\n")
    for m in names:
        o.append("    if let Some(reqs) = script.get(\"%s\").and_then(|r| r.as_array()) { out.insert(\"%s\".into(), run_%s(reqs).await); }\n" % (m, m, m))
    o.append("    println!(\"{}\", serde_json::Value::Object(out));\n}\n")
    return "".join(o)


def write_runner(ws, names):
    """Adds a `runner` crate that links the SDKs `names` (they must compile)."""
    d = os.path.join(ws.root, "runner")
    os.makedirs(os.path.join(d, "src"), exist_ok=True)
    with open(os.path.join(d, "Cargo.toml"), "w") as f:
        f.write("[package]\nname = \"runner\"\nversion = \"0.1.0\"\nedition = \"2024\"\n[dependencies]\n"
                "app = { path = \"../app\" }\npavex = { workspace = true }\ntokio = { version = \"1\", features = [\"full\"] }\n"
                "serde_json = \"1\"\n" + "".join("sdk_%s = { path = \"../sdk/%s\" }\n" % (m, m) for m in names))
    with open(os.path.join(d, "src", "main.rs"), "w") as f:
        f.write(_runner_main(names))
    root = os.path.join(ws.root, "Cargo.toml")
    s = open(root).read()
    if '"runner"' not in s:
        s = s.replace('members = ["app"', 'members = ["runner", "app"', 1)
        open(root, "w").write(s)


def run_servers(ws, script, timeout=1800):
    """script: {module: [{"method","path","host","script":[names that must fail / return early]}]}"""
    rc, out = ws.cargo(["build", "-q", "-p", "runner"], timeout=timeout)
    if rc != 0:
        raise RuntimeError("runner does not build: " + out[-3000:])
    exe = os.path.join(ws.target_dir, "debug", "runner")
    p = subprocess.run([exe], input=json.dumps(script), stdout=subprocess.PIPE, stderr=subprocess.PIPE, text=True,
                       timeout=timeout, env=tool_env(ws.home))
    if p.returncode != 0:
        raise RuntimeError("runner failed rc=%d: %s" % (p.returncode, p.stderr[-3000:]))
    return json.loads(p.stdout.strip().split("\n")[-1])
