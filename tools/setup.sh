#!/bin/bash
# MANIFEST.setup_cmd: builds the framework from files on disk only (offline).
set -e
cd "$(dirname "$0")/.."
export CARGO_NET_OFFLINE=true
(cd lean && lake build)
ln -sfn "${PXV_REPO:-/repo}" .repo
(cd harness && cargo build --workspace)
echo setup-ok
