#!/bin/bash
# MANIFEST.setup_cmd: builds the framework from files on disk only (offline).
set -e
cd "$(dirname "$0")/.."
export CARGO_NET_OFFLINE=true
ln -sfn "${PXV_REPO:-/repo}" .repo
(cd lean && lake build)
(cd harness && cargo build --workspace)
# what `pavexc generate` needs offline (std JSON docs + rustup shim), and the hooked compiler itself
bash tools/px_toolchain.sh
(cd harness && cargo build --manifest-path ../.repo/compiler/pavexc_cli/Cargo.toml --target-dir target-pavexc)
echo setup-ok
