#!/bin/bash
# MANIFEST.setup_cmd: builds the framework from files on disk only (offline).
set -e
cd "$(dirname "$0")/.."
export CARGO_NET_OFFLINE=true
(cd lean && lake build)
(cd harness && cargo build -p rt)
echo setup-ok
