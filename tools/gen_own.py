"""Application family for C01/C02: few, mostly cloneable types with many by-value consumers
(dense ownership contention: several consumers competing for several values).

Four applications in ten also carry a *ring*: k >= 2 values V_i, each taken by value by c_i and borrowed by b_i, where
b_{i+1} needs the output of c_i and b_1 needs the output of c_k: a cycle of "borrowers first, consumer last"
constraints that goes through dependency edges. No evaluation order exists unless one V_i is cloned, and only the
forward pass `ordering_stalemates` (repo 437e3c1) sees it; before that repair the compiler panicked ("stuck")."""
import zlib

import gen_app


def plan(tier):
    return 10 if tier == "quick" else 120


def _ctor(name, i, ins, cloning, life="request"):
    return {"i": i, "out": i, "life": life, "cloning": cloning, "ins": ins, "fallible": False, "async": False,
            "method": False, "fw": None, "override": None}


def add_ring(rng, spec, k, cloneable):
    """appends the ring to `spec` (types, constructors, one more route whose handler takes every b_i by value)."""
    name = spec["name"]
    n0 = len(spec["types"])
    V = [n0 + i for i in range(k)]                 # V_i
    C = [n0 + k + 2 * i for i in range(k)]         # output of c_i(V_i)
    B = [n0 + k + 2 * i + 1 for i in range(k)]     # output of b_i(&V_i, out(c_{i-1}))
    n1 = n0 + 3 * k
    for j in range(n0, n1):
        spec["types"].append({"i": j, "clone": False, "copy": False, "cap": None})
    ctors = {}
    for i in range(k):
        cl = cloneable[i]
        spec["types"][V[i]]["clone"] = cl
        ctors[V[i]] = _ctor(name, V[i], [], cl)
        ctors[C[i]] = _ctor(name, C[i], [[V[i], "val"]], False)
    for i in range(k):
        ctors[B[i]] = _ctor(name, B[i], [[V[i], "ref"], [C[(i - 1) % k], "val"]], False)
    # constructor i must only use types of a smaller index (the renderer and the life model rely on it for the acyclic
    # part; the ring is acyclic as a dependency graph: b_i depends on c_{i-1}): indices were laid out V*, then (c_i, b_i)
    # pairs, so b_0 needs c_{k-1}, a larger index. Nothing orders constructor definitions in Rust, so this is fine for
    # rendering; the spec is marked so that checks whose model assumes the index order skip it.
    for j in range(n0, n1):
        spec["ctors"].append(ctors[j])
    h = len(spec["handlers"])
    spec["handlers"].append({"i": h, "method": "GET", "path": "/%s/ring" % name, "full_path": "/%s/ring" % name,
                             "ins": [[b, "val"] for b in B], "fallible": False, "async": False, "fw": None})
    spec["bp"] = [["ctor", j] for j in range(n0, n1)] + spec["bp"] + [["route", h]]
    spec["ring"] = {"k": k, "cloneable": cloneable, "V": V, "C": C, "B": B}
    return spec


def add_cross(rng, spec, k, cloneable):
    """appends the shape of the doc comment of `complex_borrow_check`: k values V_i, d_i takes V_i by value and borrows
    V_{i+1}; the handler takes every d_i by value. d_i must come after d_{i-1} (which borrows V_i), all the way round:
    no evaluation order exists unless one V_i is cloned. Neither `multiple_consumers` (one consumer each) nor
    `move_while_borrowed` (the borrower is not a descendant of the consumer) sees it; `complex_borrow_check` does."""
    name = spec["name"]
    n0 = len(spec["types"])
    V = [n0 + i for i in range(k)]
    D = [n0 + k + i for i in range(k)]
    n1 = n0 + 2 * k
    for j in range(n0, n1):
        spec["types"].append({"i": j, "clone": False, "copy": False, "cap": None})
    ctors = {}
    for i in range(k):
        cl = cloneable[i]
        spec["types"][V[i]]["clone"] = cl
        ctors[V[i]] = _ctor(name, V[i], [], cl)
        ctors[D[i]] = _ctor(name, D[i], [[V[i], "val"], [V[(i + 1) % k], "ref"]], False)
    for j in range(n0, n1):
        spec["ctors"].append(ctors[j])
    h = len(spec["handlers"])
    spec["handlers"].append({"i": h, "method": "GET", "path": "/%s/cross" % name, "full_path": "/%s/cross" % name,
                             "ins": [[d, "val"] for d in D], "fallible": False, "async": False, "fw": None})
    spec["bp"] = [["ctor", j] for j in range(n0, n1)] + spec["bp"] + [["route", h]]
    spec["cross"] = {"k": k, "cloneable": cloneable, "V": V, "D": D}
    return spec


def make(rng, name):
    spec = gen_app.gen_spec(rng, name, "free", size=rng.randrange(3, 7), n_mws=rng.choice([0, 0, 1, 2]), own_stress=True)
    spec["klass"] = "own"
    # chosen without consuming the generator's random stream (the rest of the family stays what it was)
    z = zlib.crc32(("ring/%s" % name).encode())
    if z % 10 < 4:
        k = 2 + (z >> 4) % 2
        pat = (z >> 11) % 3
        cloneable = [True] * k if pat == 0 else ([False] * k if pat == 1 else [i == k - 1 for i in range(k)])
        add_ring(rng, spec, k, cloneable)
        # b_0 needs the output of c_{k-1}, a constructor with a larger index: outside what the life model (C03/C04) reads
        spec["klass"] = "ownring"
    elif z % 10 < 8:
        k = 2 + (z >> 4) % 2
        pat = (z >> 11) % 4
        cloneable = [True] * k if pat == 0 else ([False] * k if pat == 1 else ([i == k - 1 for i in range(k)] if pat == 2 else [i == 0 for i in range(k)]))
        add_cross(rng, spec, k, cloneable)
        spec["klass"] = "ownring"      # same treatment as the rings by the checks that read the family (verdict + compile + pass mirrors)
    return spec
