"""Application family for C01/C02: few, mostly cloneable types with many by-value consumers
(dense ownership contention: several consumers competing for several values)."""
import gen_app


def plan(tier):
    return 10 if tier == "quick" else 120


def make(rng, name):
    spec = gen_app.gen_spec(rng, name, "free", size=rng.randrange(3, 7), n_mws=rng.choice([0, 0, 1, 2]), own_stress=True)
    spec["klass"] = "own"
    return spec
