"""C08 — applications with exactly one documented rule violated (DESIGN.md 6.8).

`plan(tier)` lists the rule names to plant; `plant(rng, base_inclass_spec, rule)` turns an in-class
AppSpec of tools/gen_app.py into one that (1) is spread over a random tree of nested blueprints and
(2) breaks exactly `rule`, at a random place: the component that receives the offending input (the
*victim*) is a random handler / middleware / constructor of the application at any nesting level,
and the offending component sits at the end of a chain of 0-2 freshly added constructors (depth in
the dependency graph). `adb_of(spec)` derives the abstract component database the Lean model
(lean/Pxv/Model/Rules.lean) decides the rules on, from the same spec.

Everything a rule needs that gen_app cannot express natively (types that are not Send/Sync, a second
constructor for a type, error observers with inputs, method sets / ANY / non-standard methods,
`PathParams<T>`) is described abstractly under spec["x"] and rendered from there into
spec["extra_items"], so the Rust text and the abstract database have one source.

Rule "none" plants nothing (control: the nested in-class application must be accepted).
"""
import copy

# rule -> expected diagnostic kinds (as named by tools/checks/c08.py `classify`)
RULES = {
    "none": [],
    "missing": ["missing"],
    "missing_sibling": ["missing"],
    "missing_unregistered": ["missing"],      # an existing constructor of the application loses its registration
    "missing_shadowed": ["missing"],          # only visible from the route's scope (known finding)
    "cycle1": ["cycle"],
    "cycle2": ["cycle"],
    "cycle3": ["cycle"],
    "cycle_back_edge": ["cycle"],             # a constructor of the application takes a type that (transitively) needs it
    "cycle_shadowed": ["cycle"],              # only visible from the route's scope (known finding)
    "singleton_dep_request": ["singleton_dep"],
    "singleton_dep_transitive": ["singleton_dep"],
    "singleton_dep_shadowed": ["singleton_dep"],   # through a transient of an ancestor, whose request-scoped input is shadowed where the singleton lives
    "singleton_two_nests_same": ["singleton_once"],
    "singleton_two_nests_diff": ["singleton_multi"],
    "singleton_not_send": ["not_send"],
    "singleton_not_sync": ["not_sync"],
    "singleton_not_send_sync": ["not_send", "not_sync"],
    "singleton_by_value": ["singleton_by_value"],
    "singleton_by_value_generic": ["singleton_by_value"],   # the by-value consumer is a generic constructor pavexc instantiates
    "mut_singleton": ["mut_singleton"],
    "mut_transient": ["mut_transient"],
    "mut_cloneable_request": ["mut_cloneable"],
    "mut_on_ctor": ["mut_input"],
    "mut_on_wrap": ["mut_input"],
    "clone_not_clone": ["clone_not_clone"],
    "clone_not_clone_fallible": ["clone_not_clone"],   # the offending constructor returns a Result
    "observer_fallible_direct": ["observer_fallible"],
    "observer_fallible_transitive": ["observer_fallible"],
    "route_same": ["route_method_conflict"],
    "route_overlap_sets": ["route_method_conflict"],
    "route_any_vs_specific": ["route_method_conflict"],
    "route_custom_same": ["route_method_conflict"],
    "route_any_vs_custom": ["route_method_conflict"],
    # two catch-all-method routes (`allow(any_method, non_standard_methods)` = MethodGuard::Any) on one path and NO
    # method-specific route there: no guard names a method (seeded change C08-5 only examined named methods)
    "route_any_vs_any": ["route_method_conflict"],
    "route_param_names": ["route_path_conflict"],
    "route_specificity": ["route_path_conflict"],   # known finding: accepted (matchit priority)
    "path_param_field": ["path_param"],
    "path_param_nested": ["path_param"],
    "path_param_second": ["path_param"],
    # the offending struct is ALSO used, correctly, by a route that is examined earlier (seeded change C08-4 cached the
    # struct's fields per type and forgot the ones the first route had matched)
    "path_param_shared": ["path_param"],
}


def plan(tier):
    rules = [r for r in RULES if r != "none"]
    if tier == "quick":
        return ["none", "none"] + rules
    return ["none"] * 6 + rules * 10


# ---- scope tree -----------------------------------------------------------------------------------

class Tree:
    """Blueprint ops per scope; scope 0 is the root blueprint. Finalised into gen_app's nested op list."""

    def __init__(self):
        self.parent = [0]
        self.prefix = [None]
        self.ops = [[]]

    def new_scope(self, rng, parent, prefix=None, at=None):
        s = len(self.parent)
        self.parent.append(parent)
        self.prefix.append(prefix)
        self.ops.append([])
        lst = self.ops[parent]
        lst.insert(len(lst) if at is None else at, ["child", s])
        return s

    def anc(self, s):
        out = [s]
        while s != 0:
            s = self.parent[s]
            out.append(s)
        return out

    def lca(self, scopes):
        scopes = list(scopes)
        common = self.anc(scopes[0])
        for s in scopes[1:]:
            a = set(self.anc(s))
            common = [x for x in common if x in a]
        return common[0]

    def full_prefix(self, s):
        return "".join(self.prefix[a] or "" for a in reversed(self.anc(s)))

    def add(self, rng, s, op, front=False):
        """registers `op` in scope s: constructors go to the front, anything else to a random later place."""
        lst = self.ops[s]
        if front:
            lst.insert(0, op)
        else:
            lst.insert(rng.randrange(len(lst) + 1), op)

    def build(self, s=0):
        """structured form (kept as spec["tree"], walked by adb_of)."""
        out = []
        for op in self.ops[s]:
            if op[0] == "child":
                nb = {"ops": self.build(op[1]), "scope": op[1]}
                if self.prefix[op[1]]:
                    nb["prefix"] = self.prefix[op[1]]
                out.append(["nest", nb])
            else:
                out.append(op)
        return out

    def flatten(self, U, s=0):
        """the same registrations as gen_app "raw" ops with one variable per blueprint (gen_app's own
        ["nest", ..] op shadows its variable and only works one level deep)."""
        var = "bp" if s == 0 else "n%d" % s
        out = []
        for op in self.ops[s]:
            k = op[0]
            if k == "child":
                c = op[1]
                out.append(["raw", "let mut n%d = Blueprint::new();" % c])
                out += self.flatten(U, c)
                if self.prefix[c]:
                    out.append(["raw", "%s.prefix(\"%s\").nest(n%d);" % (var, self.prefix[c], c)])
                else:
                    out.append(["raw", "%s.nest(n%d);" % (var, c)])
            elif k == "ctor":
                out.append(["raw", "%s.constructor(%s_C%d);" % (var, U, op[1])])
            elif k in ("wrap", "pre", "post"):
                out.append(["raw", "%s.%s(%s_M%d);" % (var, {"wrap": "wrap", "pre": "pre_process", "post": "post_process"}[k], U, op[1])])
            elif k == "route":
                out.append(["raw", "%s.route(%s_H%d);" % (var, U, op[1])])
            elif k == "observer":
                out.append(["raw", "%s.error_observer(%s_O%d);" % (var, U, op[1])])
            elif k == "eh":
                out.append(["raw", "%s.error_handler(%s_EH%s%d);" % (var, U, op[1].upper(), op[2])])
            elif k == "raw":
                out.append(["raw", op[1].replace("{bp}", var).replace("__MODU__", U)])
            else:
                raise ValueError(k)
        return out


def nestify(rng, spec):
    """Spreads an in-class application over a random tree of nested blueprints, keeping every constructor
    visible to all its consumers (registered in a common ancestor scope) and registered once."""
    t = Tree()
    k = rng.choice([0, 1, 1, 2, 2, 3, 3, 4])
    chainy = rng.random() < 0.4
    for s in range(1, k + 1):
        par = s - 1 if chainy else rng.randrange(0, s)
        t.new_scope(rng, par, prefix=("/s%d" % s) if rng.random() < 0.35 else None)
    place = {}
    uses = {j: [] for j in range(len(spec["ctors"]))}
    for h in spec["handlers"]:
        place[("h", h["i"])] = rng.randrange(k + 1)
    hs = [place[("h", h["i"])] for h in spec["handlers"]]
    for m in spec["mws"]:
        place[("m", m["i"])] = rng.choice(t.anc(rng.choice(hs)))
    for o in spec["observers"]:
        place[("o", o["i"])] = 0
    for tag, lst in (("h", spec["handlers"]), ("m", spec["mws"])):
        for c in lst:
            for j, _ in c["ins"]:
                uses[j].append(place[(tag, c["i"])])
    for c in reversed(spec["ctors"]):
        i = c["i"]
        s = rng.choice(t.anc(t.lca(uses[i]))) if uses[i] else rng.randrange(k + 1)
        place[("c", i)] = s
        for j, _ in c["ins"]:
            uses[j].append(s)
    # ops: error handlers and observers at the root, constructors first in their scope
    for c in spec["ctors"]:
        if c["fallible"]:
            t.ops[0].insert(0, ["eh", "c", c["i"]])
    for h in spec["handlers"]:
        if h["fallible"]:
            t.ops[0].insert(0, ["eh", "h", h["i"]])
    for m in spec["mws"]:
        if m["fallible"]:
            t.ops[0].insert(0, ["eh", "m", m["i"]])
    for o in spec["observers"]:
        t.ops[0].insert(0, ["observer", o["i"]])
    for h in spec["handlers"]:
        t.add(rng, place[("h", h["i"])], ["route", h["i"]])
    for m in spec["mws"]:
        t.ops[place[("m", m["i"])]].insert(0, [m["kind"], m["i"]])
    for c in reversed(spec["ctors"]):
        t.ops[place[("c", c["i"])]].insert(0, ["ctor", c["i"]])
    return t, place


# ---- helpers to extend a spec ---------------------------------------------------------------------

def new_type(spec, clone=False, copy_=False):
    i = len(spec["types"])
    spec["types"].append({"i": i, "clone": clone or copy_, "copy": copy_, "cap": None})
    return i


def new_ctor(spec, life, ins, cloning=False, fallible=False, clone=False, copy_=False):
    """a fresh native type together with its constructor (type i <-> constructor i)."""
    i = new_type(spec, clone, copy_)
    assert i == len(spec["ctors"])
    spec["ctors"].append({"i": i, "out": i, "life": life, "cloning": cloning, "ins": [list(x) for x in ins],
                          "fallible": fallible, "async": False})
    return i


def used_ctors(spec):
    seen, todo = set(), [j for c in spec["handlers"] + spec["mws"] for j, _ in c["ins"]]
    while todo:
        j = todo.pop()
        if j in seen:
            continue
        seen.add(j)
        todo += [x for x, _ in spec["ctors"][j]["ins"]]
    return seen


def victims(spec, place, kinds):
    """candidate components that can receive one more input: (tag, index, scope, life-or-None)."""
    out = []
    if "h" in kinds:
        out += [("h", h["i"], place[("h", h["i"])], None) for h in spec["handlers"]]
    for m in spec["mws"]:
        if m["kind"] in kinds:
            out.append(("m", m["i"], place[("m", m["i"])], None))
    if "c" in kinds or "cs" in kinds:
        u = used_ctors(spec)
        for c in spec["ctors"]:
            if c["i"] in u and ("cs" in kinds or c["life"] != "singleton"):
                out.append(("c", c["i"], place[("c", c["i"])], c["life"]))
    return out


def comp_of(spec, v):
    return {"h": spec["handlers"], "m": spec["mws"], "c": spec["ctors"]}[v[0]][v[1]]


def chain_to(rng, spec, t, place, v, depth, singleton_ok=True):
    """adds `depth` fresh constructors between the victim and the place where the rule is broken:
    victim(&A0), A0(&A1), ..., returns (consumer component, scope whose ancestors are visible to it, life of it)."""
    cons, scope, life = comp_of(spec, v), v[2], v[3]
    for _ in range(depth):
        if life == "singleton":
            l2 = "singleton"
        else:
            l2 = rng.choice(["request", "transient", "request"])
        a = new_ctor(spec, l2, [])
        s = rng.choice(t.anc(scope))
        place[("c", a)] = s
        t.ops[s].insert(0, ["ctor", a])
        cons["ins"].append([a, "ref"])
        cons, scope, life = spec["ctors"][a], s, l2
    return cons, scope, life


# ---- extras (rendered by this module) -----------------------------------------------------------

def _x(spec):
    return spec.setdefault("x", {"types": [], "comps": [], "import_pavex": False})


def tyname(ref):
    return "T%d" % ref if isinstance(ref, int) else ref


def _xparam(k, ref, mode):
    t = tyname(ref)
    return "a%d: %s%s" % (k, {"val": "", "ref": "&", "mut": "&mut "}[mode], t)


def render_extras(spec):
    """fills spec["extra_items"] from spec["x"]."""
    x = spec.get("x")
    if not x:
        return
    items = ["#[allow(unused_imports)] use pavex::request::path::PathParams;"]
    for ty in x["types"]:
        n = ty["name"]
        if ty.get("noemit"):
            continue   # an instantiation of a generic type: known to the abstract database only
        if ty.get("fields") is not None:
            items.append("#[PathParams] pub struct %s { %s }" % (n, ", ".join("pub %s: u32" % f for f in ty["fields"])))
            continue
        marker = {(True, True): None, (False, False): "*const ()", (True, False): "std::cell::Cell<()>",
                  (False, True): "std::sync::MutexGuard<'static, ()>"}[(ty["send"], ty["sync"])]
        der = "#[derive(Clone)] " if ty["clone"] else ""
        if marker:
            items.append("%spub struct %s { pub id: u64, pub p: std::marker::PhantomData<%s> }" % (der, n, marker))
        else:
            items.append("%spub struct %s { pub id: u64 }" % (der, n))
    items += list(x.get("raw", []))
    for c in x["comps"]:
        n = c["name"]
        if c.get("rust"):
            items.append(c["rust"])   # rendered by the rule itself (generic constructors); `ins`/`out` describe the instantiation
            continue
        params = ", ".join(_xparam(k, r, m) for k, (r, m) in enumerate(c["ins"]))
        if c["kind"] == "ctor":
            life = {"request": "request_scoped", "singleton": "singleton", "transient": "transient"}[c["life"]]
            args = ["id = \"__MODU___%s\"" % n.upper()] + (["clone_if_necessary"] if c["cloning"] else [])
            out = tyname(c["out"])
            xt = [t for t in x["types"] if t["name"] == out]
            build = "%s { id: 0, p: std::marker::PhantomData }" % out if xt and not (xt[0]["send"] and xt[0]["sync"]) else "%s { id: 0 }" % out
            items.append("#[pavex::%s(%s)]\npub fn %s(%s) -> %s { %s }" % (life, ", ".join(args), n, params, out, build))
        elif c["kind"] == "handler":
            if c["methods"] == "any":
                meth = "allow(any_method)"
            elif c["methods"] == "any+":
                meth = "allow(any_method, non_standard_methods)"
            else:
                std = ["CONNECT", "GET", "POST", "PUT", "DELETE", "PATCH", "HEAD", "OPTIONS", "TRACE"]
                ms = c["methods"]
                meth = "method = %s" % ("\"%s\"" % ms[0] if len(ms) == 1 else "[%s]" % ", ".join("\"%s\"" % m for m in ms))
                if any(m not in std for m in ms):
                    meth += ", allow(non_standard_methods)"
            items.append("#[pavex::route(%s, path = \"%s\", id = \"__MODU___%s\")]\npub fn %s(%s) -> Response { Response::ok() }" % (
                meth, c["path"], n.upper(), n, params))
        elif c["kind"] == "observer":
            items.append("#[pavex::error_observer(id = \"__MODU___%s\")]\npub fn %s(e: &pavex::Error%s) { }" % (
                n.upper(), n, (", " + params) if params else ""))
        else:
            raise ValueError(c["kind"])
    spec["extra_items"] = items


def xtype(spec, clone=False, send=True, sync=True, fields=None):
    x = _x(spec)
    n = "X%d" % len(x["types"])
    x["types"].append({"name": n, "clone": clone, "copy": False, "send": send, "sync": sync, "fields": fields})
    return n


def xcomp(spec, kind, **kw):
    x = _x(spec)
    n = "x%s%d" % ({"ctor": "c", "handler": "h", "observer": "o"}[kind], len(x["comps"]))
    c = {"name": n, "kind": kind, "ins": [], "life": "request", "cloning": False, "fallible": False}
    c.update(kw)
    x["comps"].append(c)
    return c


def xreg(c):
    call = {"ctor": "constructor", "handler": "route", "observer": "error_observer"}[c["kind"]]
    return ["raw", "{bp}.%s(__MODU___%s);" % (call, c["name"].upper()), {"x": c["name"]}]


# ---- the rules ------------------------------------------------------------------------------------

def plant(rng, base, rule):
    spec = copy.deepcopy(base)
    spec["usage"] = {}
    for c in spec["ctors"]:
        c["override"] = None   # this family renders its registrations itself (`Tree.flatten`): no blueprint-level overrides
    t, place = nestify(rng, spec)
    M = spec["name"]
    info = {"rule": rule, "expect": RULES[rule]}
    ok = _plant(rng, spec, t, place, rule, info, M)
    if ok is False:
        fb = {"cycle_back_edge": "cycle2", "missing_unregistered": "missing", "clone_not_clone_fallible": "clone_not_clone"}.get(rule)
        if fb is None:
            return None
        info["fallback"] = fb   # the application has no place for this variant: plant the plain one
        if _plant(rng, spec, t, place, fb, info, M) is False:
            return None
    spec["tree"] = t.build()
    spec["bp"] = t.flatten(spec["name"].upper())
    spec["planted"] = info
    spec["scopes"] = {"parent": t.parent, "prefix": t.prefix}
    render_extras(spec)
    return spec


def _fresh_scope_not_visible_from(rng, t, scope):
    """a new nested blueprint that `scope` cannot see: child of a random ancestor-or-self of `scope`."""
    return t.new_scope(rng, rng.choice(t.anc(scope)))


def _plant(rng, spec, t, place, rule, info, M):
    depth = rng.choice([0, 0, 1, 1, 2])
    info["depth"] = depth
    if rule == "none":
        return True

    if rule in ("missing", "missing_sibling"):
        v = rng.choice(victims(spec, place, ["h", "pre", "post", "wrap", "cs"]))
        cons, scope, life = chain_to(rng, spec, t, place, v, depth)
        a = new_ctor(spec, "singleton" if life == "singleton" else rng.choice(["request", "transient", "singleton"]), [])
        cons["ins"].append([a, "ref"])
        if rule == "missing_sibling":
            s = _fresh_scope_not_visible_from(rng, t, scope)
            t.ops[s].insert(0, ["ctor", a])
            place[("c", a)] = s
        info["victim"] = list(v[:3])
        return True

    if rule == "missing_unregistered":
        u = used_ctors(spec)
        cand = [c for c in spec["ctors"] if c["i"] in u and not c["fallible"]]
        if not cand:
            return False
        c = rng.choice(cand)
        s = place[("c", c["i"])]
        t.ops[s] = [op for op in t.ops[s] if op != ["ctor", c["i"]]]
        info["victim"] = ["c", c["i"], s]
        info["depth"] = 0
        return True

    if rule == "cycle_back_edge":
        # constructors i -> ... -> j (i needs j) registered against the same blueprint: let j take &T_i
        def needs(i):
            seen, todo = set(), [x for x, _ in spec["ctors"][i]["ins"]]
            while todo:
                j = todo.pop()
                if j not in seen:
                    seen.add(j)
                    todo += [x for x, _ in spec["ctors"][j]["ins"]]
            return seen
        u = used_ctors(spec)
        pairs = [(i, j) for i in u for j in needs(i)
                 if place[("c", i)] == place[("c", j)] and spec["ctors"][i]["life"] != "singleton" and spec["ctors"][j]["life"] != "singleton"]
        if not pairs:
            return False
        i, j = rng.choice(pairs)
        spec["ctors"][j]["ins"].append([i, "ref"])
        info["victim"] = ["c", j, place[("c", j)]]
        info["depth"] = 0
        return True

    if rule in ("missing_shadowed", "cycle_shadowed"):
        # route in a nested blueprint N; constructor A(&B) registered in an ancestor P of N; B has a good
        # constructor in P's chain and a second one in N that (missing:) needs an unregistered type /
        # (cycle:) needs A. Analyses resolve A's input from P (fine), the call graph from N (broken).
        hs = [h for h in spec["handlers"]]
        h = rng.choice(hs)
        n_scope = t.new_scope(rng, place[("h", h["i"])])
        p_scope = rng.choice(t.anc(place[("h", h["i"])]))
        b = new_ctor(spec, "request", [])
        a = new_ctor(spec, "request", [[b, "ref"]])
        for z in (a, b):
            t.ops[p_scope].insert(0, ["ctor", z])
            place[("c", z)] = p_scope
        bad_in = new_ctor(spec, "request", []) if rule == "missing_shadowed" else a
        xb = xcomp(spec, "ctor", out=b, life="request", ins=[[bad_in, "ref"]])
        xb["scope_hint"] = n_scope
        t.ops[n_scope].insert(0, xreg(xb))
        hx = xcomp(spec, "handler", methods=["GET"], path="/%s/shadow" % M, ins=[[a, "ref"]])
        t.ops[n_scope].append(xreg(hx))
        info["victim"] = ["x", hx["name"], n_scope]
        return True

    if rule in ("cycle1", "cycle2", "cycle3"):
        v = rng.choice(victims(spec, place, ["h", "pre", "post", "wrap", "c"]))
        cons, scope, life = chain_to(rng, spec, t, place, v, depth)
        k = {"cycle1": 1, "cycle2": 2, "cycle3": rng.choice([3, 3, 4, 5])}[rule]
        s = rng.choice(t.anc(scope))
        first = len(spec["types"])
        ring = []
        for q in range(k):
            nxt = first + (q + 1) % k
            ring.append(new_ctor(spec, rng.choice(["request", "transient"]), [[nxt, "ref"]]))
        for z in ring:
            t.ops[s].insert(0, ["ctor", z])
            place[("c", z)] = s
        cons["ins"].append([rng.choice(ring), "ref"])
        info["victim"] = list(v[:3])
        info["ring"] = ring
        return True

    if rule == "singleton_dep_shadowed":
        # ancestor blueprint: R request-scoped, transient T(&R); nested blueprint: its own transient constructor for R and
        # the singleton S(T). T is resolved where T was registered, so S still reaches the request-scoped R.
        base = rng.randrange(len(t.parent))
        rs = rng.choice(t.anc(base))
        s2 = t.new_scope(rng, base)
        r = new_ctor(spec, "request", [])
        tr = new_ctor(spec, "transient", [[r, "ref"]])
        sg = new_ctor(spec, "singleton", [[tr, rng.choice(["ref", "val"])]])
        for c, sc in ((tr, rs), (r, rs), (sg, s2)):
            t.ops[sc].insert(0, ["ctor", c])
            place[("c", c)] = sc
        xc = xcomp(spec, "ctor", out=r, life="transient", ins=[])
        t.ops[s2].insert(0, xreg(xc))
        if rng.random() < 0.7:
            hx = xcomp(spec, "handler", methods=["GET"], path="/%s/shadow" % M, ins=[[sg, "ref"]])
            t.ops[s2].append(xreg(hx))
        info["victim"] = None
        return True

    if rule in ("singleton_dep_request", "singleton_dep_transitive"):
        v = rng.choice(victims(spec, place, ["h", "pre", "post", "wrap", "cs"]))
        cons, scope, life = chain_to(rng, spec, t, place, v, depth)
        s = rng.choice(t.anc(scope))
        r = new_ctor(spec, "request", [])
        rs = rng.choice(t.anc(s))
        last = r
        if rule == "singleton_dep_transitive":
            for _ in range(rng.choice([1, 1, 2])):
                last = new_ctor(spec, "transient", [[last, "ref"]])
                t.ops[rs].insert(0, ["ctor", last])
                place[("c", last)] = rs
        sg = new_ctor(spec, "singleton", [[last, rng.choice(["ref", "val"]) if last != r else "ref"]])
        t.ops[s].insert(0, ["ctor", sg])
        place[("c", sg)] = s
        t.ops[rs].insert(0, ["ctor", r])
        place[("c", r)] = rs
        cons["ins"].append([sg, "ref"])
        info["victim"] = list(v[:3])
        return True

    if rule in ("singleton_two_nests_same", "singleton_two_nests_diff"):
        # a singleton used by a component of the app, registered a second time in another nested blueprint
        v = rng.choice(victims(spec, place, ["h", "pre", "post", "wrap", "cs"]))
        cons, scope, life = chain_to(rng, spec, t, place, v, depth)
        sg = new_ctor(spec, "singleton", [])
        mode = rng.choice(["siblings", "parent_child", "child_of_consumer"])
        if mode == "siblings" and scope != 0:
            s1 = scope
            s2 = t.new_scope(rng, t.parent[scope])
        elif mode == "parent_child":
            s1 = rng.choice(t.anc(scope))
            s2 = t.new_scope(rng, s1)
        else:
            s1 = rng.choice(t.anc(scope))
            s2 = t.new_scope(rng, rng.choice(t.anc(scope)))
        t.ops[s1].insert(0, ["ctor", sg])
        place[("c", sg)] = s1
        if rule == "singleton_two_nests_same":
            t.ops[s2].insert(0, ["ctor", sg])
        else:
            xc = xcomp(spec, "ctor", out=sg, life="singleton", ins=[])
            t.ops[s2].insert(0, xreg(xc))
        # somebody uses it in the second blueprint too
        hx = xcomp(spec, "handler", methods=["GET"], path="/%s/second" % M, ins=[[sg, "ref"]])
        t.ops[s2].append(xreg(hx))
        cons["ins"].append([sg, "ref"])
        info["victim"] = list(v[:3])
        info["mode"] = mode
        return True

    if rule in ("singleton_not_send", "singleton_not_sync", "singleton_not_send_sync"):
        send, sync = {"singleton_not_send": (False, True), "singleton_not_sync": (True, False),
                      "singleton_not_send_sync": (False, False)}[rule]
        s = rng.randrange(len(t.parent))
        names = [xtype(spec) for _ in range(depth)] + [xtype(spec, send=send, sync=sync)]
        hx = xcomp(spec, "handler", methods=["GET"], path="/%s/ns" % M, ins=[[names[0], "ref"]])
        t.add(rng, s, xreg(hx))
        cur = s
        for q, nm in enumerate(names):
            cur = rng.choice(t.anc(cur))
            if q == len(names) - 1:
                cc = xcomp(spec, "ctor", out=nm, life="singleton", ins=[])
            else:
                cc = xcomp(spec, "ctor", out=nm, life=rng.choice(["request", "transient"]), ins=[[names[q + 1], "ref"]])
            t.ops[cur].insert(0, xreg(cc))
        info["victim"] = ["x", hx["name"], s]
        info["send_sync"] = [send, sync]
        return True

    if rule == "singleton_by_value_generic":
        # never-clone singleton P (the type itself is Clone, so only the policy stands in the way), a generic constructor
        # `wrap<T>(inner: T) -> XG<T>` and a handler asking for `&XG<P>`: the instantiated constructor moves P
        x = _x(spec)
        k = len(x["comps"])
        sg = new_ctor(spec, "singleton", [], clone=True)
        inst = "XG%d<T%d>" % (k, sg)
        x["types"].append({"name": inst, "clone": False, "copy": False, "send": True, "sync": True, "fields": None, "noemit": True})
        x.setdefault("raw", []).append("pub struct XG%d<T> { pub id: u64, pub inner: T }" % k)
        base = rng.randrange(len(t.parent))
        s_sg, s_gen = rng.choice(t.anc(base)), rng.choice(t.anc(base))
        gc = xcomp(spec, "ctor", out=inst, life=rng.choice(["request", "transient"]), ins=[[sg, "val"]])
        gc["rust"] = ("#[pavex::%s(id = \"__MODU___%s\")]\npub fn %s<T>(a0: T) -> XG%d<T> { XG%d { id: 0, inner: a0 } }"
                      % ({"request": "request_scoped", "transient": "transient"}[gc["life"]], gc["name"].upper(), gc["name"], k, k))
        t.ops[s_sg].insert(0, ["ctor", sg])
        place[("c", sg)] = s_sg
        t.ops[s_gen].insert(0, xreg(gc))
        hx = xcomp(spec, "handler", methods=["GET"], path="/%s/generic" % M, ins=[[inst, "ref"]])
        t.ops[base].append(xreg(hx))
        info["victim"] = None
        return True

    if rule == "singleton_by_value":
        v = rng.choice(victims(spec, place, ["h", "pre", "post", "wrap", "c"]))
        cons, scope, life = chain_to(rng, spec, t, place, v, depth)
        sg = new_ctor(spec, "singleton", [], clone=rng.random() < 0.5)
        s = rng.choice(t.anc(scope))
        t.ops[s].insert(0, ["ctor", sg])
        place[("c", sg)] = s
        cons["ins"].append([sg, "val"])
        info["victim"] = list(v[:3])
        return True

    if rule in ("mut_singleton", "mut_transient", "mut_cloneable_request"):
        v = rng.choice(victims(spec, place, ["h", "pre", "post"]))
        cons, scope = comp_of(spec, v), v[2]
        if rule == "mut_singleton":
            a = new_ctor(spec, "singleton", [])
        elif rule == "mut_transient":
            a = new_ctor(spec, "transient", [])
        else:
            a = new_ctor(spec, "request", [], cloning=True, clone=True)
        s = rng.choice(t.anc(scope))
        t.ops[s].insert(0, ["ctor", a])
        place[("c", a)] = s
        cons["ins"].append([a, "mut"])
        info["victim"] = list(v[:3])
        info["depth"] = 0
        return True

    if rule in ("mut_on_ctor", "mut_on_wrap"):
        cand = victims(spec, place, ["cs"] if rule == "mut_on_ctor" else ["wrap"])
        if rule == "mut_on_ctor":
            v = rng.choice(victims(spec, place, ["h", "pre", "post", "wrap", "cs"]))
            if v[0] == "c" and rng.random() < 0.6:
                cons, scope, life = comp_of(spec, v), v[2], v[3]
                info["depth"] = 0
            else:
                info["depth"] = max(depth, 1)
                cons, scope, life = chain_to(rng, spec, t, place, v, max(depth, 1))
        else:
            if not cand:
                m = {"i": len(spec["mws"]), "kind": "wrap", "ins": [], "fallible": False}
                spec["mws"].append(m)
                place[("m", m["i"])] = 0
                t.ops[0].insert(0, ["wrap", m["i"]])
                cand = [("m", m["i"], 0, None)]
            v = rng.choice(cand)
            cons, scope, life = comp_of(spec, v), v[2], None
        a = new_ctor(spec, "singleton" if life == "singleton" else "request", [])
        s = rng.choice(t.anc(scope))
        t.ops[s].insert(0, ["ctor", a])
        place[("c", a)] = s
        cons["ins"].append([a, "mut"])
        info["victim"] = list(v[:3])
        return True

    if rule in ("clone_not_clone", "clone_not_clone_fallible"):
        v = rng.choice(victims(spec, place, ["h", "pre", "post", "wrap", "cs"]))
        cons, scope, life = chain_to(rng, spec, t, place, v, depth)
        fal = rule.endswith("_fallible")
        if fal and life == "singleton":
            return False
        a = new_ctor(spec, "singleton" if life == "singleton" else rng.choice(["request", "transient"] + ([] if fal else ["singleton"])), [],
                     cloning=True, clone=False, fallible=fal)
        s = rng.choice(t.anc(scope))
        t.ops[s].insert(0, ["ctor", a])
        place[("c", a)] = s
        cons["ins"].append([a, "ref"])
        info["victim"] = list(v[:3])
        return True

    if rule in ("observer_fallible_direct", "observer_fallible_transitive"):
        so = rng.randrange(len(t.parent))
        steps = 0 if rule.endswith("direct") else rng.choice([1, 1, 2])
        f = new_ctor(spec, rng.choice(["request", "transient"]), [], fallible=True)
        last = f
        chain = [f]
        for _ in range(steps):
            last = new_ctor(spec, rng.choice(["request", "transient"]), [[last, "ref"]])
            chain.append(last)
        s = so
        for z in reversed(chain):
            s = rng.choice(t.anc(s))
            t.ops[s].insert(0, ["ctor", z])
            place[("c", z)] = s
        t.ops[0].insert(0, ["eh", "c", f])
        ob = xcomp(spec, "observer", ins=[[last, "ref"]])
        t.ops[so].insert(0, xreg(ob))
        # the observed type is also used by a route of that blueprint
        hx = xcomp(spec, "handler", methods=["GET"], path="/%s/obs" % M, ins=[[last, "ref"]])
        t.ops[so].append(xreg(hx))
        info["victim"] = ["x", ob["name"], so]
        info["depth"] = steps
        return True

    if rule.startswith("route_"):
        h = rng.choice(spec["handlers"])
        hs = place[("h", h["i"])]
        full = t.full_prefix(hs) + h["path"]
        # a scope whose prefix is a prefix of the victim's full path
        cands = [s for s in range(len(t.parent)) if full.startswith(t.full_prefix(s)) and len(full) > len(t.full_prefix(s))]
        s2 = rng.choice(cands)
        rel = full[len(t.full_prefix(s2)):]
        info["victim"] = ["h", h["i"], hs]
        info["depth"] = 0
        if rule == "route_same":
            hx = xcomp(spec, "handler", methods=[h["method"]], path=rel, ins=[])
        elif rule == "route_overlap_sets":
            other = rng.choice([m for m in ["GET", "POST", "PUT", "DELETE", "PATCH"] if m != h["method"]])
            ms = [h["method"], other]
            rng.shuffle(ms)
            hx = xcomp(spec, "handler", methods=ms, path=rel, ins=[])
        elif rule == "route_any_vs_specific":
            hx = xcomp(spec, "handler", methods=rng.choice(["any", "any+"]), path=rel, ins=[])
        elif rule in ("route_custom_same", "route_any_vs_custom"):
            rel2 = rel + "/q"
            h1 = xcomp(spec, "handler", methods=["QUERY"] if rng.random() < 0.6 or rule == "route_any_vs_custom" else ["QUERY", "GET"], path=rel2, ins=[])
            t.add(rng, s2, xreg(h1))
            hx = xcomp(spec, "handler", methods=["QUERY"] if rule == "route_custom_same" else "any+", path=rel2, ins=[])
        elif rule == "route_any_vs_any":
            rel2 = rel + "/w"
            h1 = xcomp(spec, "handler", methods="any+", path=rel2, ins=[])
            t.add(rng, s2, xreg(h1))
            hx = xcomp(spec, "handler", methods="any+", path=rel2, ins=[])
        elif rule == "route_param_names":
            h1 = xcomp(spec, "handler", methods=[h["method"]], path=rel + "/{a}", ins=[])
            t.add(rng, s2, xreg(h1))
            hx = xcomp(spec, "handler", methods=[rng.choice([h["method"], "DELETE"])], path=rel + "/{b}", ins=[])
        elif rule == "route_specificity":
            segs = rel.split("/")
            if len(segs) < 2 or not segs[-1]:
                return False
            if rng.random() < 0.5:
                segs[-1] = "{p}"
            else:
                segs[-1] = "{*rest}"
            hx = xcomp(spec, "handler", methods=[h["method"]], path="/".join(segs), ins=[])
        else:
            raise ValueError(rule)
        t.add(rng, s2, xreg(hx))
        return True

    if rule in ("path_param_field", "path_param_nested", "path_param_second", "path_param_shared"):
        _x(spec)["import_pavex"] = True
        t.ops[0].insert(0, ["raw", "{bp}.import(pavex::blueprint::from![pavex]);", {"import": "pavex"}])
        s = rng.randrange(len(t.parent))
        params = rng.choice([["a"], ["a", "b"], []])
        extra = rng.choice(["zz", "a_", "id"])
        if rule == "path_param_shared":
            fields = params + [extra]
            bad = xtype(spec, fields=fields)
        else:
            bad = xtype(spec, fields=params[:rng.randrange(len(params) + 1)] + [extra])
        path = "/%s/pp" % M + "".join("/{%s}" % p for p in params)
        pp_bad = "PathParams<%s>" % bad
        ins = []
        if rule == "path_param_shared":
            # a route of the root blueprint, registered first, whose template has every field of the struct
            hg = xcomp(spec, "handler", methods=["GET"], path="/%s/ppg" % M + "".join("/{%s}" % p for p in fields), ins=[[pp_bad, "ref"]])
            t.ops[0].insert(1, xreg(hg))
        if rule == "path_param_second":
            if not params:
                params = ["a"]
                path = "/%s/pp/{a}" % M
            good = xtype(spec, fields=params[:1])
            ins.append(["PathParams<%s>" % good, "ref"])
        if rule == "path_param_nested":
            nt = xtype(spec)
            cc = xcomp(spec, "ctor", out=nt, life=rng.choice(["request", "transient"]), ins=[[pp_bad, "ref"]])
            t.ops[rng.choice(t.anc(s))].insert(0, xreg(cc))
            ins.append([nt, "ref"])
        else:
            ins.append([pp_bad, "ref"])
        if rule == "path_param_second" and rng.random() < 0.5:
            ins.reverse()
        hx = xcomp(spec, "handler", methods=["GET"], path=path, ins=ins)
        t.add(rng, s, xreg(hx))
        info["victim"] = ["x", hx["name"], s]
        info["depth"] = 1 if rule == "path_param_nested" else 0
        return True

    raise ValueError("unknown rule " + rule)


# ---- abstract database for the Lean model -------------------------------------------------------

METHODS = ["GET", "POST", "PUT", "DELETE", "PATCH", "HEAD", "OPTIONS", "CONNECT", "TRACE"]


def parse_path(p):
    """segments of a route template: ["s", text] | ["p", name] | ["c", name] (catch-all)."""
    segs = []
    for part in p.split("/")[1:]:
        if part.startswith("{*") and part.endswith("}"):
            segs.append(["c", part[2:-1]])
        elif part.startswith("{") and part.endswith("}"):
            segs.append(["p", part[1:-1]])
        else:
            segs.append(["s", part])
    return segs


def adb_of(spec):
    """The abstract component database: scopes (parent links), types (trait flags), components with
    their registration scope, routes, PathParams uses. Type ids: native T_i -> i; extras after them."""
    x = spec.get("x") or {"types": [], "comps": []}
    nt = len(spec["types"])
    tyid = {}
    types = []
    for t in spec["types"]:
        tyid[t["i"]] = len(types)
        types.append({"name": "T%d" % t["i"], "clone": bool(t["clone"]), "copy": bool(t["copy"]), "send": True, "sync": True})
    pp_fields = {}
    for t in x["types"]:
        tyid[t["name"]] = len(types)
        types.append({"name": t["name"], "clone": bool(t["clone"]), "copy": False, "send": bool(t["send"]), "sync": bool(t["sync"])})
        if t.get("fields") is not None:
            pp_fields[t["name"]] = t["fields"]

    def tid(ref):
        if isinstance(ref, str) and ref.startswith("PathParams<"):
            inner = ref[len("PathParams<"):-1]
            key = "PP:" + inner
            if key not in tyid:
                tyid[key] = len(types)
                types.append({"name": ref, "clone": False, "copy": False, "send": True, "sync": True, "pp_of": inner})
            return tyid[key]
        return tyid[ref]

    xc = {c["name"]: c for c in x["comps"]}
    scopes = [0]
    comps, routes = [], []
    ehs = {}  # (tag, i) -> registered

    def ins_of(lst):
        return [[tid(r), m] for r, m in lst]

    def walk(ops, s, prefix):
        for op in ops:
            k = op[0]
            if k == "ctor":
                c = spec["ctors"][op[1]]
                comps.append({"kind": "ctor", "scope": s, "out": tid(c["i"]), "life": c["life"], "cloning": bool(c["cloning"]),
                              "ins": ins_of(c["ins"]), "fallible": bool(c["fallible"]), "fn": "c%d" % c["i"]})
            elif k in ("wrap", "pre", "post"):
                m = spec["mws"][op[1]]
                comps.append({"kind": k, "scope": s, "out": None, "life": "request", "cloning": False,
                              "ins": ins_of(m["ins"]), "fallible": bool(m["fallible"]), "fn": "m%d" % m["i"]})
            elif k == "route":
                h = spec["handlers"][op[1]]
                comps.append({"kind": "handler", "scope": s, "out": None, "life": "request", "cloning": False,
                              "ins": ins_of(h["ins"]), "fallible": bool(h["fallible"]), "fn": "h%d" % h["i"]})
                routes.append({"comp": len(comps) - 1, "path": parse_path(prefix + h["path"]), "raw": prefix + h["path"], "methods": [h["method"]], "any": False})
            elif k == "observer":
                comps.append({"kind": "observer", "scope": s, "out": None, "life": "request", "cloning": False,
                              "ins": [], "fallible": False, "fn": "o%d" % op[1]})
            elif k == "eh":
                ehs[(op[1], op[2])] = s
            elif k == "raw":
                meta = op[2] if len(op) > 2 else {}
                if "x" in meta:
                    c = xc[meta["x"]]
                    if c["kind"] == "ctor":
                        comps.append({"kind": "ctor", "scope": s, "out": tid(c["out"]), "life": c["life"], "cloning": bool(c["cloning"]),
                                      "ins": ins_of(c["ins"]), "fallible": False, "fn": c["name"]})
                    elif c["kind"] == "handler":
                        comps.append({"kind": "handler", "scope": s, "out": None, "life": "request", "cloning": False,
                                      "ins": ins_of(c["ins"]), "fallible": False, "fn": c["name"]})
                        anym = c["methods"] in ("any", "any+")
                        routes.append({"comp": len(comps) - 1, "path": parse_path(prefix + c["path"]), "raw": prefix + c["path"],
                                       "methods": list(METHODS) if c["methods"] == "any" else ([] if anym else list(c["methods"])),
                                       "any": c["methods"] == "any+"})
                    elif c["kind"] == "observer":
                        comps.append({"kind": "observer", "scope": s, "out": None, "life": "request", "cloning": False,
                                      "ins": ins_of(c["ins"]), "fallible": False, "fn": c["name"]})
            elif k == "nest":
                scopes.append(s)
                walk(op[1]["ops"], len(scopes) - 1, prefix + (op[1].get("prefix") or ""))

    walk(spec["tree"], 0, "")
    # framework-provided constructors used by the planted rules: PathParams<T> (request-scoped, fallible)
    for t in list(types):
        if "pp_of" in t:
            comps.append({"kind": "ctor", "scope": 0, "out": tyid["PP:" + t["pp_of"]], "life": "request", "cloning": False,
                          "ins": [], "fallible": True, "fn": "PathParams::extract", "framework": True})
    pparams = [{"ty": tyid["PP:" + t["pp_of"]], "fields": pp_fields[t["pp_of"]]} for t in types if "pp_of" in t]
    for t in types:
        t.pop("pp_of", None)
    return {"scopes": scopes, "types": types, "comps": comps, "routes": routes, "pparams": pparams}


def wire(adb):
    """the database with every name interned to a number (what the Lean driver reads)."""
    names = {}

    def intern(x):
        return names.setdefault(x, len(names))

    fns = {}
    meth = {m: k for k, m in enumerate(METHODS)}

    def mid(m):
        return meth.setdefault(m, len(meth))

    return {
        "scopes": adb["scopes"],
        "types": [{k: t[k] for k in ("clone", "copy", "send", "sync")} for t in adb["types"]],
        "comps": [{"kind": c["kind"], "scope": c["scope"], "out": c["out"] if c["out"] is not None else 0, "life": c["life"],
                   "cloning": c["cloning"], "ins": c["ins"], "fallible": c["fallible"], "fn": fns.setdefault(c["fn"], len(fns))}
                  for c in adb["comps"]],
        "routes": [{"comp": r["comp"], "path": [[k, intern(v)] for k, v in r["path"]], "methods": [mid(m) for m in r["methods"]],
                    "any": r["any"]} for r in adb["routes"]],
        "pparams": [{"ty": p["ty"], "fields": [intern(f) for f in p["fields"]]} for p in adb["pparams"]],
    }


if __name__ == "__main__":
    import json
    import random
    import sys
    import gen_app
    seed = int(sys.argv[1]) if len(sys.argv) > 1 else 1
    rule = sys.argv[2] if len(sys.argv) > 2 else "missing"
    rng = random.Random(seed)
    base = gen_app.gen_spec(rng, "p0", "inclass")
    s = plant(rng, base, rule)
    print(gen_app.render(s))
    print(json.dumps(s["planted"]))
    print(json.dumps(adb_of(s)))
