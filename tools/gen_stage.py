"""Application family for C01/C04: the cross-middleware cloning analysis (pipeline.rs step 4, `type2cloning_indexes`).

One or two request-scoped types and a single pipeline stage: two to five pre-/post-processing middlewares and the
handler, each of which takes each type by value, by reference or not at all. Every pattern of moves and borrows along
the stage is reachable (move, borrow, move, borrow: the last move needs a clone only because of the trailing borrow).
Mostly clone-if-necessary types (accepted, the SDK must compile), sometimes never-clone ones (rejected when a clone
would be needed). The analysis is mirrored by `Pxv.Scope.stageCloning`; the hooked compiler dumps its inputs and its
result for every stage (ev = stage4), compared by tools/checks/c04.py."""


def plan(tier):
    return 17 if tier == "quick" else 150


# access patterns of the first type along the stage (m = by value, b = by reference, - = not at all), tried first
PRIORITY = ["mbmb", "mbm", "mmb", "bmbm", "mbbm", "mmbb", "mbmbm", "bmmb", "mmm", "mb-mb", "m-bm", "mbmmb",
            # x = `&mut`: only legal on a never-clone request-scoped value; the stage parameter must then be declared `mut`
            # (Bindings::get_expr_for_type marks it; the flag does not survive the hand-over through `Next`)
            "xm", "xbm", "bxxm", "x-m", "xb"]
MUT_PATTERNS = {"xm", "xbm", "bxxm", "x-m", "xb"}


def make(rng, name):
    idx = int(name[1:]) if name[1:].isdigit() else len(PRIORITY)
    ntypes = rng.choice([1, 1, 2])
    types, ctors = [], []
    for i in range(ntypes):
        r = rng.random()
        clone = r < 0.8 or (i == 0 and idx < len(PRIORITY) and idx % 4 != 3)
        copy = r < 0.08 and not (i == 0 and idx < len(PRIORITY))
        types.append({"i": i, "clone": clone, "copy": copy, "cap": None})
        ctors.append({"i": i, "out": i, "life": "request", "cloning": clone and (rng.random() < 0.9 or (i == 0 and idx < len(PRIORITY))), "ins": [],
                      "fallible": False, "async": False, "method": False, "fw": None, "override": None})
    if idx < len(PRIORITY) and PRIORITY[idx] in MUT_PATTERNS:
        types[0].update({"clone": False, "copy": False})
        ctors[0]["cloning"] = False
    pattern = PRIORITY[idx] if idx < len(PRIORITY) else "".join(rng.choices("mb-", weights=[5, 4, 2])[0] for _ in range(rng.choice([3, 4, 4, 5, 6])))
    k = len(pattern) - 1
    n_pre = rng.randrange(0, k + 1)

    def ins(pos):
        out = []
        ch = pattern[pos]
        if ch != "-":
            out.append([0, {"m": "val", "b": "ref", "x": "mut"}[ch]])
        for t in range(1, ntypes):
            m = rng.choices(["val", "ref", None], weights=[5, 4, 2])[0]
            if m:
                out.append([t, m])
        return out
    # invocation order of a stage: pre-processors, the handler, post-processors
    mws = [{"i": m, "kind": "pre" if m < n_pre else "post", "ins": ins(m if m < n_pre else m + 1), "fallible": False, "fw": None} for m in range(k)]
    handlers = [{"i": 0, "method": "GET", "path": "/%s/r0" % name, "full_path": "/%s/r0" % name, "ins": ins(n_pre),
                 "fallible": False, "async": False, "fw": None}]
    bp = [["ctor", c["i"]] for c in ctors] + [[mw["kind"], mw["i"]] for mw in mws] + [["route", 0]]
    return {"name": name, "klass": "stage", "types": types, "ctors": ctors, "handlers": handlers, "mws": mws,
            "observers": [], "bp": bp, "usage": {}, "pattern": pattern}
