// placeholder
