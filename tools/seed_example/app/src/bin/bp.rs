fn main() {
    let out: std::path::PathBuf = std::env::args().nth(1).unwrap().into();
    app::blueprint().persist(&out).unwrap();
}
