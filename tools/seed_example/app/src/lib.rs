use pavex::{Blueprint, Response, blueprint::from};

pub struct Greeter {
    pub salutation: &'static str,
}

#[pavex::request_scoped]
pub fn greeter() -> Greeter {
    Greeter { salutation: "hello" }
}

#[pavex::get(path = "/hello")]
pub fn hello(g: &Greeter) -> Response {
    Response::ok().set_typed_body(g.salutation)
}

pub fn blueprint() -> Blueprint {
    let mut bp = Blueprint::new();
    bp.import(from![crate]);
    bp.routes(from![crate]);
    bp
}
