"""Application family for C19: configuration types whose properties come from two places, the `#[pavex::config(..)]`
attribute (`default_if_missing`, `include_if_unused`) and the registration (`bp.config(X).required()`,
`.default_if_missing()`, `.include_if_unused()`); the registration wins. What the compiler made of them is read off the
generated `ApplicationConfig` (a field per configuration type that is used or kept, `#[serde(default)]` iff it may be
missing). Raw-source programs: they take no part in the runtime stage (the runner builds `ApplicationConfig {}`)."""


def plan(tier):
    return 8 if tier == "quick" else 64


def make(rng, name):
    M, U = name, name.upper()
    n = rng.choice([2, 3, 3, 4])
    # the first configuration type of each program walks through the combinations in which attribute and registration
    # disagree (seeded change C19-4 lost `.required()` over an attribute saying `default_if_missing`)
    PRIORITY = [(True, False, ["required"]), (False, False, ["default_if_missing"]), (True, True, ["required"]),
                (True, False, ["default_if_missing", "required"]), (False, True, ["required", "default_if_missing"]),
                (False, False, ["include_if_unused"]), (True, False, []), (False, False, ["required"])]
    idx = int(name[1:]) if name[1:].isdigit() else 0
    cfgs = []
    for i in range(n):
        c = {"i": i, "key": "%s_k%d" % (M, i), "attr_default": rng.random() < 0.5, "attr_include": rng.random() < 0.4,
             # what the registration says: None = nothing, else a list of modifier calls in order
             "reg": rng.choice([[], [], ["required"], ["required"], ["default_if_missing"], ["include_if_unused"],
                                ["default_if_missing", "required"], ["required", "default_if_missing"],
                                ["include_if_unused", "required"]]),
             "used": rng.random() < 0.6, "imported": False}
        if i == 0:
            c["attr_default"], c["attr_include"], c["reg"] = PRIORITY[idx % len(PRIORITY)][0], PRIORITY[idx % len(PRIORITY)][1], list(PRIORITY[idx % len(PRIORITY)][2])
            c["used"] = True
        cfgs.append(c)
    if not any(c["used"] for c in cfgs):
        cfgs[0]["used"] = True
    o = ["#![allow(unused_variables, unused_imports)]", "use pavex::{Blueprint, Response};", ""]
    for c in cfgs:
        flags = "".join([", default_if_missing" if c["attr_default"] else "", ", include_if_unused" if c["attr_include"] else ""])
        o.append("#[derive(Debug, Clone, Default, serde::Deserialize)]")
        o.append('#[pavex::config(key = "%s", id = "%s_CFG%d"%s)]' % (c["key"], U, c["i"], flags))
        o.append("pub struct Cfg%d { pub v: u32 }" % c["i"])
    used = [c for c in cfgs if c["used"]]
    params = ", ".join("a%d: &Cfg%d" % (k, c["i"]) for k, c in enumerate(used))
    o.append('#[pavex::get(path = "/%s/cfg", id = "%s_H")]' % (M, U))
    o.append("pub fn h(%s) -> Response { Response::ok() }" % params)
    o.append("pub fn blueprint() -> Blueprint {")
    o.append("    let mut bp = Blueprint::new();")
    for c in cfgs:
        o.append("    bp.config(%s_CFG%d)%s;" % (U, c["i"], "".join(".%s()" % m for m in c["reg"])))
    o.append("    bp.route(%s_H);" % U)
    o.append("    bp")
    o.append("}")
    for c in cfgs:
        d = c["attr_default"]
        inc = c["attr_include"]
        for m in c["reg"]:
            if m == "required":
                d = False
            elif m == "default_if_missing":
                d = True
            elif m == "include_if_unused":
                inc = True
        c["expect_default"] = d
        c["expect_present"] = c["used"] or inc
    return {"name": name, "klass": "config", "raw_src": "\n".join(o) + "\n", "no_runtime": True, "configs": cfgs}
