"""Seeded generator of pavex applications (DESIGN.md 5.2).

`gen_spec(rng, name, klass)` draws an AppSpec (plain JSON); `render(spec)` turns it into the Rust
source of one module of the scratch `app` crate: annotated components that log what they do into
`crate::rt` (trace buffer, per-request failure script) and a `blueprint()` function.

Classes: "free" (anything well-typed), "inclass" (C02: follows every documented rule and has
trivially satisfiable ownership), "planted:<rule>" (C08: one violation planted into an in-class app).
"""
import zlib
import json

MODES = ["val", "ref", "mut"]
STANDARD_METHODS = ["CONNECT", "GET", "POST", "PUT", "DELETE", "PATCH", "HEAD", "OPTIONS", "TRACE"]


def _pick_inputs(rng, pool, k, mode_weights):
    ins = []
    cand = list(pool)
    rng.shuffle(cand)
    for t in cand[:k]:
        ins.append([t, rng.choices(MODES, weights=mode_weights)[0]])
    return ins


def gen_spec(rng, name, klass="free", size=None, n_mws=None, own_stress=False):
    """Types T0..Tn-1; type i is built by constructor i from types with a smaller index (a DAG)."""
    n = size or rng.randrange(3, 9)
    inclass = klass != "free"
    types = []
    for i in range(n):
        r = rng.random()
        t = {"i": i, "clone": False, "copy": False, "cap": None}
        if r < (0.05 if own_stress else 0.15):
            t["clone"] = t["copy"] = True
        elif r < (0.9 if own_stress else 0.5):
            t["clone"] = True
        types.append(t)
    ctors = []
    # usage class per type, used by the in-class generator
    usage = {}
    for i in range(n):
        t = types[i]
        life = rng.choices(["request", "singleton", "transient"], weights=[16, 1, 2] if own_stress else [6, 2, 2])[0]
        pool = list(range(i))
        if life == "singleton":
            pool = [j for j in pool if ctors[j]["life"] == "singleton"]
        k = min(len(pool), rng.choice([1, 2, 2, 3] if own_stress else [0, 0, 1, 1, 2, 2, 3]))
        cloning = t["clone"] and rng.random() < (0.9 if own_stress else 0.6)
        c = {"i": i, "out": i, "life": life, "cloning": cloning, "ins": [], "fallible": False,
             "async": rng.random() < 0.3,
             # a quarter of the constructors are associated functions of a `#[pavex::methods]` block (chosen without
             # consuming the generator's random stream)
             "method": {0: True, 4: True, 2: "trait"}.get(zlib.crc32(("%s/%d" % (name, i)).encode()) % 8, False),
             "fw": _fw_pick(name, "c", i),
             # a third of the constructors get their lifecycle and/or cloning policy from the registration
             # (`bp.constructor(X).lifecycle(..).clone_if_necessary()`), the annotation saying something else
             "override": [None, None, None, None, "life", "clone", "both", "both", None][zlib.crc32(("o/%s/%d" % (name, i)).encode()) % 9]}
        ctors.append(c)
        if t["copy"]:
            usage[i] = "copy"
        elif cloning:
            usage[i] = "cloneable"
        elif life == "transient":
            usage[i] = "transient"
        elif life == "singleton":
            usage[i] = "borrowed"
        else:
            usage[i] = rng.choice(["borrowed", "borrowed", "moved"])
        c["_pool"], c["_k"] = pool, k
    moved_owner = {}

    def mode_for(j, consumer, is_ctor):
        """in-class: a mode for injecting type j into `consumer` that keeps the app in the class."""
        u = usage[j]
        if u in ("copy", "cloneable", "transient"):
            return rng.choice(["val", "ref"])
        if u == "moved":
            if j not in moved_owner and (not is_ctor or ctors[consumer[1]]["life"] == "request"):
                moved_owner[j] = consumer
                return "val"
            return None  # already has its one consumer and must never be borrowed: not available
        return "ref"

    for c in ctors:
        pool, k = c.pop("_pool"), c.pop("_k")
        i = c["i"]
        if inclass:
            cand = list(pool)
            rng.shuffle(cand)
            for j in cand:
                if len(c["ins"]) >= k:
                    break
                m = mode_for(j, ("c", i), True)
                if m:
                    c["ins"].append([j, m])
        else:
            # constructors never take `&mut` (a documented rule); ownership shape is free
            c["ins"] = _pick_inputs(rng, pool, k, [8, 3, 0] if own_stress else [5, 5, 0])
            for x in c["ins"]:
                if x[1] == "val" and ctors[x[0]]["life"] == "singleton" and not (ctors[x[0]]["cloning"] or types[x[0]]["copy"]):
                    x[1] = "ref"
        # captures: a request-scoped value may keep its first `&` input borrowed
        refs = [x for x in c["ins"] if x[1] == "ref"]
        if refs and c["life"] == "request" and not types[i]["copy"] and rng.random() < (0.0 if inclass else 0.25):
            types[i]["cap"] = refs[0][0]
            types[i]["clone"] = types[i]["clone"] and False
            c["cloning"] = False
        if c["life"] != "singleton" and rng.random() < 0.2:
            c["fallible"] = True

    def comp_inputs(tag, idx, allow_mut):
        k = rng.choice([0, 1, 1, 2, 2, 3])
        if inclass:
            ins = []
            cand = list(range(n))
            rng.shuffle(cand)
            for j in cand:
                if len(ins) >= k:
                    break
                if tag == "h" and usage[j] == "moved" and j not in moved_owner:
                    # handlers of different routes are on different paths: they may all take it
                    ins.append([j, "val"])
                    continue
                m = mode_for(j, (tag, idx), False)
                if m:
                    ins.append([j, m])
            return ins
        if own_stress:
            k = rng.choice([2, 3, 4])
        ins = _pick_inputs(rng, range(n), k, [8, 3, 0.5] if own_stress else [5, 5, 1.0 if allow_mut else 0.0])
        for x in ins:
            # `&mut` only where the rules allow it: request-scoped, never-clone
            if x[1] == "mut" and not (ctors[x[0]]["life"] == "request" and not ctors[x[0]]["cloning"]):
                x[1] = "ref"
            # singletons taken by value must be cloneable: otherwise borrow them
            if x[1] == "val" and ctors[x[0]]["life"] == "singleton" and not (ctors[x[0]]["cloning"] or types[x[0]]["copy"]):
                x[1] = "ref"
        return ins

    n_routes = rng.choice([1, 1, 2, 3])
    handlers = []
    for h in range(n_routes):
        handlers.append({"i": h, "method": rng.choice(["GET", "POST", "PUT"]), "path": "/%s/r%d" % (name, h),
                         "ins": comp_inputs("h", h, True), "fallible": rng.random() < 0.15,
                         "async": rng.random() < 0.5})
        handlers[-1]["fw"] = _fw_pick(name, "h", h, handler=True)
    if inclass:
        # a "moved" type consumed by handlers is owned by the handlers collectively
        for h in handlers:
            for j, m in h["ins"]:
                if usage[j] == "moved" and m == "val":
                    moved_owner.setdefault(j, ("h", -1))
    mws = []
    for m in range(rng.choice([0, 1, 2, 3, 4, 5]) if n_mws is None else n_mws):
        kind = rng.choice(["wrap", "pre", "post"])
        mws.append({"i": m, "kind": kind, "ins": comp_inputs("m", m, True), "fallible": rng.random() < 0.1})
        mws[-1]["fw"] = _fw_pick(name, "m", m)
    observers = []
    for o in range(rng.choice([0, 0, 0, 1, 2])):
        # observers must not (transitively) need fallible constructors: keep them input-free or singleton-fed
        observers.append({"i": o, "ins": []})
    # blueprint: constructors first (root scope), then an interleaving of middlewares and routes
    bp = [["ctor", c["i"]] for c in ctors]
    for c in ctors:
        if c["fallible"]:
            bp.append(["eh", "c", c["i"]])
    for o in observers:
        bp.append(["observer", o["i"]])
    items = [[mw["kind"], mw["i"]] for mw in mws] + [["route", h["i"]] for h in handlers]
    if not inclass or rng.random() < 0.5:
        rng.shuffle(items)
    # each unit = the registration plus, if fallible, its error handler (kept adjacent)
    units = []
    for it in items:
        u = [it]
        if it[0] == "route" and handlers[it[1]]["fallible"]:
            u.append(["eh", "h", it[1]])
        if it[0] in ("wrap", "pre", "post") and mws[it[1]]["fallible"]:
            u.append(["eh", "m", it[1]])
        units.append(u)
    counter = [0]

    def nestify(us, depth, prefix):
        out, i = [], 0
        while i < len(us):
            if depth < 3 and rng.random() < 0.3:
                k = rng.randrange(1, len(us) - i + 1)
                counter[0] += 1
                pfx = "/n%d" % counter[0]
                out.append(["nest", {"prefix": pfx, "ops": nestify(us[i:i + k], depth + 1, prefix + pfx)}])
                i += k
            else:
                for op in us[i]:
                    out.append(op)
                    if op[0] == "route":
                        handlers[op[1]]["full_path"] = prefix + handlers[op[1]]["path"]
                i += 1
        return out

    bp += nestify(units, 0, "")
    return {"name": name, "klass": klass, "types": types, "ctors": ctors, "handlers": handlers, "mws": mws,
            "observers": observers, "bp": bp, "usage": {str(k): v for k, v in usage.items()} if inclass else {}}


# ---- rendering ----------------------------------------------------------------------------------

def _ty(spec, j, with_lt="'_"):
    return "T%d<%s>" % (j, with_lt) if spec["types"][j]["cap"] is not None else "T%d" % j


def _param(spec, idx, j, mode):
    t = _ty(spec, j)
    if mode == "val":
        return "a%d: %s" % (idx, t)
    if mode == "ref":
        return "a%d: &%s" % (idx, t)
    return "a%d: &mut %s" % (idx, t)


def _ids(ins):
    return ", ".join("a%d.id" % k for k in range(len(ins)))


def _fmt_ids(ins):
    return " ".join("{}" for _ in ins)


FW_TYPES = {"head": "&pavex::request::RequestHead", "conn": "&pavex::connection::ConnectionInfo",
            "matched": "&pavex::request::path::MatchedPathPattern", "params": "&pavex::request::path::RawPathParams<'_, '_>"}


def _fw(comp, sep=True):
    """an extra input provided by the framework (`comp["fw"]`), rendered as a trailing parameter"""
    k = comp.get("fw")
    if not k:
        return ""
    return (", " if sep else "") + "_fw: " + FW_TYPES[k]


def _fw_pick(name, tag, i, handler=False):
    """a sixth of the request-time components take one framework-provided value (no random draw consumed)"""
    k = zlib.crc32(("fw/%s/%s/%d" % (name, tag, i)).encode()) % 18
    return {0: "head", 1: "conn", 2: "params"}.get(k) or ("matched" if handler and k == 3 else None)


def render(spec):
    M = spec["name"]
    U = M.upper()
    o = []
    w = o.append
    w("#![allow(unused_variables, unused_mut, unused_imports, clippy::all)]")
    w("use crate::rt::{fresh, log, should};")
    w("use pavex::middleware::{Next, Processing};")
    w("use pavex::{Blueprint, Response};")
    w("use std::future::IntoFuture;")
    w("")
    for t in spec["types"]:
        i = t["i"]
        if t["cap"] is not None:
            w("pub struct T%d<'a> { pub id: u64, pub of: &'a %s }" % (i, _ty(spec, t["cap"], "'a") if spec["types"][t["cap"]]["cap"] is None else "T%d<'a>" % t["cap"]))
        elif t["copy"]:
            w("#[derive(Clone, Copy)] pub struct T%d { pub id: u64 }" % i)
        elif t["clone"]:
            w("pub struct T%d { pub id: u64 }" % i)
            w("impl Clone for T%d { fn clone(&self) -> Self { let id = fresh(); log(format!(\"clone %s.T%d {} {}\", self.id, id)); T%d { id } } }" % (i, M, i, i))
        else:
            w("pub struct T%d { pub id: u64 }" % i)
    w("")

    def err_ty(tag, i):
        return "E%s%d" % (tag.upper(), i)

    def emit_err(tag, i):
        e = err_ty(tag, i)
        w("#[derive(Debug)] pub struct %s;" % e)
        w("impl std::fmt::Display for %s { fn fmt(&self, f: &mut std::fmt::Formatter<'_>) -> std::fmt::Result { write!(f, \"%s\") } }" % (e, e))
        w("impl std::error::Error for %s {}" % e)
        w("#[pavex::error_handler(id = \"%s_EH%s%d\")]" % (U, tag.upper(), i))
        w("pub fn eh%s%d(e: &%s) -> Response { log(format!(\"eh %s.%s%d\")); Response::internal_server_error() }" % (tag, i, e, M, tag, i))

    # constructors listed in spec["ctor_imports"] ({constructor index (str): group}) live in a sub-module per group and
    # are registered with `bp.import(from![..])` wherever a `ctor` op names them (C04)
    ctor_imports = {int(k): v for k, v in (spec.get("ctor_imports") or {}).items()}
    cgroup_src = {}
    for c in spec["ctors"]:
        i = c["i"]
        _cstart = len(o)
        t = spec["types"][i]
        ov = c.get("override") if (i not in ctor_imports) else None
        ann_life = c["life"]
        if ov in ("life", "both"):
            # the annotation names another lifecycle; the registration sets the real one
            ann_life = {"request": "transient", "transient": "request", "singleton": "request"}[c["life"]]
        life = {"request": "request_scoped", "singleton": "singleton", "transient": "transient"}[ann_life]
        args = ["id = \"%s_C%d\"" % (U, i)]
        if c["cloning"] and ov not in ("clone", "both"):
            args.append("clone_if_necessary")
        if (not c["cloning"]) and ov in ("clone", "both") and t["clone"] and t["cap"] is None:
            # the annotation allows cloning, the registration forbids it (`.never_clone()` below): never-clone it is
            args.append("clone_if_necessary")
        if c["fallible"] and c.get("allow_fallback"):
            args.append("allow(error_fallback)")
        if c["fallible"]:
            emit_err("c", i)
        # `"method": true`: the constructor is an associated function inside a `#[pavex::methods] impl` block
        as_method = bool(c.get("method")) and t["cap"] is None and i not in ctor_imports
        as_trait = as_method and c.get("method") == "trait" and not c["async"]
        _hdr = len(o)   # the impl header goes here once the signature is known
        w("#[pavex::%s(%s)]" % (life, ", ".join(args)))
        params = ", ".join(_param(spec, k, j, m) for k, (j, m) in enumerate(c["ins"]))
        if c["life"] == "request" and t["cap"] is None:
            params += _fw(c, sep=bool(params))
        out = _ty(spec, i)
        gen = ""
        if t["cap"] is not None:
            capidx = [k for k, (j, m) in enumerate(c["ins"]) if j == t["cap"] and m == "ref"][0]
            build = "T%d { id, of: a%d }" % (i, capidx)
            # several reference inputs: the output lifetime must be named
            gen = "<'a>"
            out = "T%d<'a>" % i
            ps = []
            for k, (j, m) in enumerate(c["ins"]):
                if k == capidx:
                    ps.append("a%d: &'a %s" % (k, _ty(spec, j, "'a") if spec["types"][j]["cap"] is not None else "T%d" % j))
                else:
                    ps.append(_param(spec, k, j, m))
            params = ", ".join(ps)
        else:
            build = "T%d { id }" % i
        ret = "Result<%s, %s>" % (out, err_ty("c", i)) if c["fallible"] else out
        body = "let id = fresh(); log(format!(\"ctor %s.c%d {} : %s\", id%s));" % (M, i, _fmt_ids(c["ins"]), (", " + _ids(c["ins"])) if c["ins"] else "")
        if c["fallible"]:
            body = "if should(\"%s.c%d\") { log(format!(\"fail %s.c%d\")); return Err(%s); } " % (M, i, M, i, err_ty("c", i)) + body + " Ok(%s)" % build
        else:
            body += " " + build
        if as_trait:
            # a method of a local trait implemented for the type (`#[pavex::methods] impl MkC5 for T5 { .. }`)
            w("fn c%d%s(%s) -> %s { %s }" % (i, gen, params, ret, body))
            w("}")
            o[_hdr:_hdr] = ["pub trait MkC%d { fn c%d%s(%s) -> %s; }" % (i, i, gen, params, ret), "#[pavex::methods]", "impl MkC%d for T%d {" % (i, i)]
        elif as_method:
            w("pub %sfn c%d%s(%s) -> %s { %s }" % ("async " if c["async"] else "", i, gen, params, ret, body))
            w("}")
            o[_hdr:_hdr] = ["#[pavex::methods]", "impl T%d {" % i]
        else:
            w("pub %sfn c%d%s(%s) -> %s { %s }" % ("async " if c["async"] else "", i, gen, params, ret, body))
        if i in ctor_imports and not c["fallible"]:
            cgroup_src.setdefault(ctor_imports[i], []).extend(o[_cstart:])
            del o[_cstart:]
    for g, ls in sorted(cgroup_src.items()):
        w("pub mod cg%d {" % g)
        w("    use super::*;")
        for l in ls:
            w("    " + l)
        w("}")
    w("")
    # handlers listed in spec["route_imports"] ({handler index (str): group}) live in a sub-module per group and are
    # registered with one `bp.routes(from![..])` import where the group's first `route` op stands (C05)
    imports = {int(k): v for k, v in (spec.get("route_imports") or {}).items()}
    group_src = {}
    for h in spec["handlers"]:
        i = h["i"]
        _start = len(o)
        if h["fallible"]:
            emit_err("h", i)
        # custom (non-standard) methods need an explicit opt-in (C07)
        nonstd = ", allow(non_standard_methods)" if any(x not in STANDARD_METHODS for x in (h.get("methods") or [h.get("method", "GET")])) else ""
        if h["fallible"] and h.get("allow_fallback"):
            nonstd = (", allow(non_standard_methods, error_fallback)" if nonstd else ", allow(error_fallback)")
        if h.get("any") == "all":
            # MethodGuard::Any: matches every HTTP method, well-known or not
            w("#[pavex::route(path = \"%s\", id = \"%s_H%d\", allow(any_method, non_standard_methods))]" % (h["path"], U, i))
        elif h.get("any"):
            # matches every well-known HTTP method
            w("#[pavex::route(path = \"%s\", id = \"%s_H%d\", allow(any_method))]" % (h["path"], U, i))
        elif h.get("methods"):
            w("#[pavex::route(method = [%s], path = \"%s\", id = \"%s_H%d\"%s)]" % (", ".join("\"%s\"" % x for x in h["methods"]), h["path"], U, i, nonstd))
        else:
            w("#[pavex::route(method = \"%s\", path = \"%s\", id = \"%s_H%d\"%s)]" % (h["method"], h["path"], U, i, nonstd))
        params = ", ".join(_param(spec, k, j, m) for k, (j, m) in enumerate(h["ins"]))
        params += _fw(h, sep=bool(params))
        body = "log(format!(\"handler %s.h%d : %s\"%s));" % (M, i, _fmt_ids(h["ins"]), (", " + _ids(h["ins"])) if h["ins"] else "")
        if h["fallible"]:
            body = "if should(\"%s.h%d\") { log(format!(\"fail %s.h%d\")); return Err(%s); } " % (M, i, M, i, err_ty("h", i)) + body + " Ok(Response::ok())"
            ret = "Result<Response, %s>" % err_ty("h", i)
        else:
            body += " Response::ok()"
            ret = "Response"
        w("pub %sfn h%d(%s) -> %s { %s }" % ("async " if h["async"] else "", i, params, ret, body))
        if i in imports and not h["fallible"]:
            group_src.setdefault(imports[i], []).extend(o[_start:])
            del o[_start:]
    for g, ls in sorted(group_src.items()):
        w("pub mod rg%d {" % g)
        w("    use super::*;")
        for l in ls:
            w("    " + l)
        w("}")
    w("")
    for m in spec["mws"]:
        i = m["i"]
        if m["fallible"]:
            emit_err("m", i)
        params = ", ".join(_param(spec, k, j, mo) for k, (j, mo) in enumerate(m["ins"]))
        params += _fw(m, sep=bool(params))
        ids = (", " + _ids(m["ins"])) if m["ins"] else ""
        fail = ("if should(\"%s.m%d\") { log(format!(\"fail %s.m%d\")); return Err(%s); } " % (M, i, M, i, err_ty("m", i))) if m["fallible"] else ""
        if m["kind"] == "wrap":
            w("#[pavex::wrap(id = \"%s_M%d\"%s)]" % (U, i, ", allow(error_fallback)" if (m["fallible"] and m.get("allow_fallback")) else ""))
            ret = "Result<Response, %s>" % err_ty("m", i) if m["fallible"] else "Response"
            fin = "Ok(r)" if m["fallible"] else "r"
            w("pub async fn m%d<C>(next: Next<C>%s) -> %s where C: IntoFuture<Output = Response> { %slog(format!(\"wrap-start %s.m%d : %s\"%s)); let r = next.await; log(format!(\"wrap-end %s.m%d\")); %s }" % (
                i, (", " + params) if params else "", ret, fail, M, i, _fmt_ids(m["ins"]), ids, M, i, fin))
        elif m["kind"] == "pre":
            w("#[pavex::pre_process(id = \"%s_M%d\"%s)]" % (U, i, ", allow(error_fallback)" if (m["fallible"] and m.get("allow_fallback")) else ""))
            ret = "Result<Processing, %s>" % err_ty("m", i) if m["fallible"] else "Processing"
            cont = "Ok(Processing::Continue)" if m["fallible"] else "Processing::Continue"
            early = "Processing::EarlyReturn(Response::accepted())"
            if m["fallible"]:
                early = "Ok(%s)" % early
            w("pub fn m%d(%s) -> %s { %slog(format!(\"pre %s.m%d : %s\"%s)); if should(\"early:%s.m%d\") { log(format!(\"early %s.m%d\")); return %s; } %s }" % (
                i, params, ret, fail, M, i, _fmt_ids(m["ins"]), ids, M, i, M, i, early, cont))
        else:
            w("#[pavex::post_process(id = \"%s_M%d\"%s)]" % (U, i, ", allow(error_fallback)" if (m["fallible"] and m.get("allow_fallback")) else ""))
            ret = "Result<Response, %s>" % err_ty("m", i) if m["fallible"] else "Response"
            fin = "Ok(r)" if m["fallible"] else "r"
            w("pub fn m%d(r: Response%s) -> %s { %slog(format!(\"post %s.m%d : %s\"%s)); %s }" % (
                i, (", " + params) if params else "", ret, fail, M, i, _fmt_ids(m["ins"]), ids, fin))
    for ob in spec["observers"]:
        w("#[pavex::error_observer(id = \"%s_O%d\")]" % (U, ob["i"]))
        w("pub fn o%d(e: &pavex::Error) { log(format!(\"observer %s.o%d\")); }" % (ob["i"], M, ob["i"]))
    w("")

    emitted_groups = set()
    imported_ok = {h["i"] for h in spec["handlers"] if h["i"] in imports and not h["fallible"]}

    def emit_ops(ops, var, depth):
        ind = "    " * (depth + 1)
        for op in ops:
            k = op[0]
            if k == "ctor" and op[1] in ctor_imports and not spec["ctors"][op[1]]["fallible"]:
                w("%s%s.import(pavex::blueprint::from![crate::%s::cg%d]);" % (ind, var, M, ctor_imports[op[1]]))
            elif k == "ctor":
                c_ = spec["ctors"][op[1]]
                ov_ = c_.get("override")
                mods = ""
                if ov_ in ("life", "both"):
                    mods += ".lifecycle(pavex::blueprint::Lifecycle::%s)" % {"request": "RequestScoped", "singleton": "Singleton", "transient": "Transient"}[c_["life"]]
                if ov_ in ("clone", "both"):
                    mods += ".clone_if_necessary()" if c_["cloning"] else ".never_clone()"
                w("%s%s.constructor(%s_C%d)%s;" % (ind, var, U, op[1], mods))
            elif k == "wrap":
                w("%s%s.wrap(%s_M%d);" % (ind, var, U, op[1]))
            elif k == "pre":
                w("%s%s.pre_process(%s_M%d);" % (ind, var, U, op[1]))
            elif k == "post":
                w("%s%s.post_process(%s_M%d);" % (ind, var, U, op[1]))
            elif k == "route" and op[1] in imports and op[1] in imported_ok:
                g = imports[op[1]]
                if g not in emitted_groups:
                    emitted_groups.add(g)
                    w("%s%s.routes(pavex::blueprint::from![crate::%s::rg%d]);" % (ind, var, M, g))
            elif k == "route":
                w("%s%s.route(%s_H%d);" % (ind, var, U, op[1]))
            elif k == "observer":
                w("%s%s.error_observer(%s_O%d);" % (ind, var, U, op[1]))
            elif k == "eh":
                w("%s%s.error_handler(%s_EH%s%d);" % (ind, var, U, op[1].upper(), op[2]))
            elif k == "raw":
                # verbatim statement(s); `{bp}` stands for the blueprint variable in scope
                w("%s%s" % (ind, op[1].replace("{bp}", var)))
            elif k == "nest":
                nb = op[1]
                nv = "nb%d" % (depth + 1)
                w("%s{" % ind)
                w("%s    let mut %s = Blueprint::new();" % (ind, nv))
                emit_ops(nb["ops"], nv, depth + 1)
                if nb.get("prefix") and nb.get("domain"):
                    w("%s    %s.prefix(\"%s\").domain(\"%s\").nest(%s);" % (ind, var, nb["prefix"], nb["domain"], nv))
                elif nb.get("prefix"):
                    w("%s    %s.prefix(\"%s\").nest(%s);" % (ind, var, nb["prefix"], nv))
                elif nb.get("domain"):
                    w("%s    %s.domain(\"%s\").nest(%s);" % (ind, var, nb["domain"], nv))
                else:
                    w("%s    %s.nest(%s);" % (ind, var, nv))
                w("%s}" % ind)

    for item in spec.get("extra_items", []):
        # verbatim Rust items (used by planted rule violations and hand-written variations)
        w(item.replace("__MOD__", M).replace("__MODU__", U))
    w("pub fn blueprint() -> Blueprint {")
    w("    let mut bp = Blueprint::new();")
    emit_ops(spec["bp"], "bp", 0)
    w("    bp")
    w("}")
    return "\n".join(o) + "\n"


RT_RS = '''//! Shared runtime support for generated test applications: trace buffer and failure script.
use std::sync::Mutex;
use std::sync::atomic::{AtomicU64, Ordering};

static TRACE: Mutex<Vec<String>> = Mutex::new(Vec::new());
static SCRIPT: Mutex<Vec<String>> = Mutex::new(Vec::new());
static NEXT: AtomicU64 = AtomicU64::new(1);

pub fn fresh() -> u64 { NEXT.fetch_add(1, Ordering::SeqCst) }
pub fn log(s: String) { TRACE.lock().unwrap().push(s); }
pub fn take() -> Vec<String> { std::mem::take(&mut *TRACE.lock().unwrap()) }
pub fn set_script(s: Vec<String>) { *SCRIPT.lock().unwrap() = s; }
pub fn should(name: &str) -> bool { SCRIPT.lock().unwrap().iter().any(|x| x == name) }
'''

if __name__ == "__main__":
    import random
    import sys
    rng = random.Random(int(sys.argv[1]) if len(sys.argv) > 1 else 1)
    s = gen_spec(rng, "m0", sys.argv[2] if len(sys.argv) > 2 else "free")
    print(json.dumps(s))
    print(render(s))
