"""Shared by checks C03 / C04: reading the instrumented traces of generated servers and comparing them with
the Lean model of a route's pipeline (`pxmodel life`, lean/Pxv/Model/Lifecycle.lean).

Trace lines (tools/gen_app.py): "ctor <mod>.c3b <new id> : <input ids>", "clone <mod>.T2 <old id> <new id>",
"handler <mod>.h0 : <ids>", "pre|post|wrap-start <mod>.m1 : <ids>", "wrap-end <mod>.m1", "fail <mod>.c3", "eh …",
"observer …", "early <mod>.m2".
"""
import gen_scopes

CONSUMER = ("handler", "pre", "post", "wrap-start")


def usable(spec):
    # only the families whose specs are plain gen_app specs: the planted-violation family (C08) renders components
    # outside the spec, the errors family (C06) gives inputs to error handlers, the routes family (C07) has its own
    # request scripts; those are judged by their own checks
    if not (bool(spec) and all(k in spec for k in ("ctors", "handlers", "mws", "bp", "types")) and
            str(spec.get("klass")).split(":")[0] in ("free", "inclass", "scopes", "own", "mw", "names")):
        return False
    # one middleware registered twice (C05's subject) gives two stages with one name: the trace matcher tells
    # components apart by name, so those applications are left to C05 and to the model-free counting oracle
    seen = []

    def walk(ops):
        for op in ops:
            if op[0] in ("wrap", "pre", "post"):
                seen.append((op[0], op[1]))
            elif op[0] == "nest":
                walk(op[1]["ops"])
    walk(spec["bp"])
    return len(seen) == len(set(seen))


def parse_line(line, mod):
    parts = line.split()
    if len(parts) < 2 or not parts[1].startswith(mod + "."):
        return None
    kind, local = parts[0], parts[1].split(".", 1)[1]
    nums = [int(x) for x in parts[2:] if x.isdigit()]
    return kind, local, nums


def comp_inputs(spec, comp):
    if comp[0] == "h":
        return next(h for h in spec["handlers"] if h["i"] == int(comp[1:]))["ins"]
    return next(m for m in spec["mws"] if m["i"] == int(comp[1:]))["ins"]


class Observed:
    """one request (or ApplicationState::new) as the trace shows it"""

    def __init__(self, spec, defs, trace, singles=None, base=None):
        self.spec, self.defs = spec, defs
        self.singles = dict(singles or {})   # instance id -> constructor name (built by ApplicationState::new)
        self.base_clone_of = dict(base.clone_of) if base is not None else {}  # clones taken while the application state was built
        self.ctors = {}      # instance id -> (constructor name, [input ids])
        self.clone_of = {}   # new id -> old id
        self.clones = []     # (type index | None, old, new, line)
        self.consumers = []  # (component "h0"/"m1", [ids], [constructor instance ids built since the previous component started])
        self.failed = []     # names that logged "fail"
        self.early = []
        self.unparsed = []
        self.order = []      # instance ids in construction order
        mod = spec["name"]
        pending = []
        for line in trace:
            p = parse_line(line, mod)
            if p is None:
                continue
            kind, local, nums = p
            if kind == "ctor":
                if local not in defs or not nums or len(nums) - 1 != len(defs[local]["ins"]):
                    self.unparsed.append(line)
                    continue
                self.ctors[nums[0]] = (local, nums[1:])
                self.order.append(nums[0])
                pending.append(nums[0])
            elif kind == "clone":
                if len(nums) != 2:
                    self.unparsed.append(line)
                    continue
                self.clone_of[nums[1]] = nums[0]
                self.clones.append((int(local[1:]) if local[1:].isdigit() else None, nums[0], nums[1], line))
            elif kind in CONSUMER:
                try:
                    ins = comp_inputs(spec, local)
                except (StopIteration, ValueError):
                    self.unparsed.append(line)
                    continue
                if len(ins) != len(nums):
                    self.unparsed.append(line)
                    continue
                self.consumers.append((local, nums, pending))
                pending = []
            elif kind == "fail":
                self.failed.append(local)
            elif kind == "early":
                self.early.append(local)
        self.trailing = pending  # built after the last component started (only in failing closures)

    def root(self, iid):
        seen = set()
        while (iid in self.clone_of or iid in self.base_clone_of) and iid not in seen:
            seen.add(iid)
            iid = self.clone_of[iid] if iid in self.clone_of else self.base_clone_of[iid]
        return iid

    def producer(self, iid):
        """name of the constructor that built the instance (through clones); None if unknown"""
        r = self.root(iid)
        if r in self.ctors:
            return self.ctors[r][0]
        return self.singles.get(r)

    def tree(self, iid, depth=12):
        """(constructor, [trees of its inputs]); singletons and unknown instances are leaves"""
        r = self.root(iid)
        if r in self.ctors and depth > 0:
            n, ins = self.ctors[r]
            return (n, tuple(self.tree(x, depth - 1) for x in ins))
        if r in self.singles:
            return (self.singles[r], "singleton")
        return (None, "unknown")


def expected_tree(defs, env, ty, depth=12):
    """what the documented rule designates for `ty` in the environment {type: constructor name} of a component,
    with the inputs of that constructor resolved in the same environment"""
    n = env.get(ty)
    if n is None:
        return (None, "unknown")
    d = defs[n]
    if d["life"] == "singleton":
        return (n, "singleton")
    if depth == 0:
        return (n, ())
    return (n, tuple(expected_tree(defs, env, j, depth - 1) for j, _ in d["ins"]))


class ModelRoute:
    """the Lean model's plan for one route"""

    def __init__(self, route_out, by_uid, defs, app_singleton):
        self.r = route_out
        self.by_uid, self.defs = by_uid, defs
        self.comps = route_out["comps"]
        self.app_singleton = app_singleton  # type -> singleton constructor name designated for the application state

    @staticmethod
    def okey(o):
        if isinstance(o, list):
            return ("node", o[0], o[1])
        if isinstance(o, dict):
            return ("app", o["app"])
        return ("stuck",)

    def node(self, o):
        return self.comps[o[0]]["built"][o[1]]

    def tree(self, o, depth=12):
        k = self.okey(o)
        if k[0] == "node":
            n = self.node(o)
            name = self.by_uid.get(n["ctor"])
            if depth == 0:
                return (name, ())
            return (name, tuple(self.tree(x, depth - 1) for x in n["ins"]))
        if k[0] == "app":
            return (self.app_singleton.get(k[1]), "singleton")
        return (None, "unknown")

    def constructions(self):
        out = {}
        for c in self.comps:
            for b in c["built"]:
                n = self.by_uid.get(b["ctor"])
                out[n] = out.get(n, 0) + 1
        return out


def match_request(model, obs, complete):
    """Structural correspondence of one request: every started component's inputs (and, transitively, the inputs of
    the constructors that built them) must come from where the model says, with the model's sharing structure:
    model origin <-> observed instance is a bijection. `complete` = the request ran every component to the end
    (then also: nothing else was constructed). Returns a list of problems (strings)."""
    problems = []
    m2o, o2m = {}, {}

    def bind(origin, iid, ctx):
        k = model.okey(origin)
        r = obs.root(iid)
        if k[0] == "stuck":
            problems.append("%s: the model finds no binding for this value but the server delivered one" % ctx)
            return
        if k in m2o:
            if m2o[k] != r:
                problems.append("%s: model says the same instance as elsewhere (origin %s), the server delivered a different one (%s vs %s)" % (ctx, k, r, m2o[k]))
            return
        if r in o2m and o2m[r] != k:
            problems.append("%s: the server shares instance %s between two values the model builds separately (%s and %s)" % (ctx, r, o2m[r], k))
            return
        m2o[k], o2m[r] = r, k
        if k[0] == "node":
            n = model.node(origin)
            name = model.by_uid.get(n["ctor"])
            if r not in obs.ctors:
                problems.append("%s: model: built by `%s` in this request; server: instance %s was not constructed in this request (%s)" % (ctx, name, r, obs.singles.get(r)))
                return
            oname, oins = obs.ctors[r]
            if oname != name:
                problems.append("%s: model: built by `%s`; server: built by `%s`" % (ctx, name, oname))
                return
            for j, (o2, i2) in enumerate(zip(n["ins"], oins)):
                bind(o2, i2, "%s <- %s input %d" % (ctx, name, j))
        else:
            want = model.app_singleton.get(k[1])
            if obs.singles.get(r) != want:
                problems.append("%s: model: the singleton of `%s` from the application state; server: instance %s (%s)" % (ctx, want, r, obs.producer(r)))

    started = {}
    for comp, ids, _ in obs.consumers:
        started[comp] = started.get(comp, 0) + 1
        mc = [c for c in model.comps if c["comp"] == comp]
        if len(mc) != 1:
            problems.append("component %s ran but is not part of the model's pipeline" % comp)
            continue
        if started[comp] > 1:
            problems.append("component %s ran twice" % comp)
            continue
        for j, (o, iid) in enumerate(zip(mc[0]["args"], ids)):
            bind(o, iid, "%s input %d" % (comp, j))
    # hoisted values: fields of `Next` states are inputs of a later stage; bind them through the consumers above.
    built = {}
    for r in obs.ctors:
        n = obs.ctors[r][0]
        built[n] = built.get(n, 0) + 1
    want = model.constructions()
    for n, k in built.items():
        if k > want.get(n, 0):
            problems.append("`%s` ran %d time(s) in this request, the model's pipeline runs it at most %d time(s)" % (n, k, want.get(n, 0)))
    if complete:
        for n, k in want.items():
            if built.get(n, 0) != k:
                problems.append("`%s` ran %d time(s) in this request, the model's pipeline runs it %d time(s)" % (n, built.get(n, 0), k))
        for c in model.comps:
            if c["comp"] not in ("noop", "fallback") and c["comp"] not in started:
                problems.append("component %s of the model's pipeline did not run" % c["comp"])
        for r in obs.ctors:
            if r not in o2m:
                problems.append("instance %s of `%s` was constructed but reaches no component according to the model" % (r, obs.ctors[r][0]))
    return problems


def model_lines(spec):
    return gen_scopes.life_request(spec)
