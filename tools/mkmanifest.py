#!/usr/bin/env python3
"""Regenerates /verif/MANIFEST.json from tools/claims/Cxx.json (one file per property) and validates it."""
import json, os, sys
V = os.path.dirname(os.path.dirname(os.path.abspath(__file__)))
CD = os.path.join(V, "tools", "claims")
claims = {fn[:-5]: json.load(open(os.path.join(CD, fn))) for fn in sorted(os.listdir(CD)) if fn.endswith(".json")}
props = [json.loads(l)["id"] for l in open(os.path.join(V, "properties.jsonl"))]
checks, na = [], []
for pid in props:
    c = claims.get(pid)
    if not c or c.get("not_applicable"):
        na.append({"property_id": pid, "reason": (c or {}).get("not_applicable", "not yet claimed: model/theorems/correspondence for this property are still being built (see DESIGN.md section 8, order of work)")})
        continue
    checks.append({
        "property_id": pid,
        "quick_cmd": "python3 tools/verif.py check %s --tier quick" % pid,
        "thorough_cmd": "python3 tools/verif.py check %s --tier thorough" % pid,
        "evidence_file": "/verif/evidence/%s.json" % pid,
        "replay_cmd_template": "python3 tools/verif.py check %s --replay {path}" % pid,
        "engine": "lean4-proof+correspondence",
        "level_claimed": {"category": c.get("category", "proof"), "text": c["text"], "design_ref": c.get("design_ref", "")},
        "level_note": c["note"],
        "technique": c.get("technique", "Lean 4 machine-checked proof over a hand-written executable model; model tied to the code by a differential correspondence run (real code vs compiled Lean model) on every run"),
    })
m = {
    "version": 1,
    "setup_cmd": "bash tools/setup.sh",
    "hooks": {
        "guard": "--cfg pavex_verif",
        "enable": "RUSTFLAGS='--cfg pavex_verif' via /verif/harness/.cargo/config.toml (the harness has path dependencies on /repo's crates, so every check rebuilds them from the working tree with hooks on)",
        "baseline_off_cmd": "bash /verif/tools/baseline.sh /repo",
        "source_commits": claims.get("_hooks", {}).get("hook_commits", []),
        "add_only": True,
    },
    "engines": [{"name": "lean4-proof+correspondence", "path": "/verif/lean + /verif/harness + /verif/tools",
                 "serves_properties": [c["property_id"] for c in checks],
                 "kind_free_text": "Lean 4.33 theorems over executable models (lake build, axiom audit), compiled model driver `pxmodel` vs in-process Rust driver on the same JSON-lines inputs, implementation-side oracle and break protocol"}],
    "checks": checks,
    "not_applicable": na,
    "notes": "See DESIGN.md. known_findings.json lists genuine defects recorded or fixed.",
}
json.dump(m, open(os.path.join(V, "MANIFEST.json"), "w"), indent=1)
try:
    import jsonschema
    jsonschema.validate(m, json.load(open("/root/.vp/MANIFEST.schema.json")))
    print("MANIFEST.json valid:", len(checks), "claimed,", len(na), "not claimed")
except ImportError:
    print("jsonschema unavailable; wrote MANIFEST.json unvalidated")
