#!/bin/bash
# Builds what `pavexc generate` needs to run offline in this sandbox (DESIGN.md 5.1):
#   /verif/toolchain/root/share/doc/rust/json/{core,alloc,std}.json   JSON docs built from rust-src
#   /verif/toolchain/bin/rustup                                        shim answering `which`/`run`
# Idempotent: skips the 30 s doc build when the three files already exist.
set -e
V="$(cd "$(dirname "$0")/.." && pwd)"
T="$V/toolchain"
NIGHTLY_ROOT="$(dirname "$(dirname "$(rustup which --toolchain nightly cargo)")")"
REAL_RUSTUP="$(command -v rustup)"
mkdir -p "$T/bin" "$T/root/bin" "$T/root/share/doc/rust/json"
if [ ! -s "$T/root/share/doc/rust/json/std.json" ] || [ ! -s "$T/root/share/doc/rust/json/core.json" ] || [ ! -s "$T/root/share/doc/rust/json/alloc.json" ]; then
  S="${VERIF_SCRATCH:-/var/tmp}/pxv-stddocs-$$"
  rm -rf "$S"; mkdir -p "$S"
  cp -r "$NIGHTLY_ROOT/lib/rustlib/src/rust/library" "$S/library"
  (cd "$S/library" && RUSTC_BOOTSTRAP=1 CARGO_NET_OFFLINE=true \
     RUSTDOCFLAGS="-Zunstable-options --output-format json -Zforce-unstable-if-unmarked" \
     RUSTFLAGS="-Zforce-unstable-if-unmarked" \
     cargo +nightly doc --offline -q -p core -p alloc -p std --no-deps --target-dir "$S/target")
  cp "$S/target/doc/core.json" "$S/target/doc/alloc.json" "$S/target/doc/std.json" "$T/root/share/doc/rust/json/"
  rm -rf "$S"
fi
ln -sfn "$NIGHTLY_ROOT/bin/cargo" "$T/root/bin/cargo"
cat > "$T/bin/rustup" <<SHIM
#!/bin/bash
# Shim: pavexc reaches its docs toolchain only through \`rustup which/run\`.
if [ "\$1" = "which" ]; then echo "$T/root/bin/cargo"; exit 0; fi
if [ "\$1" = "run" ]; then shift; shift; exec "$REAL_RUSTUP" run nightly "\$@"; fi
exec "$REAL_RUSTUP" "\$@"
SHIM
chmod +x "$T/bin/rustup"
ls -la "$T/root/share/doc/rust/json/"
echo toolchain-ok
