#!/bin/bash
# usage: seed_eval_par.sh <slot> <property> <seed-name> [tier]
# Like seed_eval.sh, but in a private copy of /verif (/var/tmp/pv<slot>) against a private worktree of /repo
# (/var/tmp/pr<slot>) with the seeded patch applied, so several seeded changes can be evaluated at the same time
# and /repo itself stays untouched. The copies are refreshed from /verif and /repo's HEAD at every call.
S=$1; P=$2; N=$3; T=${4:-quick}
V=/var/tmp/pv$S; R=/var/tmp/pr$S
mkdir -p $V
rsync -a --delete --exclude scratch --exclude .git --exclude 'replays/*.json' --exclude '.lock-*' /verif/ $V/
if [ ! -d $R ]; then git -C /repo worktree add -q --detach $R HEAD || exit 2; fi
git -C $R checkout -q -- . ; git -C $R clean -fdq -e target ; git -C $R checkout -q --detach $(git -C /repo rev-parse HEAD) || { echo "cannot reset the private worktree"; exit 2; }
git -C $R apply /verif/seeded/$N/patch.diff || { echo "patch does not apply"; exit 2; }
ln -sfn $R $V/.repo
cd $V
s=$(date +%s)
PXV_REPO=$R python3 tools/verif.py check $P --tier $T > /var/tmp/seed-eval-$N.log 2>&1
rc=$?
echo "seed $N property $P tier $T (slot $S): rc=$rc in $(( $(date +%s) - s ))s"
grep -E '^(VIOLATION|KNOWN-FINDING)' /var/tmp/seed-eval-$N.log | cut -c1-500 | head -4
rm -rf $V/scratch
