#!/usr/bin/env python3
"""usage: seed_record.py <seed-name> <caught_by> <initially_missed:0|1> <main-confirmation text>"""
import json, sys, os
V = os.path.dirname(os.path.dirname(os.path.abspath(__file__)))
name, caught_by, missed, conf = sys.argv[1], sys.argv[2], sys.argv[3] == "1", sys.argv[4]
p = os.path.join(V, "seeded", name, "meta.json")
m = json.load(open(p))
sub = m.pop("ran", None)
m.setdefault("confirmed", [])
if sub and not any(str(c).startswith("sub-agent") for c in m["confirmed"]):
    m["confirmed"].append("sub-agent ran: " + "; ".join(sub if isinstance(sub, list) else [str(sub)])[:1500])
m["confirmed"] = [c for c in m["confirmed"] if not str(c).startswith("main:")] + ["main: " + conf]
m["caught_by"] = caught_by
m["initially_missed"] = missed
m["source"] = os.environ.get("SEED_SOURCE", "independent sub-agent (fifth wave: given the property text and the mechanisms of the four earlier seeds, asked for a different one)")
json.dump(m, open(p, "w"), indent=1)
print("recorded", name)
