#!/bin/bash
# usage: seed_pipeline.sh <slot> <property>...   — confirm, free the build output, evaluate with the quick check; one summary block each
S=$1; shift
for P in "$@"; do
  { echo "=== $P"; bash /verif/tools/seed_confirm.sh $P 2>&1 | tail -1
    rm -rf /var/tmp/w5/$P/target /var/tmp/w5/$P/target-demo /var/tmp/w5/$P/SEED/home /var/tmp/w5/$P/SEED/demo/home /var/tmp/w5/$P/SEED/demo/target
    bash /verif/tools/seed_eval_par.sh $S $P $P-5 quick 2>&1 | tail -4 | cut -c1-700; } >> /var/tmp/w5/summary-$S.txt 2>&1
done
