#!/bin/bash
# usage: seed_tc.sh <worktree> <tc-dir>   — prepares, for one seeding sub-agent, a private worktree of /repo and a copy of the
# offline toolchain shim + lockfile + a minimal example workspace (nothing else from /verif reaches the sub-agent).
set -e
WT=$1; TC=$2
V="$(cd "$(dirname "$0")/.." && pwd)"
[ -d "$WT" ] || git -C /repo worktree add -q --detach "$WT" HEAD
mkdir -p "$TC/bin" "$TC/root/bin" "$TC/root/share/doc/rust/json"
for f in core alloc std; do ln -f "$V/toolchain/root/share/doc/rust/json/$f.json" "$TC/root/share/doc/rust/json/$f.json" 2>/dev/null || cp "$V/toolchain/root/share/doc/rust/json/$f.json" "$TC/root/share/doc/rust/json/"; done
ln -sfn "$(readlink "$V/toolchain/root/bin/cargo")" "$TC/root/bin/cargo"
sed "s#$V/toolchain#$TC#g" "$V/toolchain/bin/rustup" > "$TC/bin/rustup"; chmod +x "$TC/bin/rustup"
cp "$V/tools/e2e_workspace.Cargo.lock" "$TC/e2e_workspace.Cargo.lock"
rm -rf "$TC/example"; cp -r "$V/tools/seed_example" "$TC/example"
cp "$TC/e2e_workspace.Cargo.lock" "$TC/example/Cargo.lock"
sed "s#@WT@#$WT#g" "$TC/example/Cargo.toml.in" > "$TC/example/Cargo.toml"; rm "$TC/example/Cargo.toml.in"
sed "s#@WT@#$WT#g; s#@TC@#$TC#g" "$TC/example/run.sh.in" > "$TC/example/run.sh"; rm "$TC/example/run.sh.in"; chmod +x "$TC/example/run.sh"
echo "$WT $TC ready"
