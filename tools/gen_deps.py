"""Application family for C10: the generated SDK depends on a crate other than the fixed set (a component's
signature names `helper::Greeting`), so the `[dependencies]` table of the generated manifest differs between
programs that share an output directory history."""


def plan(tier):
    return 2 if tier == "quick" else 6


def make(rng, name):
    U = name.upper()
    by_ref = rng.random() < 0.5
    idx = int(name[1:]) if name[1:].isdigit() else 0
    if idx % 2 == 1:
        # both crates whose library is called `helper`: the workspace member and the one outside the workspace
        items = [
            "#[pavex::request_scoped(id = \"%s_GREET\")]\npub fn greet() -> helper::Greeting { let id = fresh(); log(format!(\"ctor %s.greet {} : \", id)); helper::Greeting { id } }" % (U, name),
            # a singleton: its type is spelled out in the generated `ApplicationState`, by the path the crate's documentation gives it
            "#[pavex::singleton(id = \"%s_SALT\")]\npub fn salt() -> helper_ext::Salt { helper_ext::Salt { id: 7 } }" % U,
            "#[pavex::get(path = \"/%s/r0\", id = \"%s_H0\")]\npub fn h0(g: %shelper::Greeting, s: &helper_ext::Salt) -> Response { log(format!(\"handler %s.h0 : {}\", g.id)); Response::ok() }" % (name, U, "&" if by_ref else "", name),
        ]
        bp = [["raw", "{bp}.constructor(%s_GREET);" % U, {"ctor": "greet"}], ["raw", "{bp}.constructor(%s_SALT);" % U, {"ctor": "salt"}],
              ["raw", "{bp}.route(%s_H0);" % U, {"route": "h0"}]]
        return {"name": name, "klass": "deps", "types": [], "ctors": [], "handlers": [], "mws": [], "observers": [],
                "bp": bp, "usage": {}, "extra_items": items, "two_helpers": True}
    items = [
        "#[pavex::request_scoped(id = \"%s_GREET\")]\npub fn greet() -> helper::Greeting { let id = fresh(); log(format!(\"ctor %s.greet {} : \", id)); helper::Greeting { id } }" % (U, name),
        "#[pavex::get(path = \"/%s/r0\", id = \"%s_H0\")]\npub fn h0(g: %shelper::Greeting) -> Response { log(format!(\"handler %s.h0 : {}\", g.id)); Response::ok() }" % (name, U, "&" if by_ref else "", name),
    ]
    bp = [["raw", "{bp}.constructor(%s_GREET);" % U, {"ctor": "greet"}], ["raw", "{bp}.route(%s_H0);" % U, {"route": "h0"}]]
    return {"name": name, "klass": "deps", "types": [], "ctors": [], "handlers": [], "mws": [], "observers": [],
            "bp": bp, "usage": {}, "extra_items": items}


def request_script(spec):
    return [{"method": "GET", "path": "/%s/r0" % spec["name"], "script": [], "tag": "deps"}]
