"""Application family for C10: the generated SDK depends on a crate other than the fixed set (a component's
signature names `helper::Greeting`), so the `[dependencies]` table of the generated manifest differs between
programs that share an output directory history."""


def plan(tier):
    return 2 if tier == "quick" else 6


def make(rng, name):
    U = name.upper()
    by_ref = rng.random() < 0.5
    items = [
        "#[pavex::request_scoped(id = \"%s_GREET\")]\npub fn greet() -> helper::Greeting { let id = fresh(); log(format!(\"ctor %s.greet {} : \", id)); helper::Greeting { id } }" % (U, name),
        "#[pavex::get(path = \"/%s/r0\", id = \"%s_H0\")]\npub fn h0(g: %shelper::Greeting) -> Response { log(format!(\"handler %s.h0 : {}\", g.id)); Response::ok() }" % (name, U, "&" if by_ref else "", name),
    ]
    bp = [["raw", "{bp}.constructor(%s_GREET);" % U, {"ctor": "greet"}], ["raw", "{bp}.route(%s_H0);" % U, {"route": "h0"}]]
    return {"name": name, "klass": "deps", "types": [], "ctors": [], "handlers": [], "mws": [], "observers": [],
            "bp": bp, "usage": {}, "extra_items": items}


def request_script(spec):
    return [{"method": "GET", "path": "/%s/r0" % spec["name"], "script": [], "tag": "deps"}]
