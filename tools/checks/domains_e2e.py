"""End-to-end reading of domain guards for C19 / C20 over the shared stage (family tools/gen_routes.py): the guard a
(nested) blueprint registers must be the guard that decides, in the generated server, which routes and fallbacks a Host
reaches. Model-free: the blueprint tree of the generated application, flattened by c07.App (innermost `.domain(..)` wins,
as the documentation of `Blueprint::domain` says and as pavex_bp_schema records it), and the trace of the real server."""
import checks.c07 as c07


class _AsC07:
    """c07.classify_known reads the recorded findings of the property it is called for: here, C07's (path-level routing
    findings such as a request for the bare prefix of a nested blueprint; a request that shows one of them is not judged)"""

    def __init__(self, R):
        self.kf = R.kf

    def known_findings(self):
        return [f for f in self.kf.get("findings", []) if f["property"] == "C07" and f.get("status") == "known"]


def domain_stage(R, pid):
    import e2e_stage
    obs, info, rt = e2e_stage.get_runtime(R)
    kf = {f["id"] for f in R.known_findings()}
    stats = {"programs_with_domains": 0, "programs_with_a_guard_nested_in_another_guard": 0, "requests": 0,
             "requests_answered_under_a_guard": 0, "requests_to_a_nested_guard": 0, "skipped_known_c07_findings": 0}
    ok = True
    n_viol = 0
    for o in obs.values():
        if o.get("klass") != "routes" or o["rc"] != 0:
            continue
        name, spec = o["name"], o["spec"]
        d = rt.get(name)
        if not d or not d.get("result") or "responses" not in d["result"]:
            continue
        app = c07.App(spec["rt"])
        if not app.domain_based:
            continue
        stats["programs_with_domains"] += 1
        nested = {b["domain"] for b in app.bps if b["domain"] and b["parent"] is not None and b["parent"]["domain"]
                  and b["parent"]["domain"] != b["domain"]}
        stats["programs_with_a_guard_nested_in_another_guard"] += 1 if nested else 0
        route_dom = {r["i"]: r["domain"] for r in app.routes}
        fb_dom = {}
        for b in app.bps:
            if b["has_fallback"]:
                fb_dom.setdefault(b["fallback"], set()).add(b["domain"])
        for req, resp in zip(d["requests"], d["result"]["responses"]):
            stats["requests"] += 1
            e = app.expect(req)
            if e["kind"] in ("undecided", "ambiguous"):
                continue
            ob = c07.observed(resp, name)
            if e["kind"] == "handler":
                want = {route_dom.get(e["i"])}
            else:
                want = set()
                for f in e["fbs"]:
                    want |= fb_dom.get(f, {None}) if f is not None else {None}
            got = route_dom.get(ob["i"]) if ob["kind"] == "handler" else (
                None if ob.get("f") is None else (next(iter(fb_dom.get(ob["f"], {None}))) if len(fb_dom.get(ob["f"], {None})) == 1 else None))
            if ob["kind"] == "fallback" and ob.get("f") is not None and len(fb_dom.get(ob["f"], {None})) > 1:
                continue     # one fallback id shared by blueprints of several domains: cannot tell
            stats["requests_answered_under_a_guard"] += 1 if got else 0
            stats["requests_to_a_nested_guard"] += 1 if (want & nested) else 0
            if got in want:
                continue
            j = c07.judge(app, req, ob)
            if j and c07.classify_known(_AsC07(R), app, spec, req, ob, j[0], j[1]) is not None:
                stats["skipped_known_c07_findings"] += 1
                continue
            ok = False
            n_viol += 1
            if n_viol <= 3:
                R.violation("implementation breaks the property: Host %r, %s %s: the blueprint registers the route / fallback that is due under the domain guard %s, "
                            "the generated server answered from under %s (%s)" % (req.get("host"), req["method"], req["path"], sorted(map(str, want)), got, ob),
                            {"program": name, "request": req, "observed": ob, "expected_domain": sorted(map(str, want)), "observed_domain": got,
                             "rt": spec["rt"], "app_module_source": o["src"]})
    R.coverage["domain_guards_e2e"] = stats
    return ok
