"""C14 — a buffered request body never exceeds the configured size limit.

L2: Pxv/Thm/C14.lean (ok_bounded, never_more_than_limit, sizeLimit_iff, ok_of_fits,
chunking_irrelevant, layered_bounded, header_cannot_admit) over Pxv/Model/Body.lean.
L3: the cfg-gated hook `BufferedBody::verif_extract_with_limit` fed arbitrary frame lists.
"""
import pxvlib

GARBAGE = [b"abc", b"+5", b"-5", b" 5", b"5 ", b"0x10", b"", b"1e3", b"007", b"+", b"5\t", b"\xff5",
           b"18446744073709551615", b"18446744073709551616", b"99999999999999999999999", b"+0", b"00"]


def gen_loopback(rng):
    """the PUBLIC `BufferedBody::extract`, reached through a real pavex server on loopback: the four ways a client can
    frame a body (HTTP/1.1 chunked or with Content-Length, HTTP/2 with or without Content-Length: there the end of the
    body is END_STREAM and no header announces it)."""
    n = rng.choice([0, 1, 2, 3, 5, 8, 16, 17, 64, 100, 255, 1000])
    length = max(0, n + rng.choice([-2, -1, 0, 0, 1, 1, 2, 7, 40])) if rng.random() < 0.7 else rng.randrange(0, 2 * n + 4)
    body = [rng.randrange(256) for _ in range(length)]
    frames, i = [], 0
    style = rng.random()
    while i < length:
        k = 1 if style < 0.2 else rng.randrange(1, max(2, length // 2 + 2))
        frames.append(body[i:i + k])
        i += k
    proto = rng.choice(["h1-chunked", "h1-cl", "h2-cl", "h2-nocl", "h2-nocl"])
    hdr = list(str(length).encode()) if proto in ("h1-cl", "h2-cl") else None
    return {"hdr": hdr, "limit": n, "frames": frames, "proto": proto}


def gen(rng):
    if rng.random() < 0.12:
        return gen_loopback(rng)
    n = rng.choice([0, 1, 2, 3, 5, 8, 16, 17, 64, 100, 255, 1000])
    mode = rng.random()
    if mode < 0.6:
        length = max(0, n + rng.choice([-2, -1, 0, 0, 1, 1, 2, 7]))
    else:
        length = rng.randrange(0, 2 * n + 4)
    body = [rng.randrange(256) for _ in range(length)]
    frames, i = [], 0
    style = rng.random()
    while i < length:
        k = 1 if style < 0.2 else rng.randrange(0, max(2, length // 2 + 2))
        frames.append(body[i:i + k])
        i += k
    for _ in range(rng.choice([0, 0, 0, 1, 2])):
        frames.insert(rng.randrange(len(frames) + 1), [])
    if rng.random() < 0.15:
        frames.insert(rng.randrange(len(frames) + 1), "trailers")
    if rng.random() < 0.08:
        frames.insert(rng.randrange(len(frames) + 1), "err")
    h = rng.random()
    if h < 0.25:
        hdr = None
    elif h < 0.5:
        hdr = list(str(length).encode())
    elif h < 0.6:
        hdr = list(str(max(0, length - rng.randrange(1, 4))).encode())
    elif h < 0.8:
        hdr = list(str(rng.choice([n, n + 1, length + 1, n + 1000, 2 ** 63, 2 ** 64 - 1])).encode())
    else:
        hdr = list(rng.choice(GARBAGE))
    return {"hdr": hdr, "limit": n, "frames": frames}


def py_content_length(hdr):
    """Independent reading of `to_str().ok()?.parse::<usize>().ok()`."""
    if hdr is None:
        return None
    if not all(b == 9 or 32 <= b < 127 for b in hdr):
        return None
    s = bytes(hdr).decode()
    if s.startswith("+"):
        s = s[1:]
    if not s or not all(c in "0123456789" for c in s):
        return None
    v = int(s)
    return v if v < 2 ** 64 else None


def oracle(case, out):
    """The property, checked on the implementation's answer alone."""
    n = case["limit"]
    sent = [b for f in case["frames"] if isinstance(f, list) for b in f]
    has_err = "err" in case["frames"]
    r = out.get("r")
    if r == "ok":
        if len(out["bytes"]) > n:
            return "handed %d bytes to the application with limit %d" % (len(out["bytes"]), n)
        if out["bytes"] != sent:
            return "buffered body differs from what the client sent"
        return None
    if r == "size-limit":
        cl = py_content_length(case["hdr"])
        if not has_err and len(sent) <= n and not (cl is not None and cl > n):
            return "size-limit error although body (%d) and Content-Length (%r) fit the limit %d" % (len(sent), cl, n)
        return None
    if r == "buffer-err":
        return None if has_err else "transport error reported without a transport failure"
    return "unexpected outcome %r" % (out,)


def nontrivial(case, out):
    sent = sum(len(f) for f in case["frames"] if isinstance(f, list))
    return abs(sent - case["limit"]) <= 2 or (case["hdr"] is not None and py_content_length(case["hdr"]) != sent)


def mutate(rng, c):
    c = dict(c)
    if "proto" in c:
        c["proto"] = rng.choice(["h1-chunked", "h2-nocl"])
        c["hdr"] = None
    c["limit"] = max(0, c["limit"] + rng.choice([-1, 0, 1]))
    return c


def run(R):
    R.assumptions += [
        "64-bit target (usize = u64)",
        "http_body_util::Limited / BodyExt::collect modelled (collectLimited), validated by this correspondence only",
        "hyper's own Content-Length enforcement on the wire is outside the model (the hook bypasses it on purpose; the loopback cases only send truthful Content-Length headers)",
        "12% of the cases go through the PUBLIC BufferedBody::extract behind a real pavex::server::Server on loopback (HTTP/1.1 chunked / Content-Length, HTTP/2 with / without Content-Length); hyper may re-chunk the frames (chunking_irrelevant)",
    ]
    R.coverage["trusted_base"].append("cfg(pavex_verif) hook BufferedBody::verif_extract_with_limit is a plain forwarder to _extract_with_limit")
    pxvlib.differential(
        R, modules=["Pxv.Thm.C14"], model="body", gen=gen, oracle=oracle, nontrivial=nontrivial, mutate=mutate,
        n_quick=5000, n_thorough=300000,
        rule="limit x body length (biased to N-2..N+2) x random frame split (empty/1-byte frames, trailers, transport errors) x "
             "Content-Length {absent, truthful, too small, too large, garbage}; 12% through a real server on loopback (h1 chunked, h1 CL, h2 CL, h2 without CL); non-trivial = body within 2 bytes of the limit or header disagreeing with the body; distinct by full input",
    )
