"""C05 — middlewares and handler run in the documented order.

L2  lean/Pxv/Thm/C05.lean: run_eq_doc (the pipeline pavexc generates = the documented order, every chain,
    every early-return choice), starts_in_registration_order, handler_at_most_once / handler_exactly_once,
    early_cuts_scope, outer_scope_independent, after_route_invisible, nested_is_snapshot, sibling_invisible.
L3  generated servers (nested blueprints, interleaved pre/post/wrap/route registrations) answer scripted
    requests over loopback; the enter/exit trace of middlewares and handler must equal the model's trace
    for the same blueprint and the same early-return choices. Oracle (model-free): a direct Python reading
    of docs/guide/middleware/execution_order.md evaluated on the blueprint.
"""
import json

import e2e_stage
import pxvlib

MW_EVENTS = ("wrap-start", "wrap-end", "pre", "early", "post", "handler")


def real_events(trace, m):
    out = []
    for l in trace:
        parts = l.split()
        if parts and parts[0] in MW_EVENTS and len(parts) >= 2 and parts[1].startswith(m + "."):
            out.append("%s %s" % (parts[0], parts[1].split(".", 1)[1]))
    return out


def py_chain(ops, route, chain=None):
    """independent reading of the scoping rules: returns the chain of `route` or None."""
    chain = list(chain or [])
    for op in ops:
        if op[0] in ("wrap", "pre", "post"):
            chain.append((op[0], op[1]))
        elif op[0] == "route" and op[1] == route:
            return chain
        elif op[0] == "nest":
            r = py_chain(op[1]["ops"], route, chain)
            if r is not None:
                return r
    return None


def py_doc(chain, h, early):
    """independent reading of the guide: segments delimited by wrapping middlewares."""
    seg, rest = [], None
    for i, (k, mid) in enumerate(chain):
        if k == "wrap":
            rest = (mid, chain[i + 1:])
            break
        seg.append((k, mid))
    out = []
    cut = False
    for k, mid in seg:
        if k == "pre":
            out.append("pre m%d" % mid)
            if mid in early:
                out.append("early m%d" % mid)
                cut = True
                break
    if not cut:
        if rest is None:
            out.append("handler h%d" % h)
        else:
            out += ["wrap-start m%d" % rest[0]] + py_doc(rest[1], h, early) + ["wrap-end m%d" % rest[0]]
    out += ["post m%d" % mid for k, mid in seg if k == "post"]
    return out


def run(R):
    R.assumptions += [
        "only middleware/handler events are compared here; constructors, error handlers and observers are C03/C04/C06",
        "a fallible middleware that fails is out of scope for C05 (its requests are used by C06)",
        "toolchain shim: installed nightly (rustdoc JSON format 57) instead of pavexc's pinned nightly",
    ]
    lean_ok, lrep = pxvlib.lean_obligations(R, ["Pxv.Thm.C05"])
    obs, info, rt = e2e_stage.get_runtime(R)
    R.coverage["e2e_stage"] = info
    lines, keys = [], []
    for name, d in rt.items():
        spec = obs[name]["spec"]
        if not d["result"] or "responses" not in d["result"]:
            continue
        if str(obs[name]["klass"]).startswith("planted"):
            continue   # re-nested by tools/gen_planted.py: the request paths of the base application do not apply
        for req, resp in zip(d["requests"], d["result"]["responses"]):
            if req.get("tag") not in ("plain", "plain-again", "early", "early-all") or "route" not in req:
                continue   # (families that render their routes themselves carry no native route index)
            lines.append(json.dumps({"bp": spec["bp"], "early": req.get("early", [])}))
            keys.append((name, req, resp))
    outs = [json.loads(x) for x in pxvlib.run_model("pipe", lines)] if lines else []
    dis, fails, seen = [], [], set()
    for (name, req, resp), ln, mo in zip(keys, lines, outs):
        spec = obs[name]["spec"]
        real = real_events(resp.get("trace", []), name)
        mroute = next((r for r in mo.get("routes", []) if r["route"] == req["route"]), None)
        model = mroute["trace"] if mroute else None
        chain = py_chain(spec["bp"], req["route"])
        expect = py_doc(chain, req["route"], set(req.get("early", []))) if chain is not None else None
        if len(chain or []) >= 2:
            seen.add((name, req["route"], tuple(req.get("early", []))))
        if expect != real:
            fails.append({"program": name, "request": req, "expected_by_the_guide": expect, "observed": real, "bp": spec["bp"],
                          "app_module_source": obs[name]["src"]})
        if model != real or (mroute and mroute["trace"] != mroute["doc"]):
            dis.append({"program": name, "request": req, "model": model, "observed": real, "bp": spec["bp"]})
    R.coverage["programs"] = len(rt)
    R.coverage["evaluations"] = len(lines)
    R.coverage["distinct_nontrivial"] = len(seen)
    R.coverage["rule"] = ("one evaluation = one request to a generated server (every route x {no early return, each pre-processor returning early, all of them}); "
                          "non-trivial = the route's chain has at least 2 middlewares; distinct by (program, route, early set)")
    R.coverage["samples"] = [{"program": k[0], "request": k[1], "observed": real_events(k[2].get("trace", []), k[0])} for k in keys[:3]]
    R.coverage["traces_validated_against_impl"] = len(lines)
    R.coverage["model_vs_impl_disagreements"] = len(dis)
    R.coverage["impl_vs_oracle_failures"] = len(fails)
    R.log("servers=%d requests=%d nontrivial=%d oracle_failures=%d disagreements=%d" % (len(rt), len(lines), len(seen), len(fails), len(dis)))
    for f in fails[:3]:
        R.violation("middlewares/handler did not run in the documented order: expected %s, observed %s" % (f["expected_by_the_guide"], f["observed"]), f)
    broken = []
    if not lean_ok:
        broken.append("proof obligations of Pxv.Thm.C05 no longer check: %s" % (lrep.get("errors") or lrep.get("bad_axioms") or lrep.get("forbidden_tokens")))
    if dis and not fails:
        broken.append("correspondence `pipe`: model trace differs from the generated server's trace on %d request(s), first: %s" % (len(dis), json.dumps(dis[0])[:500]))
    if broken and not fails:
        R.violation(" | ".join(broken), {"broken": broken, "theorem_module": "Pxv.Thm.C05", "cases": dis[:3]}, no_failing_input=True)
