"""C12 — session cookies are never emitted unprotected and never leak the id.

L1: Pxv/Model/Session.lean (`finalizeSession`, `willEncrypt`/`willSign`, `setAttrs`/`wireAttrs`/`removalAttrs`,
    `outgoingAlg`, `respond`, `debugView`).
L2: Pxv/Thm/C12.lean.
L3: the same harness and protocol as C11 (harness/crates/sess, model `session`), here with every crypto
    configuration, which may change from request to request (key / algorithm rotation with fallbacks, roll-back,
    rules moved or dropped: the cookie a request presents may have been written by another processor) and with
    incoming sessions assembled by hand (`IncomingSession::from_parts`): algorithm none/sign/encrypt x rule registered for the cookie name, for another name, or for
    the percent-encoded name x percent-encoding on/off x cookie names with and without characters that get
    percent-encoded; every cookie attribute combination; random histories leading to finalisation.

The oracle judges the bytes of the real `Set-Cookie` header (is the value plain / signed / encrypted, which
attributes does it carry) and the real `Debug` output, without asking the processor and without the model.
"""
import json

import pxvlib
from checks import c11

NAMES = ["id", "sid", "__Host-s", "my id", "s:id", "sess(1)", "a%b"]

# what the generated requests looked like (counted by the oracle's reference, written into the evidence)
SCEN = {}


def count(k):
    SCEN[k] = SCEN.get(k, 0) + 1


def gen_crypto(rng, name):
    """One processor: algorithm x which name the rule is registered for x percent-encoding; key 0, no fallbacks."""
    r = rng.random()
    alg = "none" if r < 0.15 else ("sign" if r < 0.45 else "encrypt")
    r = rng.random()
    if r < 0.7:
        rule = name
    elif r < 0.85:
        rule = c11.pct_name(name)
    else:
        rule = rng.choice(["other", "id", "ID", name + " "])
    return {"alg": alg, "name": rule, "percent_encode": rng.random() < 0.85, "key": 0, "fallbacks": []}


def rotate(rng, cur, past, name, nkeys):
    """The processor of the next deployment: what operators do to a crypto rule between two requests."""
    new = json.loads(json.dumps(cur))
    old = [cur["alg"], cur["key"]] if cur["alg"] != "none" else None
    r = rng.random()
    if r < 0.30:      # key rotation, same algorithm; the old key stays readable (or not)
        new["key"] = nkeys[0]
        nkeys[0] += 1
    elif r < 0.62:    # algorithm rotation (encrypt <-> sign), fresh or same key
        new["alg"] = {"encrypt": "sign", "sign": "encrypt", "none": rng.choice(["sign", "encrypt"])}[cur["alg"]]
        if rng.random() < 0.7:
            new["key"] = nkeys[0]
            nkeys[0] += 1
    elif r < 0.72:    # roll back to an earlier processor
        return json.loads(json.dumps(rng.choice(past)))
    elif r < 0.80:    # crypto switched off / rule moved to another name
        if rng.random() < 0.5:
            new["alg"] = "none"
        else:
            new["name"] = rng.choice([name, c11.pct_name(name), "other"])
    elif r < 0.86:
        new["percent_encode"] = not cur["percent_encode"]
    else:             # only the fallback list changes
        pass
    keep = [f for f in cur["fallbacks"] if rng.random() < 0.6]
    fb = ([old] if old and rng.random() < 0.8 else []) + keep
    if rng.random() < 0.15:   # a fallback nobody ever used / the same key under the other algorithm
        fb.append([rng.choice(["sign", "encrypt"]), rng.choice([new["key"], nkeys[0] + 7])])
    new["fallbacks"] = [f for i, f in enumerate(fb) if f not in fb[:i] and f != [new["alg"], new["key"]]][:3]
    return new


def gen_client(rng):
    n = rng.choice([0, 1, 1, 1, 2])
    return {k: rng.choice(c11.VALS) for k in rng.sample(c11.KEYS, n)}


def gen(rng):
    cfg = c11.gen_cfg(rng)
    ck = cfg["cookie"]
    ck.update({
        "name": rng.choice(NAMES[:3] * 3 + NAMES[3:]),
        "domain": rng.choice([None, None, "example.com", "a.example.com"]),
        "path": rng.choice([None, "/", "/app"]),
        "secure": rng.random() < 0.5, "http_only": rng.random() < 0.5,
        "same_site": rng.choice([None, "strict", "lax", "none"]),
        "kind": rng.choice(["persistent", "session"]),
    })
    cur = gen_crypto(rng, ck["name"])
    # family: "static" one processor for the whole history (as deployed most of the time);
    #         "rotating" the processor changes between requests; "live" = rotating, and the first request
    #         leaves a readable cookie with client-side state behind (encrypting processor, rule in place)
    family = rng.choice(["static", "static", "rotating", "rotating", "live"])
    if family == "live":
        cur.update({"alg": "encrypt", "name": ck["name"]})
    elif family == "rotating" and rng.random() < 0.75:   # mostly start from a working deployment
        cur.update({"alg": rng.choice(["sign", "encrypt", "encrypt"]), "name": ck["name"]})
    cfg["crypto"] = {k: cur[k] for k in ("alg", "name", "percent_encode")}
    past, nkeys = [cur], [1]
    reqs = []
    nreq = rng.choice([1, 1, 2, 3, 4]) if family == "static" else rng.choice([2, 2, 3, 4, 5])
    for i in range(nreq):
        nops = rng.choice([0, 1, 2, 3, 5])
        ops = [c11.gen_op(rng) for _ in range(nops)]
        r = rng.random()
        if r < 0.4:     # server-side only: a signed cookie is enough (unless client state is carried over)
            ops = [o for o in ops if not o[0].startswith("c.")]
        elif r < 0.55:  # the client side is only looked at
            ops = [o if not o[0].startswith("c.") else rng.choice([["c.get", "a"], ["c.is_empty"], ["c.remove", "zz"]]) for o in ops]
        if not ops and rng.random() < 0.7:
            ops = [["s.insert", "a", 1]]
        if family == "live" and i == 0:
            ops = [o for o in ops if o[0] not in ("invalidate", "c.clear", "c.remove", "c.remove_t")] + [["c.insert", rng.choice(c11.KEYS), rng.choice(c11.VALS)]]
        r = rng.random()
        if i == 0 or r < 0.80:
            src = "jar"
        elif r < 0.90:  # the incoming session is built by hand
            src = {"parts": rng.randrange(i + 1) if rng.random() < 0.1 else rng.randrange(i), "client": gen_client(rng)}
        else:
            src = rng.choice(["none", "tampered", "tampered", rng.randrange(i)])
        rq = {"src": src, "expire": rng.random() < 0.03, "rem": c11.gen_rem(rng, cfg), "ops": ops}
        if family != "static":
            if i > 0 and rng.random() < 0.6:
                cur = rotate(rng, cur, past, ck["name"], nkeys)
                past.append(cur)
            rq["crypto"] = cur
        reqs.append(rq)
    return {"cfg": cfg, "requests": reqs}


def oracle(case, out):
    if not isinstance(out, dict) or out.get("r") != "ok":
        return "harness did not complete the history: %r" % (out,)
    cfg = case["cfg"]
    ck = cfg["cookie"]
    ref = c11.Ref(cfg)
    problems, known = [], []
    if len(out["reqs"]) != len(case["requests"]):
        return "answered %d requests out of %d" % (len(out["reqs"]), len(case["requests"]))
    for i, (rq, got) in enumerate(zip(case["requests"], out["reqs"])):
        exp = ref.request(rq)
        cr = rq.get("crypto") or cfg["crypto"]   # the processor in force for this request
        count("session source: " + exp["how"])
        if i > 0 and cr != (case["requests"][i - 1].get("crypto") or cfg["crypto"]):
            count("processor differs from the previous request's")
        if exp["presented"] and exp["presented"][1] and not exp["cli_dirty"]:
            enc = cr["alg"] == "encrypt" and cr.get("name") == ck["name"]
            count("client-side state carried over untouched, processor %s" % ("encrypts" if enc else "does not encrypt"))
        P = lambda msg: problems.append("request %d: %s" % (i, msg))
        gf, ef = got["fin"], exp["fin"]
        if got.get("leak"):
            P("Debug output of the session contains a session id")
        if (exp["presented"] is None) != (got.get("in") is None):
            P("the request started %s a session, the cookie rules say the opposite (in=%r)" % (
                "with" if got.get("in") is not None else "without", got.get("in")))
        if gf.get("r") in ("set", "removal"):
            # (1) never unprotected, (2) client state only encrypted -- judged from the header bytes
            prot = gf.get("prot")
            msg = None
            if prot == "plain":
                msg = "a session cookie went out neither signed nor encrypted"
            elif gf["r"] == "set" and gf.get("client") and prot != "encrypted":
                msg = "a session cookie carrying client-side state went out without encryption (%s)" % prot
            if msg:
                if cr.get("percent_encode", True) and c11.needs_pct(ck["name"]) and cr["name"] == ck["name"]:
                    known.append("N1 request %d: %s" % (i, msg))
                else:
                    P(msg)
            # (3) attributes = configuration
            a = gf["attrs"]
            want = {"name": ck["name"], "domain": ck["domain"], "path": ck["path"]}
            if gf["r"] == "set":
                want.update({"http_only": ck["http_only"], "same_site": ck["same_site"],
                             "max_age": cfg["ttl"] if ck["kind"] == "persistent" else None})
                if ck["secure"] and not a.get("secure"):
                    P("Secure is configured but missing on the cookie")
                if a.get("secure") and not ck["secure"] and ck["same_site"] != "none":
                    P("Secure is set although not configured")
            bad = {k: (a.get(k), v) for k, v in want.items() if a.get(k) != v}
            if bad:
                P("cookie attributes differ from the configuration: %s" % json.dumps(bad))
        if gf.get("r") == "err" and gf.get("set", 0) != 0:
            P("the request failed (%s) but %d cookie(s) were left in the response" % (gf.get("kind"), gf["set"]))
        # the decision itself: cookie / error exactly as the documented rule says
        if ef["r"] != gf.get("r") or (ef["r"] == "err" and ef["kind"] != gf.get("kind")):
            if exp["f7"]:
                pass
            else:
                P("finalisation: got %s, the rule says %s" % (
                    json.dumps({k: v for k, v in gf.items() if k != "attrs"}), json.dumps(ef, default=str)))
        elif ef["r"] == "set" and pxvlib.canon(json.dumps(gf.get("client"))) != pxvlib.canon(json.dumps(ef["client"])):
            if not (gf.get("client") is None and gf.get("prot") != "plain"):
                P("cookie carries client state %s, expected %s" % (json.dumps(gf.get("client")), json.dumps(ef["client"])))
    if problems:
        return problems[0] + (" (+%d more)" % (len(problems) - 1) if len(problems) > 1 else "")
    if known:
        return "KNOWN:N1 " + known[0]
    return None


def nontrivial(case, out):
    """A cookie decision was actually taken: some request ended in a cookie or in a crypto refusal."""
    if not isinstance(out, dict) or out.get("r") != "ok":
        return False
    return any(r["fin"].get("r") in ("set", "removal") or
               (r["fin"].get("r") == "err" and r["fin"].get("kind") in ("encryption-required", "crypto-required"))
               for r in out["reqs"])


def src_kind(rq):
    src = rq.get("src", "jar")
    return "parts" if isinstance(src, dict) else ("replay" if isinstance(src, int) else src)


def case_key(c):
    cfg = c["cfg"]
    return json.dumps([cfg["cookie"], cfg["crypto"],
                       [[r.get("crypto"), src_kind(r), [o[0] for o in r["ops"]]] for r in c["requests"]]], sort_keys=True)


def match_known(R):
    def m(case, why):
        if why.startswith("KNOWN:N1"):
            for f in R.known_findings():
                if f["id"] == "C12-N1":
                    return f
        return None
    return m


def mutate(rng, c):
    c = json.loads(json.dumps(c))
    name = c["cfg"]["cookie"]["name"]
    rq = rng.choice(c["requests"]) if c["requests"] else None
    r = rng.random()
    if rq is None or r < 0.3:
        c["cfg"]["crypto"]["alg"] = rng.choice(["none", "sign", "encrypt"])
        if rng.random() < 0.5:
            c["cfg"]["crypto"]["name"] = name
    elif r < 0.8:
        cur = rq.get("crypto") or dict(c["cfg"]["crypto"], key=0, fallbacks=[])
        cur.setdefault("key", 0)
        cur.setdefault("fallbacks", [])
        rq["crypto"] = rotate(rng, cur, [cur], name, [10])
    else:
        rq["ops"] = [o for o in rq["ops"] if not o[0].startswith("c.") or o[0] in c11.READS]
    return c


RULE = ("first processor: crypto algorithm {none 15%, sign 30%, encrypt 55%} x rule registered for {the cookie name 70%, its percent-encoded form 15%, "
        "another name (other, id, ID, name+space) 15%} x percent-encoding {on 85%, off} x cookie names {id, sid, __Host-s, 'my id', 's:id', 'sess(1)', 'a%b'} x "
        "domain/path/Secure/HttpOnly/SameSite/kind all combinations. Families: static 40% (one processor, 1-4 requests), rotating 40% and live 20% "
        "(2-5 requests, each request names its processor; before each later request with 60% the processor is rotated: new key 30%, algorithm "
        "encrypt<->sign 32%, roll-back to an earlier processor 10%, crypto off / rule moved 8%, percent-encoding toggled 6%, fallbacks only 14%; "
        "in the rotating family the first processor has its rule in place with 75%; the previous primary is kept as a fallback with 80%, older fallbacks with 60% each, a never-used fallback 15%; live = the first request runs under "
        "an encrypting processor and inserts client-side state). Requests: 0-5 random session operations (40% server-side only, 15% client side read-only); "
        "session source: jar 80%, IncomingSession::from_parts(id of an issued cookie, 0-2 random client entries) 10%, none / tampered / replay of an older "
        "cookie 10%. non-trivial = at least one request ends in a cookie or in a crypto refusal; distinct by (cookie config, per-request processors, sources, operation names)")


def run(R):
    R.assumptions += [
        "biscotti's AEAD/HMAC are not modelled: 'signed'/'encrypted' is judged from the wire format (base64(MAC|value) / not parseable)",
        "the Processor holds one crypto rule (primary + fallbacks); two cookies protected with different keys or algorithms are never readable by each other's configuration (AEAD/HMAC soundness); percent-decoding a JSON payload that was not encoded is the identity (generated values contain no '%')",
        "the session cookie configuration is fixed per history; the processor may change per request",
        "IncomingSession::from_parts is exercised with ids of cookies issued earlier in the history (an unknown id = such an id after external expiry)",
        "histories as in C11 (same harness, same model)",
    ]
    R.coverage["trusted_base"].append("harness classification of the Set-Cookie bytes (plain / signed / encrypted) and its UUID scan of the Debug output")
    pxvlib.differential(
        R, modules=["Pxv.Thm.C12"], model="session", pkg="sess", gen=gen, oracle=oracle, nontrivial=nontrivial,
        mutate=mutate, match_known=match_known(R), case_key=case_key, n_quick=4000, n_thorough=150000, rule=RULE, batch=5000,
    )
    R.coverage["request_scenarios"] = dict(sorted(SCEN.items()))
