"""C12 — session cookies are never emitted unprotected and never leak the id.

L1: Pxv/Model/Session.lean (`finalizeSession`, `willEncrypt`/`willSign`, `setAttrs`/`wireAttrs`/`removalAttrs`,
    `outgoingAlg`, `respond`, `debugView`).
L2: Pxv/Thm/C12.lean.
L3: the same harness and protocol as C11 (harness/crates/sess, model `session`), here with every crypto
    configuration: algorithm none/sign/encrypt x rule registered for the cookie name, for another name, or for
    the percent-encoded name x percent-encoding on/off x cookie names with and without characters that get
    percent-encoded; every cookie attribute combination; random histories leading to finalisation.

The oracle judges the bytes of the real `Set-Cookie` header (is the value plain / signed / encrypted, which
attributes does it carry) and the real `Debug` output, without asking the processor and without the model.
"""
import json

import pxvlib
from checks import c11

NAMES = ["id", "sid", "__Host-s", "my id", "s:id", "sess(1)", "a%b"]


def gen(rng):
    cfg = c11.gen_cfg(rng)
    ck = cfg["cookie"]
    ck.update({
        "name": rng.choice(NAMES[:3] * 3 + NAMES[3:]),
        "domain": rng.choice([None, None, "example.com", "a.example.com"]),
        "path": rng.choice([None, "/", "/app"]),
        "secure": rng.random() < 0.5, "http_only": rng.random() < 0.5,
        "same_site": rng.choice([None, "strict", "lax", "none"]),
        "kind": rng.choice(["persistent", "session"]),
    })
    r = rng.random()
    alg = "none" if r < 0.15 else ("sign" if r < 0.45 else "encrypt")
    r = rng.random()
    if r < 0.7:
        rule = ck["name"]
    elif r < 0.85:
        rule = c11_pct(ck["name"])
    else:
        rule = rng.choice(["other", "id", "ID", ck["name"] + " "])
    cfg["crypto"] = {"alg": alg, "name": rule, "percent_encode": rng.random() < 0.85}
    reqs = []
    for i in range(rng.choice([1, 1, 2, 3, 4])):
        nops = rng.choice([0, 1, 2, 3, 5])
        ops = [c11.gen_op(rng) for _ in range(nops)]
        if rng.random() < 0.5:  # server-side only: a signed cookie is enough
            ops = [o for o in ops if not o[0].startswith("c.")]
        if not ops and rng.random() < 0.7:
            ops = [["s.insert", "a", 1]]
        src = "jar" if i == 0 or rng.random() < 0.88 else rng.choice(["none", "tampered", "tampered", rng.randrange(i)])
        reqs.append({"src": src, "expire": rng.random() < 0.03, "rem": c11.gen_rem(rng, cfg), "ops": ops})
    return {"cfg": cfg, "requests": reqs}


def c11_pct(name):
    return "".join("%%%02X" % b if c11.needs_pct(chr(b)) else chr(b) for b in name.encode())


def oracle(case, out):
    if not isinstance(out, dict) or out.get("r") != "ok":
        return "harness did not complete the history: %r" % (out,)
    cfg = case["cfg"]
    ck, cr = cfg["cookie"], cfg["crypto"]
    ref = c11.Ref(cfg)
    problems, known = [], []
    for i, (rq, got) in enumerate(zip(case["requests"], out["reqs"])):
        exp = ref.request(rq)
        P = lambda msg: problems.append("request %d: %s" % (i, msg))
        gf, ef = got["fin"], exp["fin"]
        if got.get("leak"):
            P("Debug output of the session contains a session id")
        if gf.get("r") in ("set", "removal"):
            # (1) never unprotected, (2) client state only encrypted -- judged from the header bytes
            prot = gf.get("prot")
            msg = None
            if prot == "plain":
                msg = "a session cookie went out neither signed nor encrypted"
            elif gf["r"] == "set" and gf.get("client") and prot != "encrypted":
                msg = "a session cookie carrying client-side state went out without encryption (%s)" % prot
            if msg:
                if cr.get("percent_encode", True) and c11.needs_pct(ck["name"]) and cr["name"] == ck["name"]:
                    known.append("N1 request %d: %s" % (i, msg))
                else:
                    P(msg)
            # (3) attributes = configuration
            a = gf["attrs"]
            want = {"name": ck["name"], "domain": ck["domain"], "path": ck["path"]}
            if gf["r"] == "set":
                want.update({"http_only": ck["http_only"], "same_site": ck["same_site"],
                             "max_age": cfg["ttl"] if ck["kind"] == "persistent" else None})
                if ck["secure"] and not a.get("secure"):
                    P("Secure is configured but missing on the cookie")
                if a.get("secure") and not ck["secure"] and ck["same_site"] != "none":
                    P("Secure is set although not configured")
            bad = {k: (a.get(k), v) for k, v in want.items() if a.get(k) != v}
            if bad:
                P("cookie attributes differ from the configuration: %s" % json.dumps(bad))
        if gf.get("r") == "err" and gf.get("set", 0) != 0:
            P("the request failed (%s) but %d cookie(s) were left in the response" % (gf.get("kind"), gf["set"]))
        # the decision itself: cookie / error exactly as the documented rule says
        if ef["r"] != gf.get("r") or (ef["r"] == "err" and ef["kind"] != gf.get("kind")):
            if exp["f7"]:
                pass
            else:
                P("finalisation: got %s, the rule says %s" % (
                    json.dumps({k: v for k, v in gf.items() if k != "attrs"}), json.dumps(ef, default=str)))
        elif ef["r"] == "set" and pxvlib.canon(json.dumps(gf.get("client"))) != pxvlib.canon(json.dumps(ef["client"])):
            if not (gf.get("client") is None and gf.get("prot") != "plain"):
                P("cookie carries client state %s, expected %s" % (json.dumps(gf.get("client")), json.dumps(ef["client"])))
    if problems:
        return problems[0] + (" (+%d more)" % (len(problems) - 1) if len(problems) > 1 else "")
    if known:
        return "KNOWN:N1 " + known[0]
    return None


def nontrivial(case, out):
    """A cookie decision was actually taken: some request ended in a cookie or in a crypto refusal."""
    if not isinstance(out, dict) or out.get("r") != "ok":
        return False
    return any(r["fin"].get("r") in ("set", "removal") or
               (r["fin"].get("r") == "err" and r["fin"].get("kind") in ("encryption-required", "crypto-required"))
               for r in out["reqs"])


def case_key(c):
    cfg = c["cfg"]
    return json.dumps([cfg["cookie"], cfg["crypto"], [[o[0] for o in r["ops"]] for r in c["requests"]]], sort_keys=True)


def match_known(R):
    def m(case, why):
        if why.startswith("KNOWN:N1"):
            for f in R.known_findings():
                if f["id"] == "C12-N1":
                    return f
        return None
    return m


def mutate(rng, c):
    c = json.loads(json.dumps(c))
    c["cfg"]["crypto"]["alg"] = rng.choice(["none", "sign", "encrypt"])
    if rng.random() < 0.5:
        c["cfg"]["crypto"]["name"] = c["cfg"]["cookie"]["name"]
    return c


RULE = ("crypto algorithm {none 15%, sign 30%, encrypt 55%} x rule registered for {the cookie name 70%, its percent-encoded form 15%, "
        "another name (other, id, ID, name+space) 15%} x percent-encoding {on 85%, off} x cookie names {id, sid, __Host-s, 'my id', 's:id', 'sess(1)', 'a%b'} x "
        "domain/path/Secure/HttpOnly/SameSite/kind all combinations x 1-4 requests of 0-5 random session operations (half of the "
        "histories server-side only). non-trivial = at least one request ends in a cookie or in a crypto refusal; distinct by "
        "(cookie config, crypto config, operation names)")


def run(R):
    R.assumptions += [
        "biscotti's AEAD/HMAC are not modelled: 'signed'/'encrypted' is judged from the wire format (base64(MAC|value) / not parseable)",
        "the Processor holds one crypto rule; fallback keys are irrelevant for outgoing cookies",
        "histories as in C11 (same harness, same model)",
    ]
    R.coverage["trusted_base"].append("harness classification of the Set-Cookie bytes (plain / signed / encrypted) and its UUID scan of the Debug output")
    pxvlib.differential(
        R, modules=["Pxv.Thm.C12"], model="session", pkg="sess", gen=gen, oracle=oracle, nontrivial=nontrivial,
        mutate=mutate, match_known=match_known(R), case_key=case_key, n_quick=4000, n_thorough=150000, rule=RULE, batch=5000,
    )
