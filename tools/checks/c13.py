"""C13 — session stores behave like a map with expiry, under concurrency too.

L2: Pxv/Thm/C13.lean over Pxv/Model/Store.lean (memory backend method by method, SQLite backend
    statement by statement, the specification `specStep`, interleavings of atomic calls).
L3: harness/crates/c13 drives the REAL `InMemorySessionStore` and `SqliteSessionStore` through the
    `SessionStorageBackend` trait on generated histories; the compiled Lean model answers the same
    histories. Two-phase protocol: the implementation runs first; what it *chose* where the code
    leaves a choice (which expired records a batched `delete_expired` removed; how concurrent calls
    interleaved) is handed to the model as the value of the model's explicit choice parameter
    (`ord`; the schedule is searched for). Everything else is compared verbatim.
    Source shape (every run): the atomicity facts the linearizability theorem assumes and the SQL
    text of every statement are re-extracted from the Rust sources.
Oracle: an independent Python reference map (`Ref`) replays every answer of the implementation.
"""
import concurrent.futures
import json
import os
import re
import shutil

import pxvlib

MODULES = ["Pxv.Thm.C13"]
PKG = "c13"
WHICH = "store"
LONG = 3600000  # ms
HUGE = 200000000000000  # ms, ~6300 years: close to the largest TTL jiff's Timestamp can absorb (beyond it both backends panic)

# ------------------------------------------------------------------------------------------------
# source shape
# ------------------------------------------------------------------------------------------------

MEM_RS = "runtime/sessions/pavex_session_memory_store/src/lib.rs"
SQL_RS = "runtime/sessions/pavex_session_sqlx/src/sqlite.rs"
METHODS = ["create", "update", "update_ttl", "load", "delete", "change_id", "delete_expired"]


def _strip_rust_comments(src):
    out, i, n = [], 0, len(src)
    while i < n:
        c = src[i]
        if c == '"':  # string literal: copy verbatim
            j = i + 1
            while j < n and src[j] != '"':
                j += 2 if src[j] == "\\" else 1
            out.append(src[i:j + 1])
            i = j + 1
        elif src.startswith("//", i):
            j = src.find("\n", i)
            i = n if j < 0 else j
        elif src.startswith("/*", i):
            j = src.find("*/", i)
            i = n if j < 0 else j + 2
        else:
            out.append(c)
            i += 1
    return "".join(out)


def _block(src, start):
    """src[start] == '{' -> text between the matching braces (string-literal aware)."""
    assert src[start] == "{"
    depth, i, n = 0, start, len(src)
    while i < n:
        c = src[i]
        if c == '"':
            i += 1
            while i < n and src[i] != '"':
                i += 2 if src[i] == "\\" else 1
        elif c == "{":
            depth += 1
        elif c == "}":
            depth -= 1
            if depth == 0:
                return src[start + 1:i]
        i += 1
    raise ValueError("unbalanced braces")


def _trait_methods(src, impl_header):
    src = _strip_rust_comments(src)
    m = re.search(re.escape(impl_header) + r"\s*\{", src)
    if not m:
        raise ValueError("impl block not found: " + impl_header)
    body = _block(src, m.end() - 1)
    out = {}
    for fm in re.finditer(r"\basync\s+fn\s+(\w+)\s*\(", body):
        # skip the signature up to the body's opening brace (no braces occur in these signatures)
        k = body.find("{", fm.end())
        out[fm.group(1)] = _block(body, k)
    return out, src


def _rust_string_literals(text):
    """Values of the plain string literals in `text` (handles `\\`-newline continuations)."""
    vals = []
    for m in re.finditer(r'"((?:[^"\\]|\\.|\\\n)*)"', text, flags=re.S):
        raw = m.group(1)
        raw = re.sub(r"\\\n\s*", "", raw)
        raw = raw.replace('\\"', '"').replace("\\\\", "\\")
        vals.append(raw)
    return vals


def _norm_sql(s):
    return " ".join(s.split())


def source_shape(R, model_sql):
    """Returns a list of problems (empty = the structural assumptions still hold)."""
    problems, facts = [], {}
    # --- memory backend: mutex first, nothing else awaited, helpers synchronous
    try:
        meths, src = _trait_methods(pxvlib.src_text(MEM_RS), "impl SessionStorageBackend for InMemorySessionStore")
        for name in METHODS:
            if name not in meths:
                problems.append("memory: trait method `%s` not found" % name)
                continue
            b = meths[name]
            first = b.strip().split(";")[0].strip()
            awaits = len(re.findall(r"\.await\b", b))
            facts["mem." + name] = {"first_statement": first, "awaits": awaits}
            if " ".join(first.split()) != "let mut guard = self.0.lock().await":
                problems.append("memory: `%s` does not take the mutex first (first statement: %r)" % (name, first))
            if awaits != 1:
                problems.append("memory: `%s` awaits %d times (model assumes: only the mutex)" % (name, awaits))
            if re.search(r"\bdrop\s*\(\s*guard\s*\)|\bspawn\b|\bselect!|\byield_now\b", b):
                problems.append("memory: `%s` releases the guard or spawns/yields inside the body" % name)
        for helper in ["get_mut_if_fresh", "_delete"]:
            hm = re.search(r"(async\s+)?fn\s+" + helper + r"\b[^{]*\{", src)
            if not hm:
                problems.append("memory: helper `%s` not found" % helper)
            else:
                hb = _block(src, hm.end() - 1)
                if hm.group(1) or ".await" in hb:
                    problems.append("memory: helper `%s` is async / awaits" % helper)
        if not re.search(r"pub struct InMemorySessionStore\(Arc<Mutex<HashMap<SessionId, StoreRecord>>>\);", src):
            problems.append("memory: the store is no longer a single `Arc<Mutex<HashMap<..>>>`")
        if not re.search(r"fn is_stale\(&self\) -> bool \{\s*self\.deadline <= Timestamp::now\(\)\s*\}", src):
            problems.append("memory: `StoreRecord::is_stale` is no longer `self.deadline <= Timestamp::now()`")
    except Exception as e:  # extraction failure = broken tie
        problems.append("memory: source-shape extraction failed: %r" % (e,))
    # --- SQLite backend: one statement per method, SQL text = the text the model was written for
    try:
        meths, src = _trait_methods(pxvlib.src_text(SQL_RS), "impl SessionStorageBackend for SqliteSessionStore")
        found = {}
        for name in METHODS:
            if name not in meths:
                problems.append("sqlite: trait method `%s` not found" % name)
                continue
            b = meths[name]
            awaits = len(re.findall(r"\.await\b", b))
            sqls = []
            for qm in re.finditer(r"sqlx::query\s*\(", b):
                # argument text up to the matching parenthesis
                depth, i = 0, qm.end() - 1
                while True:
                    ch = b[i]
                    if ch == '"':
                        i += 1
                        while b[i] != '"':
                            i += 2 if b[i] == "\\" else 1
                    elif ch == "(":
                        depth += 1
                    elif ch == ")":
                        depth -= 1
                        if depth == 0:
                            break
                    i += 1
                lits = _rust_string_literals(b[qm.end():i])
                if len(lits) != 1:
                    problems.append("sqlite: `%s`: query text is not a single string literal" % name)
                sqls += [_norm_sql(x) for x in lits]
            facts["sqlite." + name] = {"awaits": awaits, "statements": sqls}
            if awaits != 1:
                problems.append("sqlite: `%s` awaits %d times (model assumes one statement = one await)" % (name, awaits))
            if re.search(r"\bbegin\s*\(|\btransaction\b|\bspawn\b", b):
                problems.append("sqlite: `%s` uses a transaction or spawns" % name)
            if name == "delete_expired":
                if len(sqls) != 2 or len(re.findall(r"\.execute\s*\(", b)) != 1:
                    problems.append("sqlite: `delete_expired` is no longer `if batch {q1} else {q2}` + one execute")
                else:
                    found["delete_expired/batch"], found["delete_expired/all"] = sqls[0], sqls[1]
            else:
                if len(sqls) != 1:
                    problems.append("sqlite: `%s` has %d statements (model: exactly one)" % (name, len(sqls)))
                else:
                    found[name] = sqls[0]
        for k in sorted(set(found) | set(model_sql)):
            if found.get(k) != model_sql.get(k):
                problems.append("sqlite: SQL text of `%s` changed: source has %r, the model was written for %r" % (
                    k, found.get(k), model_sql.get(k)))
        for pat, what in [
            (r"if r\.rows_affected\(\) == 0 \{\s*return Err\(UnknownIdError", "rows_affected == 0 => UnknownId"),
            (r'e\.code\(\) == Some\("1555"\.into\(\)\)', "PRIMARY KEY violation (1555) => DuplicateId"),
            (r"let deadline_unix = deadline\.as_second\(\);", "create stores (now + ttl).as_second()"),
            (r"let new_deadline_unix = new_deadline\.as_second\(\);", "update stores (now + ttl).as_second()"),
            (r"id TEXT PRIMARY KEY", "id is the primary key"),
        ]:
            if not re.search(pat, src):
                problems.append("sqlite: expected source pattern gone: " + what)
    except Exception as e:
        problems.append("sqlite: source-shape extraction failed: %r" % (e,))
    R.coverage["source_shape"] = {"facts": facts, "problems": problems}
    return problems


# ------------------------------------------------------------------------------------------------
# generator
# ------------------------------------------------------------------------------------------------

EXOTIC = [
    {}, {"k": None}, {"": ""}, {"a\u0000b": "\u0000"}, {"é": "ü", "日本": ["語", {"n": 1}]},
    {"emoji": "😀", "astral": "\U0001d11e"}, {"n": 9007199254740993}, {"n": 18446744073709551615},
    {"n": -9223372036854775808}, {"f": 1e308}, {"f": 5e-324}, {"f": 0.1}, {"f": 1.0}, {"i": 1}, {"i": "1"},
    {"t": True}, {"t": False}, {"q": "\"\\\n\r\t  \u007f"}, {"'; DROP TABLE sessions; --": "' OR 1=1 --"},
    {"deep": [[[[[[[[[[{"x": [[[[[[]]]]]]}]]]]]]]]]]}, {"long": "x" * 5000}, {"a": 1, "b": 2, "c": {"b": 2, "a": 1}},
    {"f": -1.5e-7}, {"n": 100000000000000000000}, {"user_id": "u-1", "roles": ["admin", "ops"], "mfa": {"ok": True, "at": 1700000000}},
    {"é": 1, "é": 2}, {"null": None, "arr": [None, None]}, {"bom": "﻿", "nbsp": " "},
]


def gen_states(rng):
    k = rng.randrange(2, 5)
    out, seen = [], set()
    while len(out) < k:
        s = rng.choice(EXOTIC) if rng.random() < 0.8 else {"r%d" % rng.randrange(3): rng.randrange(-5, 5)}
        key = json.dumps(s, sort_keys=True)
        if key not in seen:
            seen.add(key)
            out.append(s)
    return out


def gen_op(rng, ids, ns, ttls, advs, allow_adv=True, allow_batch=True):
    x = rng.random()
    i = rng.choice(ids)
    if x < 0.24:
        return ["create", i, rng.randrange(ns), rng.choice(ttls)]
    if x < 0.34:
        return ["update", i, rng.randrange(ns), rng.choice(ttls)]
    if x < 0.43:
        return ["update_ttl", i, rng.choice(ttls)]
    if x < 0.62:
        return ["load", i]
    if x < 0.69:
        return ["delete", i]
    if x < 0.79:
        return ["change_id", i, rng.choice(ids)]
    if x < 0.87:
        return ["delete_expired", rng.choice([None, None, 1, 2, 3]) if allow_batch else None]
    if allow_adv:
        return ["advance", rng.choice(advs)]
    return ["load", i]


def time_alphabet(backend, mode):
    """(q, ttls, advances): chosen so that no answer depends on a wall-clock race (see harness)."""
    if mode == "virtual":
        if backend == "mem":
            return 500, [0, 0, 500, 1000, 1500, 2000, 5000, LONG, LONG, HUGE], [500, 1000, 1500, 2000, 5000]
        return 1000, [0, 0, 1000, 2000, 3000, 5000, LONG, LONG, HUGE], [1000, 1000, 2000, 3000, 5000]
    # real sleeps: memory deadlines sit 250 ms off the 500 ms sleep grid (so remaining TTLs are = 250 mod 500 and
    # rounding up to q = 500 absorbs the scheduling jitter in either direction); SQLite starts 20 ms into a second
    if backend == "mem":
        return 500, [0, 250, 750, 1250, 1750, LONG + 250], [500, 1000]
    return 250, [0, 250, 750, 1250, 1750, 2250, LONG], [500, 1000]


def gen_seq(rng, mode="virtual"):
    backend = rng.choice(["mem", "sqlite"])
    q, ttls, advs = time_alphabet(backend, mode)
    ids = list(range(rng.choice([2, 3, 3, 4])))
    states = gen_states(rng)
    n = rng.randrange(3, 26) if mode == "virtual" else rng.randrange(4, 14)
    ops = [gen_op(rng, ids, len(states), ttls, advs) for _ in range(n)]
    if mode == "real":  # bound the sleeping time of one history
        budget, out = 3000, []
        for o in ops:
            if o[0] == "advance":
                if budget < o[1]:
                    continue
                budget -= o[1]
            out.append(o)
        ops = out
    c = {"kind": "seq", "backend": backend, "mode": mode, "q": q, "states": states, "ops": ops}
    if mode == "real":
        c["phase"] = 20 if backend == "sqlite" else 0
        c["slack"] = 180
    return c


def gen_malformed(rng):
    c = gen_seq(rng)
    k = rng.randrange(len(c["ops"]))
    c["ops"][k] = rng.choice([["delete_expired", 0], ["frobnicate", 1], ["create", 0, 99, 1000], ["load"], ["update_ttl", 0, -5],
                              ["create", "x", 0, 0], "load", ["change_id", 1]])
    return c


def gen_conc(rng):
    backend = rng.choice(["mem", "sqlite"])
    q, _, advs = time_alphabet(backend, "virtual")
    ttls = [0, LONG, LONG]
    ids = list(range(rng.choice([2, 2, 3])))
    states = gen_states(rng)
    ns = len(states)
    pre = []
    for i in ids:
        if rng.random() < 0.6:
            pre.append(["create", i, rng.randrange(ns), rng.choice([LONG, LONG, 1000, 0])])
    if rng.random() < 0.4:
        pre.append(["advance", rng.choice(advs)])
    k = rng.choice([2, 2, 3, 3, 4])
    tasks = [[gen_op(rng, ids, ns, ttls, advs, allow_adv=False, allow_batch=False) for _ in range(rng.randrange(1, 5))]
             for _ in range(k)]
    post = [["load", i] for i in ids] + [["delete_expired", None]]
    return {"kind": "conc", "backend": backend, "q": q, "states": states, "pre": pre, "tasks": tasks, "post": post}


def gen(rng):
    x = rng.random()
    if x < 0.04:
        return gen_malformed(rng)
    if x < 0.80:
        return gen_seq(rng)
    return gen_conc(rng)


# ------------------------------------------------------------------------------------------------
# reference map (independent of the Lean model) and the property oracle
# ------------------------------------------------------------------------------------------------

class Ref:
    """Map with expiry, in the backend's clock resolution `g` (ms per tick)."""

    def __init__(self, backend):
        self.backend = backend
        self.g = 1000 if backend == "sqlite" else 1
        self.now = 0            # ms
        self.m = {}             # id -> (state_idx, deadline in ticks): what was successfully written
        self.flags = set()

    def clone(self):
        r = Ref(self.backend)
        r.now, r.m, r.flags = self.now, dict(self.m), set(self.flags)
        return r

    def tick(self):
        return self.now // self.g

    def live(self, i):
        return i in self.m and self.tick() < self.m[i][1]

    def dl(self, ttl):
        return (self.now + ttl) // self.g

    def step(self, op, res, q, midflight=False):
        """Checks the answer `res` of the real store to `op` against the property and advances the
        reference. Returns a list of deviations: (code, message)."""
        dev = []
        name = op[0]
        if name == "advance":
            self.now += op[1]
            return dev
        if res == "other-err" or res == "ser-err" or res == "deser-err" or isinstance(res, dict) and "panic" in res:
            return [("error", "%s answered %r" % (name, res))]
        if name in ("create", "update", "update_ttl", "load", "delete") and op[1] in self.m and not self.live(op[1]):
            self.flags.add("expired-seen")
        if name == "create":
            _, i, s, ttl = op
            if self.live(i):
                self.flags.add("collision")
                if res != "dup":
                    dev.append(("create-live" if res == "ok" else "create",
                                "create on the live id %d answered %r (must be a duplicate-id error)" % (i, res)))
            else:
                if res != "ok":
                    dev.append(("create-free", "create on the free id %d answered %r" % (i, res)))
                else:
                    self.m[i] = (s, self.dl(ttl))
        elif name == "update":
            _, i, s, ttl = op
            if self.live(i):
                if res != "ok":
                    dev.append(("update", "update of the live id %d answered %r" % (i, res)))
                else:
                    self.m[i] = (s, self.dl(ttl))
            elif res != "unknown":
                dev.append(("update", "update of the absent/expired id %d answered %r (must be unknown-id)" % (i, res)))
        elif name == "update_ttl":
            _, i, ttl = op
            if self.live(i):
                if res != "ok":
                    dev.append(("update_ttl", "update_ttl of the live id %d answered %r" % (i, res)))
                else:
                    self.m[i] = (self.m[i][0], self.dl(ttl))
            elif res != "unknown":
                dev.append(("update_ttl", "update_ttl of the absent/expired id %d answered %r (must be unknown-id)" % (i, res)))
        elif name == "load":
            i = op[1]
            if self.live(i):
                s, d = self.m[i]
                want_ttl = -(-(d * self.g - self.now) // q) * q
                if not isinstance(res, dict) or res.get("state") != s:
                    dev.append(("load", "load(%d) returned %r, last successful write was state #%d" % (i, res, s)))
                elif res.get("ttl") != want_ttl:
                    dev.append(("load-ttl", "load(%d) reports ttl %r ms, deadline says %d" % (i, res.get("ttl"), want_ttl)))
                self.flags.add("loaded")
            elif res is not None:
                dev.append(("load", "load(%d) returned %r for an absent/expired/deleted record" % (i, res)))
        elif name == "delete":
            i = op[1]
            if self.live(i):
                if res != "ok":
                    dev.append(("delete", "delete of the live id %d answered %r" % (i, res)))
                else:
                    del self.m[i]
            elif res != "unknown":
                dev.append(("delete", "delete of the absent/expired id %d answered %r (must be unknown-id)" % (i, res)))
        elif name == "change_id":
            _, o, n = op
            if not self.live(o):
                if res != "unknown":
                    dev.append(("change_id-unknown", "change_id from the absent/expired id %d answered %r (must be unknown-id)" % (o, res)))
            elif o == n:
                if res not in ("ok", "dup"):
                    dev.append(("change_id", "change_id(%d,%d) answered %r" % (o, n, res)))
            elif self.live(n):
                self.flags.add("collision")
                if res != "dup":
                    dev.append(("change_id-clobber", "change_id onto the live id %d answered %r" % (n, res)))
            else:
                if res != "ok":
                    code = "change_id-squatted" if (res == "dup" and n in self.m) else "change_id"
                    dev.append((code, "change_id(%d,%d) with %d live and %d not live answered %r" % (o, n, o, n, res)))
                else:
                    self.m[n] = self.m.pop(o)
        elif name == "delete_expired":
            batch = op[1]
            if not isinstance(res, dict) or "n" not in res:
                return [("delete_expired", "delete_expired answered %r" % (res,))]
            if batch is not None and res["n"] > batch:
                dev.append(("delete_expired", "delete_expired(%d) reports %d deletions" % (batch, res["n"])))
            if not midflight:
                removed = res.get("removed", [])
                if res["n"] != len(removed):
                    dev.append(("delete_expired", "delete_expired reports %d deletions, %d records disappeared" % (res["n"], len(removed))))
                for i in removed:
                    if self.live(i):
                        dev.append(("delete_expired-live", "delete_expired removed the live record %d" % i))
                    self.m.pop(i, None)
                if removed:
                    self.flags.add("purged")
        return dev

    def check_final(self, final, q):
        dev = []
        phys = {e[0]: e[1] for e in final}
        states = {e[0]: e[2] for e in final}
        for i, (s, d) in self.m.items():
            if self.live(i):
                if self.backend == "sqlite":
                    want = (d - self.tick()) * 1000
                else:
                    want = -(-(d - self.now) // q) * q
                if phys.get(i) != want:
                    dev.append(("final", "live record %d: table has relative deadline %r ms, expected %d" % (i, phys.get(i), want)))
                elif states.get(i) != s:
                    dev.append(("final", "live record %d: table holds state %r, last successful write was state #%d" % (i, states.get(i), s)))
        for i, rel in phys.items():
            if rel > 0 and not self.live(i):
                dev.append(("final", "table holds a live record %d (deadline +%d ms) that no successful call wrote" % (i, rel)))
        return dev


def interleavings_explained(ref0, tasks, obs, post, post_res, final, q):
    """DFS: is there an order (program order + real-time precedence) under which every answer is
    what the property demands, known findings tolerated? Returns (order, deviations) or None."""
    k = len(tasks)
    budget = [300000]

    def rec(ref, pos, order, devs):
        if budget[0] <= 0:
            return None
        budget[0] -= 1
        if all(pos[t] == len(tasks[t]) for t in range(k)):
            r = ref.clone()
            d2 = list(devs)
            for op, res in zip(post, post_res):
                d2 += r.step(op, res, q)
            d2 += r.check_final(final, q)
            if all(known_code(r.backend, c) for c, _ in d2):
                return order, d2
            return None
        for t in range(k):
            if pos[t] == len(tasks[t]):
                continue
            o = obs[t][pos[t]]
            if any(t2 != t and pos[t2] < len(tasks[t2]) and obs[t2][pos[t2]]["resp"] < o["inv"] for t2 in range(k)):
                continue
            r = ref.clone()
            d = r.step(tasks[t][pos[t]], o["r"], q, midflight=True)
            if not all(known_code(r.backend, c) for c, _ in d):
                continue
            pos[t] += 1
            got = rec(r, pos, order + [t], devs + d)
            pos[t] -= 1
            if got:
                return got
        return None

    return rec(ref0, [0] * k, [], [])


KNOWN_CODES = {
    "create-live": "C13-sqlite-create-live",
    "change_id-squatted": "C13-sqlite-change-id-squatted",
}


def known_code(backend, code):
    return backend == "sqlite" and code in KNOWN_CODES


def oracle(case, out):
    """-> (deviations, flags). Deviations: list of (code, message); codes in KNOWN_CODES on the
    SQLite backend are the recorded findings, everything else is a violation."""
    if case.get("kind") not in ("seq", "conc"):
        return ([] if out.get("r") == "bad-op" else [("shape", "malformed request answered %r" % (out,))]), set()
    try:
        wf = wellformed(case)
    except Exception:
        wf = False
    if not wf:
        return ([] if out.get("r") == "bad-op" else [("shape", "malformed request answered %r" % (out,))]), set()
    if out.get("r") == "timing-unreliable":
        return [], {"timing-unreliable"}
    if out.get("r") != "ok":
        return [("crash", "history answered %r" % (out,))], set()
    ref = Ref(case["backend"])
    ref.now = case.get("phase", 0)
    q = case["q"]
    dev = []
    if case["kind"] == "seq":
        if len(out["res"]) != len(case["ops"]):
            return [("shape", "answer count differs")], set()
        for k, (op, res) in enumerate(zip(case["ops"], out["res"])):
            dev += [(c, "op %d %s: %s" % (k, json.dumps(op), m)) for c, m in ref.step(op, res, q)]
        dev += ref.check_final(out["final"], q)
        return dev, ref.flags
    # concurrent
    for op, res in zip(case["pre"], out["pre"]):
        dev += ref.step(op, res, q)
    if any(not isinstance(t, list) for t in out["tasks"]):
        return dev + [("crash", "a task panicked: %r" % (out["tasks"],))], ref.flags
    got = interleavings_explained(ref, case["tasks"], out["tasks"], case["post"], out["post"], out["final"], q)
    if got is None:
        dev.append(("not-linearizable", "no sequential order of the tasks' calls (respecting program order and real-time "
                    "precedence) explains the observed answers"))
        return dev, ref.flags | {"conc"}
    order, d2 = got
    return dev + d2, ref.flags | {"conc", "conc-explained"}


def wellformed(case):
    ns = len(case["states"])

    def ok(op, adv):
        if not isinstance(op, list) or not op:
            return False
        nat = lambda x: isinstance(x, int) and not isinstance(x, bool) and x >= 0
        n = op[0]
        if n in ("create", "update"):
            return len(op) >= 4 and nat(op[1]) and nat(op[2]) and op[2] < ns and nat(op[3])
        if n == "update_ttl":
            return len(op) >= 3 and nat(op[1]) and nat(op[2])
        if n in ("load", "delete"):
            return len(op) >= 2 and nat(op[1])
        if n == "change_id":
            return len(op) >= 3 and nat(op[1]) and nat(op[2])
        if n == "delete_expired":
            return len(op) < 2 or op[1] is None or (nat(op[1]) and op[1] > 0)
        if n == "advance":
            return adv and len(op) >= 2 and nat(op[1])
        return False

    if case["kind"] == "seq":
        return all(ok(o, True) for o in case["ops"])
    return all(ok(o, True) for o in case["pre"] + case["post"]) and all(ok(o, False) for t in case["tasks"] for o in t)


def nontrivial(flags):
    return bool(flags & {"expired-seen", "collision", "conc-explained"}) and ("loaded" in flags or "conc" in flags)


# ------------------------------------------------------------------------------------------------
# the two-phase differential run
# ------------------------------------------------------------------------------------------------

def model_line(case, out):
    """The request for the Lean model: states stripped, the implementation's choices filled in."""
    c = {k: v for k, v in case.items() if k != "states"}
    c["nstates"] = len(case.get("states", [])) if isinstance(case.get("states"), list) else 0

    def with_ord(ops, res):
        o2 = []
        for k, op in enumerate(ops):
            if isinstance(op, list) and op and op[0] == "delete_expired" and k < len(res) and isinstance(res[k], dict):
                o2.append(["delete_expired", op[1] if len(op) > 1 else None, res[k].get("removed", [])])
            else:
                o2.append(op)
        return o2

    if out.get("r") == "ok":
        if case.get("kind") == "seq":
            c["ops"] = with_ord(case["ops"], out["res"])
        elif case.get("kind") == "conc":
            c["pre"] = with_ord(case["pre"], out["pre"])
            c["post"] = with_ord(case["post"], out["post"])
            c["observed"] = out["tasks"]
            c["observed_post"] = out["post"]
            c["observed_final"] = out["final"]
    return json.dumps(c, sort_keys=True)


def agree(case, io, mo):
    """Model vs implementation on one case."""
    if io.get("r") != "ok" or case.get("kind") != "conc":
        return json.dumps(io, sort_keys=True) == json.dumps(mo, sort_keys=True)
    return mo.get("r") == "ok" and mo.get("pre") == io.get("pre") and mo.get("explained") is True


def run_cases(cases, db_dir, parallel=1):
    lines = [json.dumps(c, sort_keys=True) for c in cases]
    env = pxvlib.env_offline()
    env["C13_DB_DIR"] = db_dir
    if parallel > 1 and len(lines) > parallel:
        chunks = [lines[i::parallel] for i in range(parallel)]
        with concurrent.futures.ThreadPoolExecutor(parallel) as ex:
            outs = list(ex.map(lambda ch: pxvlib.run_impl(WHICH, ch, pkg=PKG, env=env), chunks))
        impl = [None] * len(lines)
        for p, o in enumerate(outs):
            for k, v in enumerate(o):
                impl[p + k * parallel] = v
    else:
        impl = []
        for i in range(0, len(lines), 5000):
            impl += pxvlib.run_impl(WHICH, lines[i:i + 5000], pkg=PKG, env=env)
    ios = []
    for s in impl:
        try:
            ios.append(json.loads(s))
        except Exception:
            ios.append({"r": "unparseable", "raw": s})
    return lines, ios


def run_model(cases, ios):
    mlines = [model_line(c, o) for c, o in zip(cases, ios)]
    try:
        raw = pxvlib.run_model(WHICH, mlines)
    except Exception as e:
        return [{"r": "model-unavailable", "why": repr(e)[:200]}] * len(cases)
    out = []
    for s in raw:
        try:
            out.append(json.loads(s))
        except Exception:
            out.append({"r": "unparseable", "raw": s})
    out += [{"r": "missing"}] * (len(cases) - len(out))
    return out


def finding_by_id(R, fid):
    for f in R.known_findings():
        if f["id"] == fid:
            return f
    return None


def evaluate(R, cases, ios, mos, stats):
    """Classifies every case. Returns (violating, disagreeing) index lists."""
    viol, dis = [], []
    for k, (c, io, mo) in enumerate(zip(cases, ios, mos)):
        dev, flags = oracle(c, io)
        kind = "%s/%s/%s" % (c.get("kind"), c.get("backend"), c.get("mode", "virtual"))
        stats["kinds"][kind] = stats["kinds"].get(kind, 0) + 1
        stats["outcomes"][str(io.get("r"))] = stats["outcomes"].get(str(io.get("r")), 0) + 1
        for f in flags:
            stats["flags"][f] = stats["flags"].get(f, 0) + 1
        if nontrivial(flags):
            stats["nontrivial"].add(json.dumps(c, sort_keys=True))
        unknown = []
        for code, msg in dev:
            f = finding_by_id(R, KNOWN_CODES[code]) if known_code(c.get("backend"), code) else None
            if f is not None:
                R.known_hit(f)
                stats["known_hits"][code] = stats["known_hits"].get(code, 0) + 1
            else:
                unknown.append((code, msg))
        if unknown:
            viol.append((k, unknown))
        if "timing-unreliable" in flags:
            continue
        if not agree(c, io, mo):
            dis.append(k)
    return viol, dis


def run(R):
    R.assumptions += [
        "the SQLite engine executes each statement atomically and evaluates unixepoch() once per statement (assumed, validated only by these runs)",
        "one call reads the clock at a single instant (the memory store calls Timestamp::now() up to three times under the lock; the model uses one `now` per call)",
        "tokio::sync::Mutex gives mutual exclusion (assumed); 'mutex first, nothing else awaited' and 'one SQL statement per method' are re-extracted from the source on every run",
        "TTLs small enough that `Timestamp::now() + ttl` does not overflow jiff's range (larger TTLs panic in both backends; outside the model)",
        "virtual time: `advance` shifts every stored deadline into the past (memory: cfg hook verif_age; SQLite: direct UPDATE of the table); real sleeps are used in the thorough tier to validate that this equals time passing",
    ]
    R.coverage["trusted_base"] += [
        "cfg(pavex_verif) hooks InMemorySessionStore::verif_dump / verif_age (read the map / subtract a duration from every deadline)",
        "tools/checks/c13.py source-shape extraction (brace matching + regexes over lib.rs and sqlite.rs)",
    ]
    lean_ok, lrep = pxvlib.lean_obligations(R, MODULES)
    hok, hout = pxvlib.build_harness(R, PKG)
    if not hok:
        R.violation("harness does not build against the current tree (broken tie)", {"cargo_output_tail": hout[-3000:]},
                    no_failing_input=True)
        return
    # --- source shape
    try:
        model_sql = json.loads(pxvlib.run_model(WHICH, ['{"kind":"sql_texts"}'])[0])
    except Exception as e:
        model_sql = {}
        R.log("model driver unavailable:", e)
    shape_problems = source_shape(R, model_sql)
    for p in shape_problems:
        R.log("source shape:", p)
    # --- cases
    quick = R.tier == "quick"
    n_gen = 5000 if quick else 60000
    n_real = 0 if quick else 48
    if R.replay:
        rp = json.load(open(R.replay))["replay"]
        cases = rp.get("cases") or ([rp["case"]] if "case" in rp else [])
        n_gen = n_real = 0
    else:
        cases = [json.loads(l) for l in pxvlib.corpus_lines(R.prop)]
    n_corpus = len(cases)
    cases += [gen(R.rng) for _ in range(n_gen)]
    real_cases = [gen_seq(R.rng, "real") for _ in range(n_real)]
    db_dir = pxvlib.scratch_dir("c13")
    stats = {"kinds": {}, "outcomes": {}, "flags": {}, "nontrivial": set(), "known_hits": {}}
    try:
        lines, ios = run_cases(cases, db_dir)
        mos = run_model(cases, ios)
        viol, dis = evaluate(R, cases, ios, mos, stats)
        if real_cases:
            _, rios = run_cases(real_cases, db_dir, parallel=8)
            rmos = run_model(real_cases, rios)
            v2, d2 = evaluate(R, real_cases, rios, rmos, stats)
            off = len(cases)
            cases, ios, mos = cases + real_cases, ios + rios, mos + rmos
            viol += [(k + off, u) for k, u in v2]
            dis += [k + off for k in d2]
        unreliable = stats["flags"].get("timing-unreliable", 0)
        if unreliable > max(3, len(cases) // 20):
            R.violation("%d of %d histories could not be timed reliably (broken tie: machine too loaded?)" % (unreliable, len(cases)),
                        {"unreliable": unreliable}, no_failing_input=True)
        R.coverage["evaluations"] = len(cases)
        R.coverage["distinct_nontrivial"] = len(stats["nontrivial"])
        R.coverage["rule"] = (
            "histories of 3-25 trait calls over 2-4 ids x 2-4 states (exotic JSON/unicode pool) x TTL {0, a few clock ticks, 1 h} with "
            "`advance` steps between calls (virtual time; real sleeps in the thorough tier), both backends; 20% concurrent: 2-4 tokio tasks x "
            "1-4 calls on overlapping ids after a sequential prelude, followed by loads of every id; 4% malformed. non-trivial = a call "
            "observed an expired record or hit a live id (create / change_id target), and a load returned a record (or the history is "
            "concurrent and was explained); distinct by full input")
        R.coverage["outcome_histogram"] = stats["outcomes"]
        R.coverage["input_stats"] = {"corpus": n_corpus, "generated": n_gen, "real_time": n_real, "kinds": stats["kinds"],
                                     "flags": stats["flags"], "known_finding_hits": stats["known_hits"]}
        step = max(1, len(cases) // 5)
        R.coverage["samples"] = [{"in": {k: v for k, v in cases[i].items() if k != "states"}, "impl": ios[i]}
                                 for i in range(n_corpus, len(cases), step)][:6]
        R.coverage["model_vs_impl_disagreements"] = len(dis)
        R.coverage["impl_vs_oracle_failures"] = len(viol)
        R.log("cases=%d nontrivial=%d disagreements=%d oracle_failures=%d known=%s kinds=%s" % (
            len(cases), len(stats["nontrivial"]), len(dis), len(viol), stats["known_hits"], stats["kinds"]))
        # --- reporting + break protocol (DESIGN.md 3.3)
        for k, unknown in viol[:3]:
            R.violation("implementation breaks the property: " + "; ".join(m for _, m in unknown)[:400],
                        {"case": cases[k], "impl": ios[k], "model": mos[k], "deviations": unknown})
        if viol and shape_problems:
            R.violation("source shape changed (atomicity facts / SQL texts the model and the theorems rest on): " +
                        "; ".join(shape_problems)[:600], {"shape_problems": shape_problems})
        failed = {k for k, _ in viol}
        pure = [k for k in dis if k not in failed]
        if (pure or not lean_ok or shape_problems) and not viol:
            R.log("search mode: lean_ok=%s disagreements=%d shape_problems=%d" % (lean_ok, len(pure), len(shape_problems)))
            extra = []
            for k in pure[:20]:
                extra += [mutate(R.rng, cases[k]) for _ in range(100)]
            extra += [gen(R.rng) for _ in range(6000 if quick else 40000)]
            _, xios = run_cases(extra, db_dir)
            found = None
            for c, o in zip(extra, xios):
                dev, _ = oracle(c, o)
                unknown = [(cd, m) for cd, m in dev if not (known_code(c.get("backend"), cd) and finding_by_id(R, KNOWN_CODES[cd]))]
                if unknown:
                    found = (c, o, unknown)
                    break
            R.coverage["search_mode"] = {"extra_cases": len(extra), "found": bool(found)}
            what = []
            if not lean_ok:
                what.append("proof obligations of %s no longer check (%s)" % (
                    ",".join(MODULES), "; ".join(lrep.get("errors", [])[:3]) or lrep.get("bad_axioms") or lrep.get("forbidden_tokens") or str(lrep.get("audit_error", ""))[:200]))
            if shape_problems:
                what.append("source shape changed: " + "; ".join(shape_problems)[:600])
            if pure:
                k = pure[0]
                what.append("correspondence `store` disagrees on %d/%d histories, first: in=%s impl=%s model=%s" % (
                    len(pure), len(cases), json.dumps({a: b for a, b in cases[k].items() if a != "states"})[:400],
                    json.dumps(ios[k])[:300], json.dumps(mos[k])[:300]))
            if found:
                R.violation("implementation breaks the property: " + "; ".join(m for _, m in found[2])[:300] +
                            " (found in search mode after: " + " | ".join(what)[:300] + ")", {"case": found[0], "impl": found[1]})
            else:
                R.violation(" | ".join(what), {"broken": what, "theorem_modules": MODULES, "correspondence": "store",
                                               "cases": [cases[k] for k in pure[:5]]}, no_failing_input=True)
        if not quick and lean_ok:
            if not pxvlib.leanchecker(R, MODULES):
                R.violation("leanchecker rejects " + ",".join(MODULES), {"modules": MODULES}, no_failing_input=True)
    finally:
        shutil.rmtree(db_dir, ignore_errors=True)


def mutate(rng, c):
    c = json.loads(json.dumps(c))
    key = "ops" if c.get("kind") == "seq" else "pre"
    ops = c.get(key) or []
    if ops and rng.random() < 0.5:
        del ops[rng.randrange(len(ops))]
    else:
        q, ttls, advs = time_alphabet(c.get("backend", "mem"), c.get("mode", "virtual"))
        ops.insert(rng.randrange(len(ops) + 1), gen_op(rng, [0, 1, 2], max(1, len(c.get("states", [1]))), ttls, advs))
    c[key] = ops
    return c
