"""C01 — accepted blueprints yield a server SDK that compiles.

L2  lean/Pxv/Thm/C01.lean: run_topo, run_borrowersFirst (invariants of pavexc's ordering step for every
    traversal strategy), ownCheck_iff (the executable ownership checker decides the specification
    OwnSafe), safe_of_run_holdersFirst, C01_partial (capture-free graphs), C01_statement_false (the
    full statement fails on the captured-borrow witness: known finding).
L3a every ordered call graph that the real (hooked) pavexc produced for an accepted generated
    application: its node order must be a run of the model's ordering system (`isRun`), complete,
    and every control-flow path must pass the verified `ownCheck`; the implementation-side oracle
    is `cargo check` of the emitted SDK.
L3b the specification itself is validated against rustc: random (graph, order) pairs are rendered
    as Rust functions, compiled, and rustc's verdict compared with `ownCheck`.
"""
import json
import os
import re
import shutil
import subprocess

import e2e_stage
import pxvlib

BORROWCK = ("E0505", "E0382", "E0499", "E0502", "E0506", "E0597", "E0503", "E0716")


def graphs_of(dump):
    """[(input_graph, checked_graph, sigma)] for each call graph that got ordered."""
    out, cur_in, cur_ck = [], None, None
    for r in dump:
        if r["ev"] == "input":
            cur_in, cur_ck = r["g"], None
        elif r["ev"] == "checked":
            cur_ck = r["g"]
        elif r["ev"] == "order" and cur_ck is not None:
            pos = sorted(r["pos"], key=lambda x: x[1])
            out.append((cur_in, cur_ck, [n for n, _ in pos]))
            cur_in = cur_ck = None
        elif r["ev"] == "rejected":
            cur_in = cur_ck = None
    return out


def pass_records(dump):
    """per call graph: the dumps before / between / after the borrow-checking passes."""
    out, cur = [], None
    for r in dump:
        ev = r["ev"]
        if ev == "input":
            cur = {"input": r["g"]}
            out.append(cur)
        elif cur is not None and ev in ("after_mc", "after_mwb", "cx_done", "after_cx", "after_os"):
            cur[ev] = r
        elif cur is not None and ev == "checked":
            cur["checked"] = r["g"]
        elif cur is not None and ev == "rejected":
            cur["rejected"] = True
    return out


def canon_edges(nodes_ids, edges, ren):
    """edge list with clone nodes named after what they clone and for whom (their own index is arbitrary)."""
    def key(i, depth=0):
        if i in ren:
            return ren[i]
        if depth > 8:
            return "?"
        src = [s for s, d, k in edges if d == i and k == "shared"]
        dst = [d for s, d, k in edges if s == i and k == "move"]
        return ("clone", key(src[0], depth + 1) if src else None, key(dst[0], depth + 1) if dst else None)
    return sorted((str(key(s)), str(key(d)), k) for s, d, k in edges)


def passes_correspondence(accepted_and_rejected):
    """model `multipleConsumers` / `moveWhileBorrowed` vs the graphs the real passes produced."""
    lines, meta = [], []
    for o in accepted_and_rejected:
        for gi, rec in enumerate(pass_records(o["dump"])):
            if "after_mc" not in rec:
                continue
            g_in, ren_in = densify(rec["input"])
            lines.append(json.dumps({"op": "mc", "g": g_in}))
            meta.append(("mc", o["name"], gi, rec, ren_in))
            if "after_mwb" in rec and rec["after_mc"]["ndiag"] == 0:
                g_mc, ren_mc = densify(rec["after_mc"]["g"])
                lines.append(json.dumps({"op": "mwb", "g": g_mc}))
                meta.append(("mwb", o["name"], gi, rec, ren_mc))
            if "after_mwb" in rec and "cx_done" in rec and all("inadj" in n for n in rec["after_mwb"]["g"]["nodes"]):
                # `complex_borrow_check` vs Pxv.CG.complexCheck: the request lists the edges in the insertion order of
                # each node's incoming adjacency list (hook affca2a), which is what the traversal of the real pass follows
                g_cx0, ren_cx0 = densify(rec["after_mwb"]["g"], adjacency_order=True)
                lines.append(json.dumps({"op": "cx", "g": g_cx0}))
                meta.append(("cx", o["name"], gi, rec, ren_cx0))
            if "after_cx" in rec and "after_os" in rec:
                # the forward pass `ordering_stalemates` (repo 437e3c1) vs Pxv.CG.resolveStalemates
                g_cx, ren_cx = densify(rec["after_cx"]["g"])
                lines.append(json.dumps({"op": "os", "g": g_cx}))
                meta.append(("os", o["name"], gi, rec, ren_cx))
    outs = [json.loads(x) for x in pxvlib.run_model("cg", lines)] if lines else []
    dis, n_clone_graphs, n_os, n_os_stalemates = [], 0, 0, 0
    cx = {"evaluations": 0, "graphs_changed_by_the_pass": 0, "graphs_with_diagnostics": 0, "graphs_with_a_blocked_node": 0,
          "parallel_edges_skipped": 0}
    for (op, name, gi, rec, ren), ln, mo in zip(meta, lines, outs):
        if op == "cx":
            req = json.loads(ln)
            pairs = [(s, d) for s, d, k in req["g"]["edges"]]
            if len(pairs) != len(set(pairs)):
                # `find_edge` + `remove_edge` take ONE of several parallel edges: outside the model (never seen so far)
                cx["parallel_edges_skipped"] += 1
                continue
            cx["evaluations"] += 1
            real = rec["cx_done"]
            real_edges = canon_edges(None, real["g"]["edges"], ren)
            ident = {i: i for i in range(len(req["g"]["nodes"]))}
            model_edges = canon_edges(None, mo["g"]["edges"], ident)
            in_edges = canon_edges(None, req["g"]["edges"], ident)
            cx["graphs_changed_by_the_pass"] += 1 if real_edges != in_edges else 0
            cx["graphs_with_diagnostics"] += 1 if real["ndiag"] > 0 else 0
            cx["graphs_with_a_blocked_node"] += 1 if (real_edges != in_edges or real["ndiag"] > 0 or len(mo.get("finished", [])) < len(req["g"]["nodes"])) else 0
            # one diagnostic per contended input that has a component id, per call of emit_borrow_checking_error
            model_n = sum(len(d.get("blocked", [])) for d in mo["diags"])
            if real_edges != model_edges or mo.get("fuelOut") or (real["ndiag"] > 0) != (model_n > 0) or real["ndiag"] > model_n:
                dis.append({"pass": op, "program": name, "graph": gi, "request": req,
                            "real_edges": real_edges, "model_edges": model_edges, "out_of_fuel": mo.get("fuelOut"),
                            "real_new_diagnostics": real["ndiag"], "model_diagnostics": mo["diags"]})
            continue
        if op == "os":
            n_os += 1
            n_os_stalemates += 1 if mo.get("stalemate") else 0
            real = rec["after_os"]
            real_edges = canon_edges(None, real["g"]["edges"], ren)
            ident = {i: i for i in range(len(json.loads(ln)["g"]["nodes"]))}
            model_edges = canon_edges(None, mo["g"]["edges"], ident)
            # one diagnostic per contended input of a reported node (inputs without a component id are skipped by pavexc)
            model_n = sum(len(d.get("blocked", [])) for d in mo["diags"])
            fuel = any(d.get("outOfFuel") for d in mo["diags"])
            bad_order = (not mo["diags"]) and not mo.get("orderOk")
            if real_edges != model_edges or fuel or bad_order or (real["ndiag"] > 0) != (model_n > 0) or real["ndiag"] > model_n:
                dis.append({"pass": op, "program": name, "graph": gi, "request": json.loads(ln),
                            "real_edges": real_edges, "model_edges": model_edges, "out_of_fuel": fuel,
                            "model_order_stuck_after_silent_pass": bad_order,
                            "real_new_diagnostics": real["ndiag"], "model_diagnostics": mo["diags"]})
            continue
        real = rec["after_mc"] if op == "mc" else rec["after_mwb"]
        base = 0 if op == "mc" else rec["after_mc"]["ndiag"]
        real_edges = canon_edges(None, real["g"]["edges"], ren)
        ident = {i: i for i in range(len(json.loads(ln)["g"]["nodes"]))}
        model_edges = canon_edges(None, mo["g"]["edges"], ident)
        if any("clone" in e[0] or "clone" in e[1] for e in real_edges):
            n_clone_graphs += 1
        if real_edges != model_edges or (real["ndiag"] - base) != len(mo["diags"]):
            dis.append({"pass": op, "program": name, "graph": gi, "request": json.loads(ln),
                        "real_edges": real_edges, "model_edges": model_edges,
                        "real_new_diagnostics": real["ndiag"] - base, "model_diagnostics": mo["diags"]})
    return {"evaluations": len(lines), "graphs_with_clones": n_clone_graphs, "ordering_stalemates_evaluations": n_os,
            "ordering_stalemates_found": n_os_stalemates, "complex_borrow_check": cx, "disagreements": dis}


# ---- L3d: the invocation loop of every generated stage function (hook 8ff7637) vs Pxv.Bind.resolveStage ---------------

def _bind_ty(text, table):
    """'CanonicalType(&'a mut app::T)' -> {"r": true, "i": {"b": k}}; base types are numbered by their text."""
    t = text.strip()
    if t.startswith("CanonicalType(") and t.endswith(")"):
        t = t[len("CanonicalType("):-1].strip()
    def go(t):
        t = t.strip()
        if t.startswith("&"):
            t = t[1:].lstrip()
            m = re.match(r"'[A-Za-z_][A-Za-z_0-9]*\s+", t)
            if m:
                t = t[m.end():]
            mut = False
            if t.startswith("mut "):
                mut, t = True, t[4:]
            return {"r": mut, "i": go(t)}
        return {"b": table.setdefault(t, len(table))}
    return go(t)


def _bind_expr(text, ids):
    t = text.replace(" ", "")
    if t.startswith("&mut"):
        return {"b": ids.get(t[4:], -1), "mut": True}
    if t.startswith("&"):
        return {"b": ids.get(t[1:], -1), "mut": False}
    return {"n": ids.get(t, -1)}


def bindings_correspondence(programs):
    lines, meta = [], []
    for o in programs:
        for r in o["dump"]:
            if r.get("ev") != "stage_bindings":
                continue
            table, ids = {}, {}
            for ident, _, _ in r["initial"]:
                ids.setdefault(ident, len(ids))
            ids.setdefault(r["response"][0], 10 ** 6)
            req = {"resp": {"id": ids[r["response"][0]], "ty": _bind_ty(r["response"][1], table), "mut": False},
                   "initial": [{"id": ids[i], "ty": _bind_ty(t, table), "mut": m} for i, t, m in r["initial"]],
                   "calls": [{"post": c["post"], "wants": [_bind_ty(t, table) for t, _ in c["args"]]} for c in r["calls"]]}
            lines.append(json.dumps(req))
            meta.append((o["name"], r, ids))
    outs = [json.loads(x) for x in pxvlib.run_model("bind", lines)] if lines else []
    dis, oracle_fail = [], []
    stats = {"stages": len(lines), "invocations": 0, "arguments": 0, "by_name": 0, "borrowed": 0, "borrowed_mut": 0,
             "reborrow_of_mut_binding": 0, "parameters_marked_mut": 0}
    for (name, r, ids), ln, mo in zip(meta, lines, outs):
        real_exprs = [[_bind_expr(e, ids) for _, e in c["args"]] for c in r["calls"]]
        real_final = [{"id": ids[i], "mut": m} for i, _, m in r["final"]]
        stats["invocations"] += len(r["calls"])
        for c, es in zip(r["calls"], real_exprs):
            for (t, _), e in zip(c["args"], es):
                stats["arguments"] += 1
                if "n" in e:
                    stats["by_name"] += 1
                else:
                    stats["borrowed_mut" if e["mut"] else "borrowed"] += 1
        stats["parameters_marked_mut"] += sum(1 for b in real_final if b["mut"])
        if mo.get("r") != "ok" or mo["exprs"] != real_exprs or mo["final"] != real_final:
            dis.append({"program": name, "stage": r["stage"], "request": json.loads(ln), "real_exprs": real_exprs,
                        "real_final": real_final, "model": mo})
        # model-free reading of stage_invocations_well_typed: `&mut param` needs `mut param` in the signature the code
        # generator renders from the final bindings (a parameter that already is a `&mut T` is passed by name)
        final_mut = {i: m for i, _, m in r["final"]}
        for c in r["calls"]:
            for t, e in c["args"]:
                e = e.replace(" ", "")
                if e.startswith("&mut") and e[4:] in final_mut and not final_mut[e[4:]]:
                    oracle_fail.append({"program": name, "stage": r["stage"], "what": "the stage hands out `&mut %s` but its signature declares `%s` without `mut` (rustc: E0596)" % (e[4:], e[4:]),
                                        "record": r})
    return {"stats": stats, "disagreements": dis, "oracle_failures": oracle_fail}


def densify(g, adjacency_order=False):
    """Node ids in the dump are petgraph indices (may have gaps after removals): renumber 0..n-1.
    adjacency_order: list the edges per destination, oldest first (the reverse of the adjacency list `inadj`)."""
    ids = [n["i"] for n in g["nodes"]]
    ren = {old: new for new, old in enumerate(ids)}
    nodes = [{"kind": n["kind"], "copy": n["copy"], "ref": n["ref"], "cloneable": n["cloneable"],
              "tied": [ren[x] for x in n["tied"] if x in ren], "direct": [ren[x] for x in n["direct"] if x in ren],
              "label": n["label"]} for n in g["nodes"]]
    edges = [[ren[s], ren[d], k] for s, d, k in g["edges"]]
    if adjacency_order:
        edges2 = [[ren[s], ren[n["i"]], k] for n in g["nodes"] for s, k in reversed(n["inadj"])]
        assert sorted(map(tuple, edges2)) == sorted(map(tuple, edges)), "inadj and the edge list disagree"
        edges = edges2
    return {"nodes": nodes, "edges": edges}, ren


# ---- L3b: the ownership specification vs rustc ---------------------------------------------------

def gen_case(rng):
    n = rng.randrange(2, 8)
    nodes, edges = [], []
    for i in range(n):
        nd = {"copy": rng.random() < 0.15, "ref": False, "cloneable": False, "kind": "compute", "tied": [], "direct": []}
        k = min(i, rng.choice([0, 1, 1, 2, 2, 3]))
        deps = rng.sample(range(i), k)
        for d in deps:
            kind = rng.choices(["move", "shared", "excl"], weights=[5, 5, 1])[0]
            if kind == "excl" and (nodes[d]["copy"] or nodes[d].get("lt")):
                kind = "shared"
            edges.append([d, i, kind])
        # captures: keep the borrow of shared inputs / inherit from lifetime-carrying inputs
        cap = [d for d, t, kd in edges if t == i and kd == "shared" and not nodes[d].get("lt")]
        inh = [d for d, t, kd in edges if t == i and kd in ("move", "shared") and nodes[d].get("lt")]
        if (cap or inh) and not nd["copy"] and rng.random() < 0.45:
            nd["lt"] = True
            chosen = [d for d in cap if rng.random() < 0.7]
            nd["direct"] = chosen
            nd["tied"] = chosen + inh
            if not nd["tied"]:
                nd.pop("lt")
        nodes.append(nd)
    # an execution order: topological, then sometimes perturbed by one swap of independent-looking nodes
    order = list(range(n))
    for _ in range(3):
        a = rng.randrange(n)
        b = rng.randrange(n)
        a, b = min(a, b), max(a, b)
        cand = order[:]
        cand[a], cand[b] = cand[b], cand[a]
        posn = {x: k for k, x in enumerate(cand)}
        if all(posn[s] < posn[d] for s, d, _ in edges):
            order = cand
    return {"g": {"nodes": nodes, "edges": edges}, "sigma": order}


def render_case(idx, case):
    g, sigma = case["g"], case["sigma"]
    o = ["pub mod case_%d {" % idx, "    #![allow(unused, dead_code)]", "    use std::marker::PhantomData;"]
    for i, nd in enumerate(g["nodes"]):
        if nd.get("lt"):
            o.append("    pub struct V%d<'a>(pub PhantomData<&'a ()>);" % i)
        elif nd["copy"]:
            o.append("    #[derive(Clone, Copy)] pub struct V%d;" % i)
        else:
            o.append("    pub struct V%d;" % i)
    for i, nd in enumerate(g["nodes"]):
        ins = [(s, k) for s, d, k in g["edges"] if d == i]
        params = []
        for s, k in ins:
            src_lt = g["nodes"][s].get("lt")
            tied = s in nd["tied"]
            if k == "move":
                ty = "V%d<%s>" % (s, "'a" if tied else "'_") if src_lt else "V%d" % s
            elif k == "shared":
                inner = "V%d<%s>" % (s, "'a" if tied else "'_") if src_lt else "V%d" % s
                ty = "&%s%s" % ("'a " if (tied and s in nd["direct"]) else "", inner)
            else:
                ty = "&mut V%d" % s
            params.append("a%d: %s" % (s, ty))
        out = "V%d<'a>" % i if nd.get("lt") else "V%d" % i
        o.append("    pub fn f%d%s(%s) -> %s { loop {} }" % (i, "<'a>" if nd.get("lt") else "", ", ".join(params), out))
    o.append("    pub fn body() {")
    muts = {s for s, d, k in g["edges"] if k == "excl"}
    for i in sigma:
        args = []
        for s, d, k in g["edges"]:
            if d == i:
                args.append({"move": "v%d", "shared": "&v%d", "excl": "&mut v%d"}[k] % s)
        o.append("        let %sv%d = f%d(%s);  // CASE %d" % ("mut " if i in muts else "", i, i, ", ".join(args), idx))
    o.append("    }")
    o.append("}")
    return "\n".join(o)


def spec_vs_rustc(R, n):
    cases = [gen_case(R.rng) for _ in range(n)]
    d = pxvlib.scratch_dir("c01-rustc")
    src = os.path.join(d, "cases.rs")
    text, line2case = [], {}
    for i, c in enumerate(cases):
        r = render_case(i, c)
        start = sum(t.count("\n") + 1 for t in text) + 1
        for k in range(r.count("\n") + 1):
            line2case[start + k] = i
        text.append(r)
    open(src, "w").write("\n".join(text) + "\n")
    p = subprocess.run(["rustc", "--edition", "2021", "--crate-type", "lib", "--emit", "metadata", "--error-format", "json",
                        "-o", os.path.join(d, "out.rmeta"), src], stdout=subprocess.PIPE, stderr=subprocess.PIPE, text=True)
    failed, other = {}, []
    for l in p.stderr.split("\n"):
        if not l.startswith("{"):
            continue
        m = json.loads(l)
        if m.get("level") != "error":
            continue
        code = (m.get("code") or {}).get("code")
        spans = m.get("spans") or []
        ci = line2case.get(spans[0]["line_start"]) if spans else None
        if ci is None:
            if "aborting" not in m.get("message", ""):
                other.append(m.get("message"))
            continue
        if code in BORROWCK:
            failed.setdefault(ci, set()).add(code)
        else:
            other.append("case %d: %s %s" % (ci, code, m.get("message")))
    shutil.rmtree(d, ignore_errors=True)
    lines = [json.dumps({"op": "check", "g": c["g"], "sigma": c["sigma"]}) for c in cases]
    outs = [json.loads(x) for x in pxvlib.run_model("cg", lines)]
    dis, n_bad = [], 0
    for i, (c, mo) in enumerate(zip(cases, outs)):
        # the rendered body is a single straight-line path through every node
        model_ok = mo["whole"]["own"]
        rustc_ok = i not in failed
        if not rustc_ok:
            n_bad += 1
        if model_ok != rustc_ok:
            dis.append({"case": c, "model_ok": model_ok, "rustc": sorted(failed.get(i, []))})
    return {"cases": len(cases), "rustc_rejects": n_bad, "non_borrowck_errors": other[:5], "disagreements": dis}


def run(R):
    R.assumptions += [
        "rustc's full type/lifetime judgement is modelled only in its ownership part (OwnSafe); the rest of 'valid Rust' is covered by running `cargo check` on every accepted SDK of this run (translation validation)",
        "generated application types have no Drop impls (NLL: a borrow ends at the last use of its holder)",
        "toolchain shim: installed nightly (rustdoc JSON format 57) instead of pavexc's pinned nightly",
    ]
    R.coverage["trusted_base"] += [
        "cfg(pavex_verif) hook borrow_checker/verif_dump.rs (prints the graphs; read-only w.r.t. compiler state)",
        "tools/gen_app.py application generator and tools/e2e.py runner",
    ]
    lean_ok, lrep = pxvlib.lean_obligations(R, ["Pxv.Thm.C01"])
    obs, info = e2e_stage.get_stage(R)
    R.coverage["e2e_stage"] = info
    accepted = [o for o in obs.values() if o["rc"] == 0]
    lines, owner = [], []
    for o in accepted:
        for gi, (gin, gck, sigma) in enumerate(graphs_of(o["dump"])):
            g, ren = densify(gck)
            lines.append(json.dumps({"op": "check", "g": g, "sigma": [ren[x] for x in sigma]}))
            owner.append((o["name"], gi))
    outs = [json.loads(x) for x in pxvlib.run_model("cg", lines)] if lines else []
    per_prog = {}
    order_bad, n_graphs_nontrivial = [], 0
    distinct_nontrivial = set()
    for (name, gi), ln, mo in zip(owner, lines, outs):
        pp = per_prog.setdefault(name, {"own": True, "explained_by_capture": False, "graphs": 0})
        pp["graphs"] += 1
        req = json.loads(ln)
        if any(k in ("shared", "excl") for _, _, k in req["g"]["edges"]) and any(k == "move" for _, _, k in req["g"]["edges"]):
            n_graphs_nontrivial += 1
            distinct_nontrivial.add(json.dumps([[n["copy"], n["cloneable"], n["tied"], n["direct"]] for n in req["g"]["nodes"]] + [req["g"]["edges"], req["sigma"]]))
        if mo.get("r") != "ok" or not (mo["isRun"] and mo["complete"] and mo["wf"]):
            order_bad.append({"program": name, "graph": gi, "model": mo, "request": req})
        for s in mo.get("sinks", []):
            if not s["own"]:
                pp["own"] = False
                if not mo["captureFree"] and not s["holdersFirst"] and s["oneMover"] and s["predClosed"] and mo["isRun"]:
                    pp["explained_by_capture"] = True
                pp.setdefault("bad", []).append({"graph": gi, "sink": s["sink"], "request": req})
    known = {f["id"]: f for f in R.known_findings()}
    n_viol = 0
    spec_disagree = []
    for o in accepted:
        pp = per_prog.get(o["name"], {"own": True, "graphs": 0})
        cc = o.get("cargo_check", {"ok": True, "err": ""})
        if not cc["ok"]:
            R.coverage["impl_vs_oracle_failures"] += 1
            codes = set(re.findall(r"E\d{4}", cc["err"]))
            if pp.get("explained_by_capture") and codes & set(BORROWCK) and "captured-borrow-holder-consumed" in known:
                R.known_hit(known["captured-borrow-holder-consumed"], o.get("corpus") or o["name"])
                continue
            kf = pxvlib.corpus_known(R, o)
            if kf is not None:
                R.known_hit(kf, o.get("corpus") or o["name"])
                continue
            n_viol += 1
            if n_viol <= 3:
                R.violation("accepted blueprint whose SDK does not compile: %s" % cc["err"][:300],
                            {"program": o["name"], "klass": o["klass"], "spec": o["spec"], "app_module_source": o["src"],
                             "cargo_check_errors": cc["err"], "model_ownership_verdict": pp})
        elif not pp["own"]:
            spec_disagree.append({"program": o["name"], "bad": pp.get("bad", [])[:1]})
    rej = [o for o in obs.values() if o["rc"] != 0]
    R.coverage["programs"] = len(obs)
    R.coverage["accepted"] = len(accepted)
    R.coverage["rejected"] = len(rej)
    R.coverage["evaluations"] = len(lines)
    R.coverage["distinct_nontrivial"] = len(distinct_nontrivial)
    R.coverage["rule"] = ("generated applications (free + in-class + corpus) through the real pavexc; one evaluation = one ordered call graph "
                          "(handler / middleware / app-state closure) checked by the verified ownCheck; non-trivial = graph with at least one move edge and one borrow edge; distinct by (node flags, edges, order), labels ignored")
    R.coverage["samples"] = [{"program": n, "graph": gi, "request": json.loads(l)} for (n, gi), l in list(zip(owner, lines))[:2]]
    # L3c: the mirrored clone-insertion passes vs the graphs the real passes produced
    pc = passes_correspondence(list(obs.values()))
    R.coverage["passes_correspondence"] = {k: (v if k != "disagreements" else len(v)) for k, v in pc.items()}
    # L3d: the invocation loop of every generated stage function vs Pxv.Bind.resolveStage
    bc = bindings_correspondence(list(obs.values()))
    R.coverage["stage_bindings_correspondence"] = {"stats": bc["stats"], "disagreements": len(bc["disagreements"]), "oracle_failures": len(bc["oracle_failures"])}
    for f in bc["oracle_failures"][:3]:
        n_viol += 1
        R.violation("implementation breaks the property: " + f["what"], {"program": f["program"], "stage": f["stage"], "record": f["record"]})
    # L3b
    sv = spec_vs_rustc(R, 400 if R.tier == "quick" else 20000)
    R.coverage["spec_vs_rustc"] = {k: (v if k != "disagreements" else len(v)) for k, v in sv.items()}
    R.coverage["disagreements_checked"] = sv["cases"] + len(lines)
    R.log("graphs=%d nontrivial=%d accepted=%d rejected=%d order_bad=%d spec_disagree=%d rustc_cases=%d (rejects %d) spec-vs-rustc disagreements=%d" % (
        len(lines), n_graphs_nontrivial, len(accepted), len(rej), len(order_bad), len(spec_disagree), sv["cases"], sv["rustc_rejects"], len(sv["disagreements"])))
    broken = []
    if not lean_ok:
        broken.append("proof obligations of Pxv.Thm.C01 no longer check: %s" % (lrep.get("errors") or lrep.get("bad_axioms") or lrep.get("forbidden_tokens")))
    if order_bad:
        broken.append("correspondence `order`: pavexc's node order is not a run of the modelled ordering system for %d graph(s), first: %s" % (
            len(order_bad), json.dumps(order_bad[0])[:400]))
    if spec_disagree:
        broken.append("correspondence `ownCheck`: the ownership model rejects a body that rustc accepts for %d program(s), first: %s" % (
            len(spec_disagree), json.dumps(spec_disagree[0])[:400]))
    if pc["disagreements"]:
        broken.append("correspondence `multipleConsumers`/`moveWhileBorrowed`/`resolveStalemates`: the mirrored pass and the real pass disagree on %d/%d graphs, first: %s" % (
            len(pc["disagreements"]), pc["evaluations"], json.dumps(pc["disagreements"][0])[:700]))
    if bc["disagreements"]:
        broken.append("correspondence `resolveStage` (Bindings::get_expr_for_type): the modelled invocation loop and the real one disagree on %d/%d stage functions, first: %s" % (
            len(bc["disagreements"]), bc["stats"]["stages"], json.dumps(bc["disagreements"][0])[:700]))
    if sv["disagreements"]:
        broken.append("correspondence `OwnSafe vs rustc`: %d/%d random bodies judged differently, first: %s" % (
            len(sv["disagreements"]), sv["cases"], json.dumps(sv["disagreements"][0])[:500]))
    if sv["non_borrowck_errors"]:
        broken.append("spec-vs-rustc harness produced non-borrowck errors: %s" % sv["non_borrowck_errors"][:2])
    R.coverage["model_vs_impl_disagreements"] = len(order_bad) + len(spec_disagree) + len(sv["disagreements"]) + len(pc["disagreements"]) + len(bc["disagreements"])
    if broken and n_viol == 0:
        # search mode already happened: every accepted program of this run was `cargo check`ed
        R.violation(" | ".join(broken), {"broken": broken, "theorem_module": "Pxv.Thm.C01",
                                          "order_bad": order_bad[:2], "spec_disagree": spec_disagree[:2],
                                          "rustc_disagreements": sv["disagreements"][:3],
                                          "pass_disagreements": pc["disagreements"][:2],
                                          "stage_bindings_disagreements": bc["disagreements"][:2]}, no_failing_input=True)
