"""C08 — blueprints that break a documented rule are rejected, never compiled.

L1  lean/Pxv/Model/Rules.lean: one decision procedure per rule over an abstract component database
    (scope lookup, worklist closure, DFS cycle search, singleton / &mut / cloning / observer / router /
    path-parameter checks) and `check`, the pass sequence of `App::build` with its error gates.
L2  lean/Pxv/Thm/C08.lean: per rule, soundness of detection (`Violates_r db -> detect_r db != []`) for a
    violation at any depth / nesting level, `check` rejects whenever a rule detects, and rejection
    writes nothing (Thm/C09 `reject_atomic`).
L3  every application of the shared e2e stage with class `planted:<rule>` (tools/gen_planted.py: one
    violation planted at a random place of a nested in-class application) goes through the real pavexc:
      oracle (implementation alone): exit != 0, an ERROR diagnostic of the planted rule's kind, no panic,
        placeholder SDK untouched; the `planted:none` controls must be accepted and `cargo check`;
      correspondence: the set of diagnostic kinds printed by pavexc == the kinds of the Lean model's
        `check` on the abstract database derived from the same spec;
      plus the in-process harness `harness/crates/rules` (real `matchit` insertion conflicts vs the model's
        `sameShape`, and DFS cycle search on random graphs vs a reference).
"""
import collections
import json
import os
import random
import re

import e2e_stage
import gen_planted
import pxvlib

# ---- classification of pavexc's error reports -----------------------------------------------------

PATTERNS = [
    ("missing", r"I can't find a constructor for"),
    ("cycle", r"The dependency graph cannot contain cycles"),
    ("singleton_dep", r"Singletons can't depend on request-scoped components"),
    ("singleton_once", r"The constructor for a singleton must be registered once"),
    ("singleton_multi", r"You can't register multiple constructors for the same singleton type"),
    ("not_send", r"doesn't implement the `core::marker::Send` trait"),
    ("not_sync", r"doesn't implement the `core::marker::Sync` trait"),
    ("singleton_by_value", r"is a singleton and can't be moved out of `ApplicationState`"),
    # the borrow checker of a request pipeline (C01/C02, not modelled here) can get there first
    ("by_value_borrowck", r"components that take `[^`]+` as an input parameter, consuming it by value"),
    ("cross_stage_borrowck", r"consumes `[^`]+` by value - But, later on, the same type is used in the call graph of"),
    ("mut_singleton", r"You can't inject a mutable reference to a singleton"),
    ("mut_transient", r"You can't inject a mutable reference to a transient type"),
    ("mut_cloneable", r"has been marked `CloneIfNecessary`"),
    ("mut_input", r"You can't inject a mutable reference as an input parameter to"),
    ("clone_not_clone", r"doesn't implement the `Clone` trait, but its constructor"),
    ("observer_fallible", r"Error observers can't depend on a type with a fallible constructor"),
    ("route_method_conflict", r"There are \d+ different request handlers for"),
    ("route_path_conflict", r"conflicts with the path of another route you already registered"),
    ("path_param", r"is trying to extract path parameters using"),
]
ANSI = re.compile(r"\x1b\[[0-9;]*m")


def error_reports(out):
    """the ERROR reports of a pavexc run, each as one whitespace-normalised string."""
    out = ANSI.sub("", out)
    blocks, cur, kind = [], None, None
    for line in out.split("\n"):
        s = line.strip()
        if s.startswith("ERROR") or s.startswith("WARNING"):
            if cur is not None and kind == "ERROR":
                blocks.append(" ".join(cur))
            cur, kind = [], "ERROR" if s.startswith("ERROR") else "WARNING"
            continue
        if cur is None:
            continue
        if s.startswith("The application panicked") or s.startswith("Backtrace"):
            if kind == "ERROR":
                blocks.append(" ".join(cur))
            cur, kind = None, None
            continue
        s = s.lstrip("×│╰╭├─▶· ").strip()
        if s:
            cur.append(s)
    if cur is not None and kind == "ERROR":
        blocks.append(" ".join(cur))
    return [re.sub(r"\s+", " ", b) for b in blocks]


def classify(out):
    kinds = []
    for rep in error_reports(out):
        for k, pat in PATTERNS:
            if re.search(pat, rep):
                kinds.append(k)
                break
        else:
            kinds.append("other:" + rep[:80])
    return kinds


# ---- who the diagnostics are about (second level of the correspondence) ------------------------------

def _short(x):
    """`&mut app::p3::T7` -> `T7`; `app::p3::PathParams<..>` is left to the caller."""
    x = x.strip().lstrip("&").strip()
    if x.startswith("mut "):
        x = x[4:]
    m = re.match(r"^<.* as .*>::([A-Za-z_][A-Za-z0-9_]*)", x)
    if m:
        # a trait method, `<app::p9::T2 as app::p9::MkC2>::c2` -> `c2` (the generators emit trait-method constructors)
        return m.group(1)
    x = re.sub(r"<.*$", "", x) if not x.startswith("pavex::request::path::PathParams") else x
    return x.split("::")[-1] if "<" not in x else x


IDENT = {
    "missing": r"I can't find a constructor for `([^`]+)`\. I need an instance of `[^`]+` to invoke your [a-z\- ]+, `([^`]+)`",
    "mut_singleton": r"mutable reference to a singleton \(`([^`]+)`\) as an input parameter to `([^`]+)`",
    "mut_transient": r"mutable reference to a transient type \(`([^`]+)`\) as an input parameter to `([^`]+)`",
    "mut_cloneable": r"You can't inject `([^`]+)` as an input parameter to `([^`]+)`",
    "mut_input": r"You can't inject a mutable reference as an input parameter to `([^`]+)`",
    "singleton_dep": r"your singleton `([^`]+)` depends on `([^`]+)`",
    "singleton_once": r"You registered the same constructor for `([^`]+)`",
    "singleton_multi": r"multiple constructors for the same singleton type, `([^`]+)`",
    "not_send": r"`([^`]+)` doesn't implement the `core::marker::Send` trait",
    "not_sync": r"`([^`]+)` doesn't implement the `core::marker::Sync` trait",
    "singleton_by_value": r"`([^`]+)` consumes `([^`]+)` by value",
    "clone_not_clone": r"`([^`]+)` doesn't implement the `Clone` trait, but its constructor, `([^`]+)`",
    "observer_fallible": r"`([^`]+)` violates this constraints! It depends on .*which is built with `([^`]+)`, a fallible constructor",
    "route_method_conflict": r"different request handlers for `([A-Z]+) ([^`]+)` requests",
    "route_path_conflict": r"This route path, `([^`]+)`, conflicts with the path of another route you already registered, `([^`]+)`",
    "by_value_borrowck": r"components that take `([^`]+)` as an input parameter, consuming it by value",
    "cross_stage_borrowck": r"consumes `([^`]+)` by value - But, later on",
    "path_param": r"extract path parameters using `PathParams<([^`>]+)>`\. .*?(?:that appear in|path parameters in) `([^`]+)`",
}


def identify_impl(out):
    """{(kind, subject..)} read off pavexc's reports; kinds without a pattern keep the bare kind."""
    res = set()
    for rep in error_reports(out):
        kind = None
        for k, pat in PATTERNS:
            if re.search(pat, rep):
                kind = k
                break
        if kind is None:
            res.add(("other", rep[:60]))
            continue
        if kind == "cycle":
            fns = re.findall(r"- `([^`]+)` depends on", rep)
            res.add(("cycle", frozenset(_short(f) for f in fns)))
            continue
        m = re.search(IDENT[kind], rep) if kind in IDENT else None
        if not m:
            res.add((kind, "?"))
            continue
        g = [x for x in m.groups()]
        if kind == "route_method_conflict":
            res.add((kind, g[0], g[1]))
        elif kind == "route_path_conflict":
            res.add((kind, frozenset(g)))
        elif kind == "path_param":
            res.add((kind, _short(g[0]), g[1]))
        else:
            res.add((kind,) + tuple(_short(x) for x in g))
    return res


def identify_model(adb, mout):
    """the same set derived from the model's diagnostics [kind, a, b] on the abstract database."""
    comps, types, routes = adb["comps"], adb["types"], adb["routes"]
    fn = lambda i: comps[i]["fn"]
    ty = lambda t: _short(types[t]["name"]) if not types[t]["name"].startswith("PathParams<") else "PathParams"
    raw_paths = []
    for r in routes:
        if r["path"] not in [q for q, _ in raw_paths]:
            raw_paths.append((r["path"], r["raw"]))
    meth = {k: m for k, m in enumerate(gen_planted.METHODS)}
    extra = []
    for r in routes:
        for m in r["methods"]:
            if m not in meth.values() and m not in extra:
                extra.append(m)
    for k, m in enumerate(extra):
        meth[len(gen_planted.METHODS) + k] = m
    res = set()
    for kind, a, b in mout["check"]:
        if kind in ("missing", "mut_singleton", "mut_transient", "mut_cloneable"):
            res.add((kind, ty(comps[a]["ins"][b][0]), fn(a)))
        elif kind == "mut_input":
            res.add((kind, fn(a)))
        elif kind == "singleton_dep":
            res.add((kind, ty(comps[a]["out"]), ty(comps[b]["out"])))
        elif kind in ("singleton_once", "singleton_multi"):
            res.add((kind, ty(a)))
        elif kind in ("not_send", "not_sync"):
            res.add((kind, ty(comps[a]["out"])))
        elif kind == "singleton_by_value":
            res.add((kind, fn(a), ty(comps[a]["ins"][b][0])))
        elif kind == "clone_not_clone":
            res.add((kind, ty(comps[a]["out"]), fn(a)))
        elif kind == "observer_fallible":
            res.add((kind, fn(a), fn(b)))
        elif kind == "route_method_conflict":
            res.add((kind, meth.get(b, "?"), raw_paths[a][1]))
        elif kind == "route_path_conflict":
            other = [q["raw"] for q in routes[:a] if q["path"] != routes[a]["path"] and same_shape(q["path"], routes[a]["path"])]
            res.add((kind, frozenset([routes[a]["raw"]] + other[:1])))
        elif kind == "path_param":
            inner = types[b]["name"][len("PathParams<"):-1]
            res.add((kind, inner, routes[a]["raw"]))
        elif kind == "cycle":
            pass
        else:
            res.add((kind, "?"))
    for cyc in mout.get("cycle_nodes", []):
        res.add(("cycle", frozenset(fn(i) for i in cyc)))
    return res


def expected_kinds_ok(rule, impl_kinds):
    exp = gen_planted.RULES[rule]
    if rule == "singleton_by_value" and "by_value_borrowck" in impl_kinds:
        return True   # refused for taking the never-clone singleton by value, by the pipeline's borrow checker
    return all(k in impl_kinds for k in exp)


# ---- a second, independent reading of scope resolution (for the known-finding predicates) ---------

def py_lookup(adb, s, t):
    while True:
        found = [i for i, c in enumerate(adb["comps"]) if c["kind"] == "ctor" and c["scope"] == s and c["out"] == t]
        if found:
            return found[-1]
        if s == 0:
            return None
        s = adb["scopes"][s]


def py_problems(adb, from_root_scope):
    """{"missing", "cycle"} found when inputs are resolved from the consuming component's scope
    (from_root_scope=False: what the analyses do) or from the scope of the call graph's root."""
    out = set()
    comps = adb["comps"]
    for r, rc in enumerate(comps):
        if rc["kind"] == "ctor":
            continue
        seen, stack = {}, []

        def visit(i):
            seen[i] = 1
            stack.append(i)
            for t, _ in comps[i]["ins"]:
                c = py_lookup(adb, rc["scope"] if from_root_scope else comps[i]["scope"], t)
                if c is None:
                    out.add("missing")
                elif c not in seen:
                    visit(c)
                elif c in stack:
                    out.add("cycle")
            stack.pop()

        visit(r)
    return out


def seg_overlap(p, q):
    """can one request path match both templates? (segments: ["s",text] | ["p",name] | ["c",name])"""
    if not p and not q:
        return True
    if p and p[0][0] == "c":
        return len(q) >= 1
    if q and q[0][0] == "c":
        return len(p) >= 1
    if not p or not q:
        return False
    a, b = p[0], q[0]
    if a[0] == "s" and b[0] == "s" and a[1] != b[1]:
        return False
    return seg_overlap(p[1:], q[1:])


def same_shape(p, q):
    """matchit's insertion conflict (second reading, cf. Lean `shapeConflict`): equal after erasing parameter
    names, or a catch-all facing a catch-all / a parameter after a common prefix."""
    if not p and not q:
        return True
    if not p or not q:
        return False
    a, b = p[0], q[0]
    if a[0] == "s" and b[0] == "s":
        return a[1] == b[1] and same_shape(p[1:], q[1:])
    if a[0] == "p" and b[0] == "p":
        return same_shape(p[1:], q[1:])
    if "c" in (a[0], b[0]) and "s" not in (a[0], b[0]):
        return True
    return False


def route_overlaps(adb):
    """pairs of routes that can match the same request: (i, j, same template, same shape)."""
    rs = adb["routes"]
    out = []
    for i in range(len(rs)):
        for j in range(i + 1, len(rs)):
            a, b = rs[i], rs[j]
            common = a["any"] or b["any"] or (set(a["methods"]) & set(b["methods"]))
            if common and seg_overlap(a["path"], b["path"]):
                out.append((i, j, a["path"] == b["path"], same_shape(a["path"], b["path"])))
    return out


def match_known(R, o, adb, why, also=None):
    """known_findings.json entries for C08; anything else stays a violation."""
    for f in ([x for x in R.kf.get("findings", []) if x["property"] == "C08" and x.get("status") == "known" and also in x.get("also", [])]
              if also else R.known_findings()):
        if f["id"] == "C08-route-specificity-overlap":
            ov = route_overlaps(adb)
            if o["rc"] == 0 and not o["panicked"] and ov and all((not same) and (not shape) for _, _, same, shape in ov) \
                    and not py_problems(adb, False) and not py_problems(adb, True):
                return f
        if f["id"] == "C08-resolution-scope-mismatch":
            lexical, dynamic = py_problems(adb, False), py_problems(adb, True)
            if not lexical and dynamic and (o["panicked"] or o["rc"] == 0) and not error_reports(o["out"]) and not route_overlaps(adb):
                return f
    return None


def match_known_for(R, o):
    """used by C09: a planted program whose crash is explained by a C08 finding that lists C09 under `also`."""
    if not o["klass"].startswith("planted:") or not o.get("spec"):
        return None
    return match_known(R, o, gen_planted.adb_of(o["spec"]), None, also=R.prop)


# ---- replay: one program of a replay file through the current pavexc ----------------------------------

def replay_stage(R):
    import e2e
    rp = json.load(open(R.replay))["replay"]
    if "app_module_source" not in rp:
        raise RuntimeError("replay file names no program (broken proof / correspondence): re-run the check itself")
    name = rp.get("program", "r0")
    e2e.ensure_toolchain(R)
    ok, out = e2e.build_pavexc(R)
    if not ok:
        raise RuntimeError("pavexc does not build: " + out[-1500:])
    root = os.path.join(e2e_stage.SCRATCH, "replay-%d" % os.getpid())
    ws = e2e.Workspace(root, {name: rp["app_module_source"]})
    ws.write()
    rc, out = ws.emit_blueprints()
    if rc != 0:
        raise RuntimeError("replayed application does not compile: " + out[-2000:])
    r = ws.pavexc(name)
    o = {"name": name, "klass": "planted:" + rp["rule"] if not rp["rule"].startswith("corpus:") else "corpus", "spec": rp.get("spec"),
         "corpus": rp["rule"].split(":", 1)[1] if rp["rule"].startswith("corpus:") else None,
         "meta": {"c08": {"adb": rp["abstract_db"], "expect_kinds": []}} if rp["rule"].startswith("corpus:") else None,
         "rc": r["rc"], "panicked": r["panicked"], "timed_out": r["timed_out"], "secs": r["secs"], "out": r["out"][-6000:],
         "files": ws.sdk_files(name), "lib_rs": "", "dot": "", "workspace": root, "src": rp["app_module_source"]}
    if r["rc"] == 0:
        cc = ws.cargo_check([name])
        o["cargo_check"] = {"ok": cc[name][0], "err": cc[name][1]}
    import shutil
    shutil.rmtree(root, ignore_errors=True)
    return {name: o}, {"replay": R.replay, "programs": 1}


# ---- the check ------------------------------------------------------------------------------------

def depgraph_correspondence(programs):
    """every dependency graph the hooked compiler built (one per root: handlers, middlewares, error observers' closures, the
    application state): the tables the real loop consulted are the model's database; compute nodes and the edges between
    them must agree as sets, and the modelled loop must end by itself"""
    lines, meta = [], []
    seen = set()
    for o in programs:
        for r in o.get("dump") or []:
            if r.get("ev") != "depgraph":
                continue
            key = json.dumps(r, sort_keys=True)
            if key in seen:
                continue
            seen.add(key)
            lines.append(json.dumps({k: r[k] for k in ("root", "observers", "inputs", "deps", "eh", "tr")}))
            meta.append((o["name"], r))
    outs = [json.loads(x) for x in pxvlib.run_model("dep", lines)] if lines else []
    dis = []
    stats = {"graphs": len(lines), "with_error_handlers": 0, "with_transformers": 0, "largest": 0, "rounds_needed_more_than_one": 0}
    for (name, r), mo in zip(meta, outs):
        stats["with_error_handlers"] += 1 if r["eh"] else 0
        stats["with_transformers"] += 1 if any(t for _, t in r["tr"]) else 0
        stats["largest"] = max(stats["largest"], len(r["nodes"]))
        if mo.get("r") != "ok" or not mo.get("ended") or sorted(mo["nodes"]) != sorted(r["nodes"]) or \
                sorted(map(tuple, mo["edges"])) != sorted(map(tuple, r["edges"])):
            dis.append({"program": name, "record": r, "model": mo})
    stats["disagreements"] = dis
    return stats


def run(R):
    R.assumptions += [
        "the abstract database is derived from the generator's spec (tools/gen_planted.py adb_of), not from pavexc's internal tables; generic constructors, prebuilt/config types and inputs of error handlers are outside the model",
        "diagnostics are compared as sets of (kind, subjects): which component / type / route each report is about (tools/checks/c08.py PATTERNS, IDENT), not by text or multiplicity",
        "the borrow checker of the request pipelines is not part of this model (C01/C02): when it refuses the by-value use of a never-clone singleton before ApplicationState is examined, the report is accepted as the rule's diagnostic if it names the same type (counted under coverage.by_value_refused_by_pipeline_borrow_checker)",
        "toolchain shim: installed nightly (rustdoc JSON format 57) instead of pavexc's pinned nightly",
    ]
    lean_ok, lrep = pxvlib.lean_obligations(R, ["Pxv.Thm.C08"])
    if R.replay:
        obs, info = replay_stage(R)
    else:
        obs, info = e2e_stage.get_stage(R)
    R.coverage["e2e_stage"] = info
    cases = []
    for o in obs.values():
        if o["klass"].startswith("planted:"):
            cases.append((o, o["klass"].split(":", 1)[1], gen_planted.adb_of(o["spec"])))
        elif o["klass"] == "corpus" and (o.get("meta") or {}).get("c08"):
            cases.append((o, "corpus:" + o["corpus"], o["meta"]["c08"]["adb"]))
    lines = [json.dumps({"op": "check", "db": gen_planted.wire(adb)}) for _, _, adb in cases]
    # minimised witnesses for the model alone
    corpus = [json.loads(l) for l in pxvlib.corpus_lines("C08")]
    lines += [json.dumps({"op": "check", "db": c["db"]}) for c in corpus]
    model_ok = os.path.exists(pxvlib.MODEL_EXE)
    try:
        mouts = [json.loads(x) for x in pxvlib.run_model("rules", lines)] if lines and model_ok else []
    except Exception as e:
        R.log("model driver failed:", e)
        mouts, model_ok = [], False

    hist, per_rule, depth_hist, nest_hist = {}, {}, {}, {}
    n_fail, disagreements, nontrivial = 0, [], set()
    ident_compared = 0
    preempted = 0
    count_mismatch = []   # informational: pavexc reports a cycle once per call graph that contains it
    for k, (o, rule, adb) in enumerate(cases):
        impl_kinds = classify(o["out"])
        ik = set(impl_kinds)
        verdict = "panic" if (o["panicked"] or o["rc"] in (101, 134, -6, -11)) else "timeout" if o["timed_out"] else \
            "accepted" if o["rc"] == 0 else "rejected" if ik else "nonzero-without-diagnostic"
        hist[verdict] = hist.get(verdict, 0) + 1
        pr = per_rule.setdefault(rule, {"n": 0, "rejected_with_expected_kind": 0})
        pr["n"] += 1
        planted = (o["spec"] or {}).get("planted") or {}
        depth_hist[str(planted.get("depth"))] = depth_hist.get(str(planted.get("depth")), 0) + 1
        vs = (planted.get("victim") or [None, None, None])[2]
        level = 0
        while vs:
            vs = adb["scopes"][vs]
            level += 1
        nest_hist[str(level)] = nest_hist.get(str(level), 0) + 1
        why = None
        if rule.startswith("corpus:"):
            exp = set(o["meta"]["c08"]["expect_kinds"])
            if verdict != "rejected" or not exp <= ik:
                why = "corpus witness %s: verdict %s with diagnostics %s, expected rejection with %s" % (rule, verdict, sorted(ik), sorted(exp))
        elif rule == "none":
            if verdict != "accepted":
                why = "control (no violation planted, nested in-class application) not accepted: %s %s" % (verdict, sorted(ik))
            elif not (o.get("cargo_check") or {}).get("ok", False):
                why = "control accepted but its SDK does not compile: %s" % (o.get("cargo_check") or {}).get("err", "")[:200]
        else:
            lib = o["files"].get("src/lib.rs")
            if verdict != "rejected":
                why = "planted violation `%s` not rejected with a diagnostic: pavexc %s (rc=%s)" % (rule, verdict, o["rc"])
            elif not expected_kinds_ok(rule, ik):
                why = "planted violation `%s` rejected, but no diagnostic of the rule's kind: %s" % (rule, sorted(ik))
            elif lib is None or lib["len"] != len("// placeholder\n"):
                why = "planted violation `%s` rejected but the SDK's src/lib.rs was written" % rule
            else:
                pr["rejected_with_expected_kind"] += 1
                nontrivial.add(o["src"])
        if why:
            f = match_known(R, o, adb, why)
            if f is not None:
                R.known_hit(f, "%s %s" % (o["name"], rule))
                pr["known"] = pr.get("known", 0) + 1
            else:
                n_fail += 1
                R.coverage["impl_vs_oracle_failures"] += 1
                if n_fail <= 3:
                    R.violation(why + ": " + " / ".join(error_reports(o["out"]))[:300],
                                {"program": o["name"], "rule": rule, "planted": planted, "spec": o["spec"], "abstract_db": adb,
                                 "app_module_source": o["src"], "pavexc_output_tail": o["out"][-3000:]})
        # correspondence: kinds printed by pavexc == kinds of the model's `check`
        if k < len(mouts) and mouts[k].get("r") == "ok":
            mk = {d[0] for d in mouts[k]["check"]}
            dropped_cs = False
            truncated = len(o["out"]) >= 5990   # the stage keeps the last 6000 characters of pavexc's output
            if verdict == "rejected" and "by_value_borrowck" in ik and mk == {"singleton_by_value"}:
                # outside the model: the borrow checker of the pipeline refused the by-value use of the same
                # never-clone singleton before ApplicationState was examined
                bt = {x[1] for x in identify_impl(o["out"]) if x[0] == "by_value_borrowck"}
                mt = {x[2] for x in identify_model(adb, mouts[k]) if x[0] == "singleton_by_value"}
                if bt & mt:
                    preempted += 1
                    continue
            if verdict == "rejected" and "cross_stage_borrowck" in ik and "singleton_by_value" in mk:
                # outside the model as well: the cross-stage borrow checker (complex_borrow_check) objects to the same
                # by-value use of the never-clone singleton, in addition to the rule's own diagnostic
                bt = {x[1] for x in identify_impl(o["out"]) if x[0] == "cross_stage_borrowck"}
                mt = {x[2] for x in identify_model(adb, mouts[k]) if x[0] == "singleton_by_value"}
                if bt and bt <= mt:
                    preempted += 1
                    ik = ik - {"cross_stage_borrowck"}
                    impl_kinds = [x for x in impl_kinds if x != "cross_stage_borrowck"]
                    dropped_cs = True
            if rule == "singleton_by_value_generic" and verdict == "rejected" and mk == {"missing"} and ik == {"singleton_by_value"}:
                # outside the model: the generic constructor is registered in a blueprint ABOVE the one that registers the
                # singleton it takes by value. The abstract database files the instantiation under the template's scope
                # (where the singleton is not visible: "missing"); pavexc binds the template for the scope that asks for it
                # (get_or_try_bind), finds the singleton and reports the rule the program was planted for. The oracle
                # above has already required exactly that report.
                preempted += 1
                continue
            if verdict in ("rejected", "accepted") and mk != ik and not (truncated and ik <= mk):
                disagreements.append({"program": o["name"], "rule": rule, "model": sorted(mk), "pavexc": sorted(ik),
                                      "model_out": mouts[k], "abstract_db": adb, "failed_oracle": bool(why)})
            elif verdict == "rejected" and not rule.startswith("corpus:"):
                # second level: the diagnostics are about the same components / types / routes
                im, mm = identify_impl(o["out"]), identify_model(adb, mouts[k])
                if dropped_cs:
                    im = {x for x in im if x[0] != "cross_stage_borrowck"}
                ident_compared += 1
                if truncated and im <= mm:
                    mm = im   # reports cut off by the stage: what is left must be among the model's
                if collections.Counter(d[0] for d in mouts[k]["check"]) != collections.Counter(impl_kinds):
                    count_mismatch.append({"program": o["name"], "rule": rule, "model": dict(collections.Counter(d[0] for d in mouts[k]["check"])),
                                           "pavexc": dict(collections.Counter(impl_kinds))})
                if im != mm:
                    disagreements.append({"program": o["name"], "rule": rule, "level": "subjects", "pavexc_only": sorted(map(str, im - mm)),
                                          "model_only": sorted(map(str, mm - im)), "abstract_db": adb, "failed_oracle": bool(why)})
        elif model_ok:
            disagreements.append({"program": o["name"], "rule": rule, "model": "no answer"})
    # the model on its corpus
    for c, mo in zip(corpus, mouts[len(cases):]):
        mk = sorted({d[0] for d in mo.get("check", [])})
        dk = sorted({d[0] for d in mo.get("dynamic", [])})
        if mk != sorted(c["expect_kinds"]) or ("expect_dynamic" in c and dk != sorted(c["expect_dynamic"])):
            disagreements.append({"corpus": c.get("name"), "model": mk, "dynamic": dk, "expected": c["expect_kinds"]})

    # in-process harness: matchit conflicts / cycle search
    h_dis, h_n = harness_part(R)
    R.coverage["programs"] = len(cases)
    R.coverage["evaluations"] = len(cases) + len(lines) + h_n
    R.coverage["distinct_nontrivial"] = len(nontrivial)
    R.coverage["rule"] = ("one program per planted rule and draw (tools/gen_planted.py) through the real pavexc + the Lean model on the derived abstract database; "
                          "non-trivial = distinct planted program that pavexc rejected with a diagnostic of the planted rule's kind and an untouched SDK")
    R.coverage["verdict_histogram"] = hist
    R.coverage["per_rule"] = per_rule
    R.coverage["planted_depth_histogram"] = depth_hist
    R.coverage["victim_nesting_level_histogram"] = nest_hist
    R.coverage["programs_compared_by_subject"] = ident_compared
    R.coverage["by_value_refused_by_pipeline_borrow_checker"] = preempted
    R.coverage["report_multiplicity_differences"] = {"n": len(count_mismatch), "first": count_mismatch[:3]}
    R.coverage["samples"] = [{"program": o["name"], "rule": rule, "pavexc_kinds": sorted(set(classify(o["out"]))), "planted": (o["spec"] or {}).get("planted")}
                             for o, rule, _ in cases[:4]]
    pure = [d for d in disagreements if not d.get("failed_oracle")] + h_dis
    R.coverage["model_vs_impl_disagreements"] = len(pure)
    R.log("planted programs=%d verdicts=%s oracle_failures=%d disagreements=%d harness_cases=%d" % (len(cases), hist, n_fail, len(pure), h_n))
    # the graph the cycle search runs on: `DependencyGraph::build` vs Pxv.Dep.build (hook fa3ad8e), every program of the stage
    dg = depgraph_correspondence(list(obs.values())) if model_ok and not R.replay else {"graphs": 0, "disagreements": []}
    R.coverage["dependency_graph_correspondence"] = {k: (v if k != "disagreements" else len(v)) for k, v in dg.items()}
    broken = []
    if dg["disagreements"]:
        broken.append("correspondence `build` (DependencyGraph::build): the modelled loop and the real one disagree on %d/%d dependency graphs, first: %s" % (
            len(dg["disagreements"]), dg["graphs"], json.dumps(dg["disagreements"][0])[:700]))
    if not lean_ok:
        broken.append("proof obligations of Pxv.Thm.C08 no longer check: %s" % (lrep.get("errors") or lrep.get("bad_axioms") or lrep.get("forbidden_tokens") or lrep.get("audit_error", "")[:300]))
    if not model_ok:
        broken.append("the Lean model driver `pxmodel rules` is unavailable")
    if pure:
        broken.append("correspondence `check`: model and pavexc disagree on %d programs, first: %s" % (len(pure), json.dumps(pure[0])[:600]))
    if broken and n_fail == 0:
        R.violation(" | ".join(broken), {"broken": broken, "theorem_module": "Pxv.Thm.C08", "disagreements": pure[:5]}, no_failing_input=True)


# ---- in-process differential part (harness/crates/rules) -----------------------------------------

def gen_template(rng):
    segs = []
    for _ in range(rng.choice([1, 1, 2, 2, 3])):
        r = rng.random()
        if r < 0.55:
            segs.append(["s", rng.choice(["a", "b", "ab"])])
        else:
            segs.append(["p", rng.choice(["x", "y"])])
    if rng.random() < 0.2:
        segs.append(["c", rng.choice(["r", "s"])])
    return segs


def template_str(segs):
    return "".join("/" + (v if k == "s" else "{%s}" % v if k == "p" else "{*%s}" % v) for k, v in segs)


def harness_part(R):
    ok, out = pxvlib.build_harness(R, "rules")
    if not ok:
        R.violation("harness crate `rules` does not build against the current tree (broken tie)", {"cargo_output_tail": out[-3000:]}, no_failing_input=True)
        return [], 0
    rng = random.Random(R.seed * 31 + 7)
    n = 400 if R.tier == "quick" else 20000
    reqs = []
    names = {}

    def intern(x):
        return names.setdefault(x, len(names))

    for _ in range(n):
        if rng.random() < 0.5:
            p, q = gen_template(rng), gen_template(rng)
            if rng.random() < 0.3:
                q = [list(s) for s in p]
                if q and rng.random() < 0.7:
                    k = rng.randrange(len(q))
                    if q[k][0] != "s":
                        q[k][1] = rng.choice(["x", "y", "z"])
            reqs.append({"op": "shape", "ps": template_str(p), "qs": template_str(q),
                         "p": [[k, intern(v)] for k, v in p], "q": [[k, intern(v)] for k, v in q]})
        else:
            m = rng.randrange(1, 7)
            adj = [sorted({rng.randrange(m) for _ in range(rng.choice([0, 1, 1, 2, 3]))}) for _ in range(m)]
            reqs.append({"op": "cycles", "adj": adj})
    lines = [json.dumps(r) for r in reqs]
    impl = [json.loads(x) for x in pxvlib.run_impl("rules", lines, pkg="rules")]
    model = [json.loads(x) for x in pxvlib.run_model("rules", lines)]
    dis = []
    hh = {}
    for r, a, b in zip(reqs, impl, model):
        if a.get("r") == "invalid":
            hh["invalid-template"] = hh.get("invalid-template", 0) + 1
            continue
        if r["op"] == "shape":
            key = "shape:%s" % a.get("conflict")
            if a.get("conflict") != b.get("conflict"):
                dis.append({"op": "shape", "p": r["ps"], "q": r["qs"], "matchit": a, "model": b})
        else:
            # same DFS, same neighbour order: the reported cycles must be identical lists
            key = "cycles:%s" % a.get("cyclic")
            if a.get("cycles") != b.get("cycles"):
                dis.append({"op": "cycles", "adj": r["adj"], "pavexc": a, "model": b})
            for c in b.get("cycles", []):
                okc = all(c[(i + 1) % len(c)] in r["adj"][c[i]] for i in range(len(c))) if c else False
                if not okc:
                    dis.append({"op": "cycles", "adj": r["adj"], "model_reported_non_cycle": c})
        hh[key] = hh.get(key, 0) + 1
    R.coverage["harness_histogram"] = hh
    return dis, len(reqs)
