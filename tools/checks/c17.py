"""C17 — the type algebra used for dependency matching obeys its laws.

L1: Pxv/Model/Ty.lean (+ Pxv/Model/TyParse.lean): `rustdoc_ir::Type`, bind / is_a_template_for / is_equivalent_to /
    canonicalize / render, and a parser for the rendered grammar.
L2: Pxv/Thm/C17.lean: template_bind (incl. reference mutability), equivalence laws, canonical-form laws,
    parse (render t) = t.
L3: harness/crates/c17 drives the real `rustdoc_ir` public API in-process on generated types (serde form);
    the oracle below checks the laws on the implementation's answers alone (it never looks at the model).
"""
import copy
import json
import re

import pxvlib

# ---------------------------------------------------------------------------------------------
# building blocks (serde representation of rustdoc_ir::Type)

SCALARS = [("Usize", "usize"), ("U8", "u8"), ("U16", "u16"), ("U32", "u32"), ("U64", "u64"), ("U128", "u128"),
           ("Isize", "isize"), ("I8", "i8"), ("I16", "i16"), ("I32", "i32"), ("I64", "i64"), ("I128", "i128"),
           ("F32", "f32"), ("F64", "f64"), ("Bool", "bool"), ("Char", "char"), ("Str", "str")]
SCALAR_NAMES = {n for _, n in SCALARS}
RESERVED = set("""as break const continue crate else enum extern false fn for if impl in let loop match mod move mut
pub ref return self Self static struct super trait true type unsafe use where while async await dyn abstract become
box do final macro override priv typeof unsized virtual yield try gen""".split())
ABI_STRS = {"C", "cdecl", "stdcall", "fastcall", "aapcs", "win64", "sysv64", "system"}
ABIS = ["Rust", "Rust", "Rust", {"C": {"unwind": False}}, {"C": {"unwind": True}}, {"System": {"unwind": False}},
        {"SysV64": {"unwind": True}}, {"Cdecl": {"unwind": False}}, {"Stdcall": {"unwind": False}},
        {"Fastcall": {"unwind": True}}, {"Aapcs": {"unwind": False}}, {"Win64": {"unwind": False}},
        {"Other": "rust-call"}, {"Other": "vectorcall"}]
PATHS = [(["k", "A"], 0), (["k", "m", "B"], 0), (["k", "Holder"], 1), (["std", "vec", "Vec"], 1),
         (["k", "Pair"], 2), (["k", "Cow"], 2), (["k", "m", "Arr"], 3), (["k", "X"], 0)]
PKGS = ["p1", "p1", "p1", "p2"]
IDS = [None, None, 1, 1, 2]
GENERICS = ["T", "U", "V", "A"]
LTNAMES = ["a", "b", "x"]
CONSTS = ["8", "0", "true", "42", "false"]
INPUT_NAMES = [None, None, "x", "y"]
CRATES = {"p1": "kk", "p2": "dep_two"}


def sc(tag):
    return {"ScalarPrimitive": tag}


def gen_lt(rng):
    return rng.choice(["Elided", "Elided", "Static", "Inferred", {"Named": rng.choice(LTNAMES)}])


def gen_glt(rng):
    return rng.choice(["Static", "Inferred", {"Named": rng.choice(LTNAMES)}])


def gen_ty(rng, depth, generics, p_generic=0.25):
    """A random well-formed type of nesting depth <= depth over the given generic names."""
    r = rng.random()
    if generics and r < p_generic:
        return {"Generic": {"name": rng.choice(generics)}}
    if depth <= 0 or r < p_generic + 0.15:
        if rng.random() < 0.6:
            return sc(rng.choice(SCALARS[:6] + SCALARS[14:])[0])
        base, _ = rng.choice([p for p in PATHS if p[1] == 0])
        return {"Path": {"package_id": rng.choice(PKGS), "rustdoc_id": rng.choice(IDS), "base_type": list(base),
                         "generic_arguments": []}}
    sub = lambda: gen_ty(rng, depth - 1, generics, p_generic)
    k = rng.choice(["path", "path", "path", "alias", "ref", "ref", "tuple", "tuple", "slice", "array", "ptr", "fn"])
    if k in ("path", "alias"):
        base, arity = rng.choice(PATHS)
        args = []
        for _ in range(arity):
            x = rng.random()
            if x < 0.7:
                args.append({"TypeParameter": sub()})
            elif x < 0.9:
                args.append({"Lifetime": gen_glt(rng)})
            else:
                args.append({"Const": {"value": rng.choice(CONSTS)}})
        return {"TypeAlias" if k == "alias" else "Path": {
            "package_id": rng.choice(PKGS), "rustdoc_id": rng.choice(IDS), "base_type": list(base),
            "generic_arguments": args}}
    if k == "ref":
        return {"Reference": {"is_mutable": rng.random() < 0.4, "lifetime": gen_lt(rng), "inner": sub()}}
    if k == "tuple":
        return {"Tuple": {"elements": [sub() for _ in range(rng.choice([0, 1, 1, 2, 2, 3]))]}}
    if k == "slice":
        return {"Slice": {"element_type": sub()}}
    if k == "array":
        return {"Array": {"element_type": sub(), "len": rng.choice([0, 1, 4, 32, 1000])}}
    if k == "ptr":
        return {"RawPointer": {"is_mutable": rng.random() < 0.5, "inner": sub()}}
    return {"FunctionPointer": {
        "inputs": [{"name": rng.choice(INPUT_NAMES), "type_": sub()} for _ in range(rng.choice([0, 1, 2, 2]))],
        "output": sub() if rng.random() < 0.6 else None,
        "abi": copy.deepcopy(rng.choice(ABIS)), "is_unsafe": rng.random() < 0.3}}


def tmap(t, f):
    """Rebuilds `t`, applying `f(node) -> replacement | None` top-down (None = recurse)."""
    r = f(t)
    if r is not None:
        return r
    (tag, v), = t.items()
    if tag in ("Path", "TypeAlias"):
        args = []
        for a in v["generic_arguments"]:
            if "TypeParameter" in a:
                args.append({"TypeParameter": tmap(a["TypeParameter"], f)})
            else:
                args.append(copy.deepcopy(a))
        return {tag: dict(v, base_type=list(v["base_type"]), generic_arguments=args)}
    if tag == "Reference":
        return {tag: dict(v, inner=tmap(v["inner"], f))}
    if tag == "Tuple":
        return {tag: {"elements": [tmap(e, f) for e in v["elements"]]}}
    if tag == "Slice":
        return {tag: {"element_type": tmap(v["element_type"], f)}}
    if tag == "Array":
        return {tag: {"element_type": tmap(v["element_type"], f), "len": v["len"]}}
    if tag == "RawPointer":
        return {tag: dict(v, inner=tmap(v["inner"], f))}
    if tag == "FunctionPointer":
        return {tag: {"inputs": [{"name": i["name"], "type_": tmap(i["type_"], f)} for i in v["inputs"]],
                      "output": None if v["output"] is None else tmap(v["output"], f),
                      "abi": copy.deepcopy(v["abi"]), "is_unsafe": v["is_unsafe"]}}
    return copy.deepcopy(t)


def nodes(t):
    out = []

    def f(n):
        out.append(n)
        return None
    tmap(t, f)
    return out


def subst(t, s):
    return tmap(t, lambda n: copy.deepcopy(s[n["Generic"]["name"]]) if "Generic" in n and n["Generic"]["name"] in s else None)


APPLICABLE = {
    "Reference": ["lt", "mut"], "Path": ["lt", "id", "alias", "pkg"], "TypeAlias": ["lt", "id", "alias", "pkg"],
    "FunctionPointer": ["name", "abi", "unsafe", "fnout", "fnarity"], "RawPointer": ["mut"], "Array": ["len"],
    "ScalarPrimitive": ["scalar"], "Tuple": ["arity"],
}
IGNORED = ["lt", "name"]                     # what matching / equivalence (should) ignore
IGNORED_BY_TEMPLATE = ["lt", "name", "id"]   # template matching also ignores rustdoc ids
SIGNIFICANT = ["mut", "alias", "pkg", "len", "scalar", "abi", "unsafe", "arity", "id", "fnout", "fnarity"]


def perturb(rng, t, p, kinds):
    """Copies `t`; with probability p per node changes one thing of the listed kinds that applies to it."""
    def f(n):
        (tag, v), = n.items()
        ks = [k for k in APPLICABLE.get(tag, []) if k in kinds]
        if not ks or rng.random() >= p:
            return None
        k = rng.choice(ks)
        n2 = tmap(n, lambda m: None if m is n else f(m))   # children first (they may change too)
        v2 = n2[tag]
        if k == "lt" and tag == "Reference":
            v2["lifetime"] = gen_lt(rng)
        elif k == "lt":
            v2["generic_arguments"] = [{"Lifetime": gen_glt(rng)} if "Lifetime" in a else a for a in v2["generic_arguments"]]
        elif k == "mut":
            v2["is_mutable"] = not v2["is_mutable"]
        elif k == "id":
            v2["rustdoc_id"] = rng.choice(IDS)
        elif k == "alias":
            return {("Path" if tag == "TypeAlias" else "TypeAlias"): v2}
        elif k == "pkg":
            v2["package_id"] = rng.choice(PKGS)
        elif k == "name":
            for i in v2["inputs"]:
                i["name"] = rng.choice(INPUT_NAMES)
        elif k == "abi":
            v2["abi"] = copy.deepcopy(rng.choice(ABIS))
        elif k == "unsafe":
            v2["is_unsafe"] = not v2["is_unsafe"]
        elif k == "fnout":
            # a return type appears or disappears (seeded change C17-4: zip over inputs ++ output dropped the unpaired one)
            v2["output"] = sc("U8") if v2["output"] is None else None
        elif k == "fnarity":
            if v2["inputs"] and rng.random() < 0.5:
                v2["inputs"].pop()
            else:
                v2["inputs"].append({"name": None, "type_": sc("U8")})
        elif k == "len":
            v2["len"] = v2["len"] + 1
        elif k == "scalar":
            return sc(rng.choice(SCALARS)[0])
        elif k == "arity":
            if v2["elements"] and rng.random() < 0.5:
                v2["elements"].pop()
            else:
                v2["elements"].append(sc("U8"))
        return n2
    return tmap(t, f)


def with_generics(rng, depth, generics, p_generic):
    for _ in range(6):
        a = gen_ty(rng, depth, generics, p_generic)
        if is_template(a):
            return a
    return {"Tuple": {"elements": [a, {"Generic": {"name": rng.choice(generics)}}]}}


def rename(rng, t, injective=True):
    names = sorted({n["Generic"]["name"] for n in nodes(t) if "Generic" in n})
    pool = ["P", "Q", "R", "S", "T", "U"]
    rng.shuffle(pool)
    if injective:
        m = {n: pool[i % len(pool)] for i, n in enumerate(names)}
    else:
        m = {n: rng.choice(pool[:2]) for n in names}
    return subst(t, {k: {"Generic": {"name": v}} for k, v in m.items()})


MALFORMED = [
    lambda rng: {"Generic": {"name": rng.choice(["u8", "str", "fn", "mut", "a b", "", "T<", "_"])}},
    lambda rng: {"Path": {"package_id": rng.choice(["p1", "nope"]), "rustdoc_id": None,
                          "base_type": rng.choice([[], ["solo"], ["u8"], ["k", "fn"], ["k", "", "Z"]]),
                          "generic_arguments": []}},
    lambda rng: {"Path": {"package_id": "p1", "rustdoc_id": 7, "base_type": ["k", "Holder"],
                          "generic_arguments": [{"Const": {"value": rng.choice(["'a'", "{ N }", "-1", "", "1 + 1", "T"])}}]}},
    lambda rng: {"Reference": {"is_mutable": rng.random() < 0.5,
                               "lifetime": {"Named": rng.choice(["static", "_", "", "a b", "'q"])}, "inner": sc("U8")}},
    lambda rng: {"FunctionPointer": {"inputs": [{"name": rng.choice(["", "mut", "a:"]), "type_": sc("U8")}], "output": None,
                                     "abi": {"Other": rng.choice(["C", "", "a\"b", "C-unwind", "system"])}, "is_unsafe": False}},
    lambda rng: {"Path": {"package_id": "p1", "rustdoc_id": None, "base_type": ["k", "Cow"],
                          "generic_arguments": [{"Lifetime": {"Named": rng.choice(["static", "_", ""])}},
                                                {"TypeParameter": sc("Str")}]}},
]


def gen(rng):
    depth = rng.choice([1, 2, 2, 3, 3, 4, 5, 6])
    strat = rng.choice(["instance", "instance", "instance", "rename", "rename", "rename", "random", "same", "malformed", "rebind"])
    crates = dict(CRATES)
    if rng.random() < 0.05:
        crates.pop("p2")
    if strat == "instance":
        a = with_generics(rng, depth, GENERICS[:rng.choice([1, 2, 2, 3])], 0.35)
        names = sorted({n["Generic"]["name"] for n in nodes(a) if "Generic" in n})
        s = {n: gen_ty(rng, rng.choice([0, 1, 2]), GENERICS if rng.random() < 0.1 else []) for n in names}
        b = subst(a, s)
        mode = rng.random()
        if mode < 0.3:
            b = perturb(rng, b, 0.5, IGNORED_BY_TEMPLATE)          # should still match
        elif mode < 0.7:
            b = perturb(rng, b, 0.3, IGNORED_BY_TEMPLATE)
            b = perturb(rng, b, rng.choice([0.1, 0.3, 0.6]), SIGNIFICANT)   # should (mostly) not match
        elif mode < 0.85:
            # one occurrence of a repeated generic instantiated differently
            seen = []

            def f(n):
                if "Generic" in n and rng.random() < 0.4 and not seen:
                    seen.append(1)
                    return gen_ty(rng, 1, [])
                return None
            b = subst(tmap(a, f), s)
        c = gen_ty(rng, 2, [])
        if rng.random() < 0.1:
            a, b = b, a                                             # concrete "template", templated "concrete" type
    elif strat == "rebind":
        # one template parameter used twice as a direct generic argument of a path (`Pair<T, T>`), bound against two
        # arguments that agree, differ only in lifetimes, differ only in the names of nested generic parameters
        # (`Pair<Vec<X>, Vec<Y>>`: no template, the second binding contradicts the first) or differ structurally
        g = rng.choice(GENERICS[:2])
        base = rng.choice([["k", "Pair"], ["k", "Cow"]])
        mk = lambda x, y: {"Path": {"package_id": "p1", "rustdoc_id": rng.choice(IDS), "base_type": list(base),
                                    "generic_arguments": [{"TypeParameter": x}, {"TypeParameter": y}]}}
        a = mk({"Generic": {"name": g}}, {"Generic": {"name": g}})
        x = with_generics(rng, rng.choice([1, 1, 2]), ["X", "Y"], 0.4) if rng.random() < 0.7 else gen_ty(rng, rng.choice([1, 2]), [])
        how = rng.random()
        if how < 0.25:
            y = copy.deepcopy(x)
        elif how < 0.5:
            y = perturb(rng, x, 0.6, ["lt"])
        elif how < 0.85:
            y = rename(rng, x, injective=True)
        else:
            y = gen_ty(rng, 1, [])
        b = mk(x, y)
        if rng.random() < 0.3:
            a = {"Reference": {"is_mutable": False, "lifetime": "Elided", "inner": a}} if False else {"Tuple": {"elements": [a, sc("U8")]}}
            b = {"Tuple": {"elements": [b, sc("U8")]}}
        c = gen_ty(rng, 1, [])
    elif strat == "rename":
        a = with_generics(rng, depth, GENERICS[:rng.choice([1, 2, 3, 4])], 0.35)
        b = rename(rng, a, injective=rng.random() < 0.75)
        if rng.random() < 0.6:
            b = perturb(rng, b, 0.4, IGNORED)
        if rng.random() < 0.5:
            b = perturb(rng, b, rng.choice([0.2, 0.5, 0.8]), SIGNIFICANT)
        c = rename(rng, b, injective=rng.random() < 0.75)
        if rng.random() < 0.5:
            c = perturb(rng, c, 0.3, IGNORED)
        if rng.random() < 0.25:
            c = perturb(rng, c, 0.2, SIGNIFICANT)
    elif strat == "random":
        d = rng.choice([0, 1, 1, 2])
        a, b, c = (gen_ty(rng, d, GENERICS[:2]) for _ in range(3))
    elif strat == "same":
        a = gen_ty(rng, depth, GENERICS[:2] if rng.random() < 0.5 else [])
        b = copy.deepcopy(a)
        c = perturb(rng, a, 0.3, IGNORED)
    else:
        bad = rng.choice(MALFORMED)(rng)
        host = gen_ty(rng, rng.choice([0, 1, 2]), GENERICS[:1])
        done = []

        def f(n):
            if not done and rng.random() < 0.4:
                done.append(1)
                return bad
            return None
        a = tmap(host, f) if rng.random() < 0.7 else bad
        b = copy.deepcopy(a) if rng.random() < 0.5 else gen_ty(rng, 1, [])
        c = gen_ty(rng, 1, [])
    lt_name = rng.choice(["q", "'q", "a", "_", "'_", "static", "'static", "b"])
    keys = [k for k in LTNAMES + ["zz"] if rng.random() < 0.5]
    lt_map = [[k, rng.choice(["z", "'y", "a", "b", "x", "_", "static", "'static"])] for k in keys]
    if keys and rng.random() < 0.2:
        lt_map.append([keys[0], "dup"])     # a second entry for the same key: the first one counts
    return {"a": a, "b": b, "c": c, "crates": crates, "wf": wf(a), "strategy": strat,
            "lt_name": lt_name, "lt_map": lt_map}


# ---------------------------------------------------------------------------------------------
# independent readings used by the oracle

IDENT = re.compile(r"^[A-Za-z_][A-Za-z0-9_]*$")


def is_ident(s):
    return isinstance(s, str) and bool(IDENT.match(s)) and s != "_" and s not in RESERVED


def wf_lt_name(n):
    return is_ident(n)


def wf(t):
    """Inside the grammar for which `parse (render t) = t` is claimed (mirrors `Pxv.Ty.wf`; the diff on
    the echoed `wf` field catches any drift between the two)."""
    for n in nodes(t):
        (tag, v), = n.items()
        if tag in ("Path", "TypeAlias"):
            if len(v["base_type"]) < 2 or not all(is_ident(s) for s in v["base_type"]):
                return False
            for a in v["generic_arguments"]:
                if "Lifetime" in a and isinstance(a["Lifetime"], dict) and not wf_lt_name(a["Lifetime"]["Named"]):
                    return False
                if "Const" in a:
                    c = a["Const"]["value"]
                    if not (c in ("true", "false") or (c != "" and all(ch in "0123456789" for ch in c))):
                        return False
        elif tag == "Reference":
            if isinstance(v["lifetime"], dict) and not wf_lt_name(v["lifetime"]["Named"]):
                return False
        elif tag == "Generic":
            if not is_ident(v["name"]) or v["name"] in SCALAR_NAMES:
                return False
        elif tag == "FunctionPointer":
            for i in v["inputs"]:
                if i["name"] is not None and not is_ident(i["name"]):
                    return False
            if isinstance(v["abi"], dict) and "Other" in v["abi"]:
                s = v["abi"]["Other"]
                base = s[:-7] if s.endswith("-unwind") else s
                if s == "" or base in ABI_STRS or not all(ch.isalnum() or ch in "_-" for ch in s) or not s.isascii():
                    return False
    return True


def erase(t, ids=True, generics=False):
    """Forgets what "up to lifetimes" forgets: every lifetime, fn-pointer parameter names, and optionally
    rustdoc ids (template matching deliberately ignores them) / generic parameter names (equivalence)."""
    def f(n):
        (tag, v), = n.items()
        if tag in ("Path", "TypeAlias"):
            args = []
            for a in v["generic_arguments"]:
                if "Lifetime" in a:
                    args.append({"Lifetime": "*"})
                elif "TypeParameter" in a:
                    args.append({"TypeParameter": tmap(a["TypeParameter"], f)})
                else:
                    args.append(copy.deepcopy(a))
            return {tag: dict(v, rustdoc_id="*" if ids else v["rustdoc_id"], generic_arguments=args)}
        if tag == "Reference":
            return {tag: dict(v, lifetime="*", inner=tmap(v["inner"], f))}
        if tag == "FunctionPointer":
            return {tag: {"inputs": [{"name": None, "type_": tmap(i["type_"], f)} for i in v["inputs"]],
                          "output": None if v["output"] is None else tmap(v["output"], f),
                          "abi": v["abi"], "is_unsafe": v["is_unsafe"]}}
        if tag == "Generic" and generics:
            return {"Generic": {"name": "*"}}
        return None
    return tmap(t, f)


def lt_skeleton(t):
    """Everything but generic names, fn-pointer parameter names and lifetimes — except whether a lifetime is 'static."""
    def f(n):
        (tag, v), = n.items()
        if tag in ("Path", "TypeAlias"):
            args = []
            for a in v["generic_arguments"]:
                if "Lifetime" in a:
                    args.append({"Lifetime": "Static" if a["Lifetime"] == "Static" else "*"})
                elif "TypeParameter" in a:
                    args.append({"TypeParameter": tmap(a["TypeParameter"], f)})
                else:
                    args.append(copy.deepcopy(a))
            return {tag: dict(v, generic_arguments=args)}
        if tag == "Reference":
            return {tag: dict(v, lifetime="Static" if v["lifetime"] == "Static" else "*", inner=tmap(v["inner"], f))}
        if tag == "FunctionPointer":
            return {tag: {"inputs": [{"name": None, "type_": tmap(i["type_"], f)} for i in v["inputs"]],
                          "output": None if v["output"] is None else tmap(v["output"], f),
                          "abi": v["abi"], "is_unsafe": v["is_unsafe"]}}
        if tag == "Generic":
            return {"Generic": {"name": "*"}}
        return None
    return tmap(t, f)


def strip(t):
    """What survives rendering to source: no package id, no rustdoc id, aliases are paths."""
    def f(n):
        (tag, v), = n.items()
        if tag in ("Path", "TypeAlias"):
            args = [{"TypeParameter": tmap(a["TypeParameter"], f)} if "TypeParameter" in a else copy.deepcopy(a)
                    for a in v["generic_arguments"]]
            return {"Path": {"package_id": "", "rustdoc_id": None, "base_type": list(v["base_type"]),
                             "generic_arguments": args}}
        return None
    return tmap(t, f)


def is_template(t):
    return any("Generic" in n for n in nodes(t))


def oracle(case, out):
    """The laws of C17 checked on the implementation's answers alone."""
    if out.get("r") != "ok":
        return "unexpected outcome %r" % (out,)
    a, b, c = case["a"], case["b"], case["c"]
    # (1) template => bind reproduces the concrete type up to lifetimes, mutability included
    t = out["tmpl_ab"]
    if t is not None and not is_template(b):
        if erase(t["bound"]) != erase(b):
            return "is_a_template_for(a, b) = Some(bindings) but binding them into a does not yield b (up to lifetimes): bound=%s" % json.dumps(t["bound"])
    # (2) equivalence laws
    if out["eq_aa"] is None:
        return "is_equivalent_to is not reflexive on a"
    if (out["eq_ab"] is None) != (out["eq_ba"] is None):
        return "is_equivalent_to is not symmetric on (a, b)"
    if out["eq_ab"] is not None and sorted([y, x] for x, y in out["eq_ab"]) != sorted(out["eq_ba"]):
        return "is_equivalent_to(b, a) is not the inverse renaming of is_equivalent_to(a, b)"
    if out["eq_ab"] is not None and out["eq_bc"] is not None and out["eq_ac"] is None:
        return "is_equivalent_to is not transitive on (a, b, c)"
    if out["eq_ab"] is not None and erase(a, ids=False, generics=True) != erase(b, ids=False, generics=True):
        return "is_equivalent_to relates types that differ in more than lifetimes and generic parameter names"
    if out["eq_ab"] is not None:
        m = dict(out["eq_ab"])
        if len(set(m.values())) != len(m):
            return "is_equivalent_to returned a non-injective renaming"
        ren = subst(a, {k: {"Generic": {"name": v}} for k, v in m.items()})
        if erase(ren, ids=False) != erase(b, ids=False):
            return "renaming a by the map returned from is_equivalent_to(a, b) does not give b (up to lifetimes)"
    # (3) canonical forms
    if out["canon2_a"] != out["canon_a"]:
        return "canonicalize is not idempotent on a"
    if out["canon_eq_ab"] != (out["canon_a"] == out["canon_b"]):
        return "CanonicalType equality disagrees with equality of the canonical types"
    if out["canon_eq_ab"] and out["eq_ab"] is None:
        return "a and b have equal canonical forms but are not equivalent"
    if out["canon_eq_ab"] != (out["eq_ab"] is not None and lt_skeleton(a) == lt_skeleton(b)):
        return "canonical forms are not complete: canon(a) == canon(b) is %s but equivalent=%s and same static-lifetime skeleton=%s" % (
            out["canon_eq_ab"], out["eq_ab"] is not None, lt_skeleton(a) == lt_skeleton(b))
    if out["same_ab"] != (a == b):
        return "`==` on Type disagrees with structural equality of the inputs"
    if out["same_ab"] and not out["canon_eq_ab"]:
        return "equal types have different canonical forms"
    # (3') lifetime names never matter for canonical forms (unless a rewrite introduces 'static)
    def unq(n):
        return n[1:] if n.startswith("'") else n
    if "lt_name" in case:
        if unq(case["lt_name"]) != "_" and out["has_implicit_after"]:
            return "set_implicit_lifetimes left an implicit lifetime behind"
        if unq(case["lt_name"]) != "static" and out["canon_set_implicit_a"] != out["canon_a"]:
            return "set_implicit_lifetimes changed the canonical form"
        if all(unq(v) != "static" for _, v in case["lt_map"]) and out["canon_rename_a"] != out["canon_a"]:
            return "rename_lifetime_parameters changed the canonical form"
        if out["has_implicit_a"] != any(l in ("Inferred", "Elided") for l in out["lifetimes_a"]):
            return "has_implicit_lifetime_parameters disagrees with lifetime_parameters"
        if out["named_lifetimes_a"] != [l["Named"] for l in out["lifetimes_a"] if isinstance(l, dict)]:
            return "named_lifetime_parameters disagrees with lifetime_parameters"
    # (4) render -> parse is lossless (syn reads the rendered source back)
    if case.get("wf"):
        if out.get("reparse_a") != strip(a):
            return "rendering a and parsing it back (syn) does not give a back: rendered %r, read back %s" % (
                out["render_a"]["err"], json.dumps(out.get("reparse_a")))
        # the same through `render_type` (crate names looked up by package id), the input of `syn_type`
        crates = case.get("crates", {})
        pk = {n["Path" if "Path" in n else "TypeAlias"]["package_id"] for n in nodes(a) if "Path" in n or "TypeAlias" in n}
        if all(p in crates for p in pk):
            def f(n):
                (tag, v), = n.items()
                if tag in ("Path", "TypeAlias"):
                    n2 = tmap(n, lambda m: None if m is n else f(m))
                    n2[tag]["base_type"] = [crates[v["package_id"]]] + list(v["base_type"][1:])
                    return n2
                return None
            expect = strip(tmap(a, f))
            if wf(tmap(a, f)) and out.get("reparse_type_a") != expect:
                return "render_type(a) parsed back (syn) does not give a back: rendered %r, read back %s" % (
                    out["render_a"]["type"], json.dumps(out.get("reparse_type_a")))
        elif out["render_a"]["type"] is not None:
            return "render_type succeeded although a package id has no crate name"
    return None


def nontrivial(case, out):
    if out.get("r") != "ok":
        return False
    a, b = case["a"], case["b"]
    if out["tmpl_ab"] is not None and out["tmpl_ab"]["b"] and not is_template(b):
        return True
    if out["eq_ab"] is not None and a != b and out["eq_ab"]:
        return True
    if out["canon_eq_ab"] and a != b:
        return True
    if case.get("wf") and len(nodes(a)) >= 4:
        return True
    return False


def mutate(rng, c):
    c = copy.deepcopy(c)
    which = rng.choice(["a", "b", "c"])
    c[which] = perturb(rng, c[which], 0.3, IGNORED + SIGNIFICANT)
    c["wf"] = wf(c["a"])
    return c


def run(R):
    R.assumptions += [
        "HashMap<String, Type> (bindings), UnassignedIdGenerator and the generic_name_map/counter pair of _canonicalize are modelled as association / first-seen lists (same observable answers; validated by this correspondence)",
        "guppy::PackageId and rustdoc_types::Id are opaque keys compared by equality (modelled as a string and a number)",
        "parse (render t) = t is claimed for types whose names are Rust identifiers (no keywords), paths of >= 2 segments, const arguments that are integer or bool literals; package id, rustdoc id and the alias flag are not part of the rendered source",
    ]
    R.coverage["trusted_base"].append("syn 2 (the Rust type grammar) as the reader of rendered types in the implementation-side oracle; harness/crates/c17/src/reparse.rs converts syn::Type back to the serde form")
    hist = {}
    orig_gen = gen

    def g(rng):
        c = orig_gen(rng)
        hist[c["strategy"]] = hist.get(c["strategy"], 0) + 1
        hist["wf"] = hist.get("wf", 0) + (1 if c["wf"] else 0)
        return c
    R.coverage["input_histogram"] = hist
    pxvlib.differential(
        R, modules=["Pxv.Thm.C17"], model="ty", pkg="c17", gen=g, oracle=oracle, nontrivial=nontrivial, mutate=mutate,
        n_quick=4000, n_thorough=150000,
        rule="triples (a, b, c) of types (all variants, nesting depth <= 6, shared small alphabets of generic names, lifetimes of all kinds, "
             "package ids, rustdoc ids, ABIs): b an instance of template a (exact / perturbed in ignored places / perturbed in significant places / "
             "inconsistent instantiation), b and c renamings of a (bijective or not, perturbed or not), independent small types, equal types, and a malformed stream "
             "(non-identifier names, empty paths, unknown packages); non-trivial = template match with non-empty bindings on a concrete type, or equivalence of "
             "different types with a non-empty renaming, or equal canonical forms of different types, or a well-formed type of >= 4 nodes read back by syn; distinct by full input",
    )
    if R.tier == "thorough" and not R.replay:
        if not pxvlib.leanchecker(R, ["Pxv.Thm.C17"]):
            R.violation("leanchecker rejects the compiled theorem module Pxv.Thm.C17", {"module": "Pxv.Thm.C17"}, no_failing_input=True)
