"""C09 — the compiler always terminates with a verdict and fails atomically.

L2  lean/Pxv/Thm/C09.lean: verdict_total, reject_atomic, accept_exit0 over the model of
    `pavexc_cli::generate`; termination of every modelled loop is Lean's own termination check;
    Thm/C02 order_never_stuck_of_run kills the `unreachable!("stuck")` of the ordering step.
    PARTIAL: pavexc's other panic sites (assert!/unwrap/unreachable! outside the modelled passes) are
    only explored by the generated applications of this run.
L3  every generated application (valid, rule-breaking, corpus witnesses of past panics) through the real
    pavexc under a wall-clock limit: exit code / panic / timeout / error-report count; for rejected
    blueprints a real, previously generated SDK must stay byte-for-byte (and mtime) untouched.
"""
import os

import e2e_stage
import pxvlib


def classify(o):
    if o["timed_out"]:
        return "timeout"
    if o["panicked"] or o["rc"] in (101, 134, -6, -11):
        return "panic"
    if o["rc"] == 0:
        return "accepted"
    if o["rc"] != 0 and "ERROR" in o["out"]:
        return "rejected"
    return "nonzero-without-diagnostic"


def run(R):
    R.assumptions += [
        "termination is observed under a 300 s wall-clock limit per blueprint",
        "atomicity is about failures caused by the blueprint (error diagnostics); I/O faults and internal codegen errors are outside the quantifier (the model shows the manifests are written before lib.rs is parsed)",
        "toolchain shim: installed nightly (rustdoc JSON format 57) instead of pavexc's pinned nightly",
    ]
    lean_ok, lrep = pxvlib.lean_obligations(R, ["Pxv.Thm.C09"])
    obs, info = e2e_stage.get_stage(R)
    R.coverage["e2e_stage"] = info
    hist, n_viol = {}, 0
    for o in obs.values():
        c = classify(o)
        hist[c] = hist.get(c, 0) + 1
        bad = None
        if c in ("timeout", "panic", "nonzero-without-diagnostic"):
            bad = "pavexc did not end with a verdict: %s (rc=%s)" % (c, o["rc"])
        elif c == "accepted" and not o["lib_rs"]:
            bad = "exit 0 but no src/lib.rs was written"
        elif c == "rejected":
            # placeholders pre-created by the harness must be untouched
            lib = o["files"].get("src/lib.rs")
            if lib is None or lib["len"] != len("// placeholder\n"):
                bad = "blueprint rejected but the SDK's src/lib.rs was modified"
        if bad:
            kf = pxvlib.corpus_known(R, o)
            if kf is None and o["klass"].startswith("planted:"):
                try:  # violations planted by the C08 family may hit a finding recorded by that slice
                    from checks import c08
                    kf = c08.match_known_for(R, o) if hasattr(c08, "match_known_for") else None
                except ImportError:
                    kf = None
            if kf is None and c == "panic" and "on an `Err` value: Conflict { with:" in o["out"] and "analyses/user_components/router.rs" in o["out"]:
                kf = next((f for f in R.known_findings() if f["id"] == "C09-router-template-lookup-panic"), None)
            if kf is not None:
                R.known_hit(kf, o.get("corpus") or o["name"])
                continue
            R.coverage["impl_vs_oracle_failures"] += 1
            n_viol += 1
            if n_viol <= 3:
                R.violation(bad + ": " + " / ".join(l.strip() for l in o["out"].split("\n") if "panicked" in l or "unreachable" in l or "×" in l)[:300],
                            {"program": o["name"], "klass": o["klass"], "corpus": o.get("corpus"), "spec": o["spec"],
                             "app_module_source": o["src"], "pavexc_output_tail": o["out"][-3000:]})
    # atomicity against a real SDK
    accepted = [o for o in obs.values() if o["rc"] == 0]
    rejected = [o for o in obs.values() if classify(o) == "rejected"]
    k = 3 if R.tier == "quick" else 25
    atom = 0
    for r, a in list(zip(rejected, accepted * (len(rejected) // max(1, len(accepted)) + 1)))[:k]:
        if r["workspace"] != a["workspace"]:
            continue
        ws = e2e_stage.workspace_of(a, info)
        paths = [os.path.join(ws.root, "sdk", a["name"], "Cargo.toml"), os.path.join(ws.root, "sdk", a["name"], "src", "lib.rs"),
                 os.path.join(ws.root, "Cargo.toml")]
        before = e2e_stage.snapshot(paths)
        res = ws.pavexc(r["name"], dump=False, out_dir=os.path.join("sdk", a["name"]))
        after = e2e_stage.snapshot(paths)
        atom += 1
        if res["rc"] == 0 or before != after:
            n_viol += 1
            R.coverage["impl_vs_oracle_failures"] += 1
            R.violation("failing run of pavexc modified files of an existing SDK (rc=%s): %s" % (res["rc"], [p for p in paths if before[p] != after[p]]),
                        {"rejected_program": r["name"], "into_sdk_of": a["name"], "rejected_source": r["src"], "before": before, "after": after})
    R.coverage["programs"] = len(obs)
    R.coverage["evaluations"] = len(obs) + atom
    R.coverage["distinct_nontrivial"] = len({o["src"] for o in obs.values() if classify(o) != "accepted"}) + atom
    R.coverage["rule"] = ("every generated/corpus application through the real pavexc (verdict classification) + failing blueprints re-run "
                          "with -o pointing at a real SDK generated earlier (bytes and mtime compared); non-trivial = distinct rejected program or atomicity run")
    R.coverage["verdict_histogram"] = hist
    R.coverage["atomicity_runs"] = atom
    R.coverage["samples"] = [{"program": o["name"], "klass": o["klass"], "verdict": classify(o), "secs": o["secs"]} for o in list(obs.values())[:4]]
    R.log("verdicts=%s atomicity_runs=%d violations=%d" % (hist, atom, n_viol))
    if not lean_ok and n_viol == 0:
        R.violation("proof obligations of Pxv.Thm.C09 no longer check: %s" % (lrep.get("errors") or lrep.get("bad_axioms") or lrep.get("forbidden_tokens")),
                    {"theorem_module": "Pxv.Thm.C09"}, no_failing_input=True)
