"""C06 — errors reach the right handler, every observer, and stop the pipeline.

L2  lean/Pxv/Thm/C06.lean (see the claim file).
L3  generated applications (tools/gen_errors.py: fallible constructors / middlewares / handlers on different
    branches, error handlers designated in every way pavex offers, observers registered at different points,
    nested blueprints) are compiled by the real pavexc and served; every fallible component is made to fail
    in turn (and several at once).
    * correspondence `errors`: the Lean model executes the *real* ordered call graphs dumped by the hooked
      pavexc (one per middleware / handler closure) with its mirror of codegen.rs, composes them with its
      mirror of the stage functions, and must reproduce the trace and status of every request; it also
      derives, from the blueprint alone, the middleware chain, the observer chain and the designated error
      handler of every fallible component and checks that every error arm of every real graph has exactly
      that shape; and re-running its mirror of the observer splice + `inject_match_branching_nodes` on the
      un-spliced real graph must give the real graph back.
    * oracle (model-free, Python): the property read off the real trace: nothing that depends on the failed
      value logs after `fail X`; exactly the designated handler runs, once; the observers registered before
      the route run once each, in order, after the handler and before any enclosing post / wrap-end; status =
      the handler's.
"""
import json
import os
import re

import e2e_stage
import pxvlib

FAMILY = "errors"


# ---- dump -> model graphs -------------------------------------------------------------------------

def node_kind(m, n):
    k, label = n["kind"], n["label"]
    if k == "branch":
        return "br"
    if k == "input":
        return "in"
    mm = re.match(r"app::%s::([chmxo])(\d+)\b" % re.escape(m), label)
    if mm:
        return mm.group(1) + mm.group(2)
    if label.startswith("pavex::Error::to_response("):
        return "xd"
    if label.startswith("pavex::Error::new("):
        return "new"
    if re.match(r"<.* as pavex::IntoResponse>::into_response\(", label):
        return "ir"
    if label.startswith("pavex::middleware::Processing::EarlyReturn("):
        return "er"
    if label.startswith("pavex::middleware::wrap_noop("):
        return "noop"
    if label.startswith("pavex::router::default_fallback("):
        return "fallback"
    mm = re.match(r"match core::result::Result<(.*)> -> (.*)$", label)
    if mm:
        inner, out = mm.group(1), mm.group(2)
        if inner.startswith(out + ", "):
            return "ok"
        if inner.endswith(", " + out):
            return "err"
        return "other"
    return "other"


def ordered_graph(m, checked, order):
    """the graph pavexc generates code from: node id = position."""
    pos = {a: b for a, b in order["pos"]}
    nodes = [None] * len(pos)
    for n in checked["g"]["nodes"]:
        nodes[pos[n["i"]]] = node_kind(m, n)
    edges = [[pos[a], pos[b], k] for a, b, k in checked["g"]["edges"]]
    return {"nodes": nodes, "edges": edges}


def pipelines(m, dump):
    """split the dump of one application into request pipelines: {handler kind: [closure graphs]}"""
    out, cur = {}, []
    i = 0
    graphs = []
    dump = [r for r in dump if r.get("ev") in ("input", "checked", "order")]   # the per-pass records are C01's
    while i < len(dump):
        if dump[i].get("ev") == "input" and i + 2 < len(dump) + 0 and dump[i + 1].get("ev") == "checked" and dump[i + 2].get("ev") == "order":
            graphs.append(ordered_graph(m, dump[i + 1], dump[i + 2]))
            i += 3
        else:
            i += 1
    for g in graphs:
        roots = [k for k in g["nodes"] if re.match(r"^(h\d+|m\d+|noop|fallback)$", k)]
        if not roots:
            continue  # the application-state graph
        cur.append(g)
        if roots[0] == "noop":
            hs = [k for gg in cur for k in gg["nodes"] if re.match(r"^(h\d+|fallback)$", k)]
            if hs:
                out.setdefault(hs[0], []).append(cur)
            cur = []
    return out


# ---- real trace -> events ---------------------------------------------------------------------------

def real_events(trace, m):
    out = []
    for l in trace:
        p = l.split()
        if len(p) < 2 or not p[1].startswith(m + "."):
            continue
        name = p[1].split(".", 1)[1]
        if p[0] == "clone":
            continue
        out.append("%s %s" % (p[0], name))
    return out


# ---- model-free reading of the property ---------------------------------------------------------------

def walk_routes(ops, chain, obs, path, k, out):
    """independent reading of the scoping rules: for every route its observers and blueprint path."""
    chain, obs = list(chain), list(obs)
    nests = 0
    for op in ops:
        if op[0] == "obs":
            obs.append(op[1])
        elif op[0] == "mw":
            chain.append(op[1])
        elif op[0] == "route":
            out[op[1]] = {"observers": list(obs), "chain": list(chain), "path": list(path)}
        elif op[0] == "nest":
            walk_routes(op[1], chain, obs, path + [nests], 0, out)
            nests += 1
    return out


def decl(ops, tag, i, path):
    nests = 0
    for op in ops:
        if op[0] == {"c": "ctor", "m": "mw", "h": "route"}[tag] and op[1] == i:
            return path, op[2]
        if op[0] == "nest":
            r = decl(op[1], tag, i, path + [nests])
            if r:
                return r
            nests += 1
    return None


def regs_at(ops, path):
    nests = 0
    if not path:
        return [op[1] for op in ops if op[0] == "eh"]
    for op in ops:
        if op[0] == "nest":
            if nests == path[0]:
                return regs_at(op[1], path[1:])
            nests += 1
    return []


def designated(err, tag, i):
    """('x', k) or ('default',): component-specific, else nearest by type, else nearest for pavex::Error."""
    d = decl(err["bp"], tag, i, [])
    if d is None:
        return ("default",)
    path, direct = d
    if direct is not None:
        return ("x", direct)
    tgt = {e["k"]: e["target"] for e in err["ehs"]}
    for want in ([tag, i], ["any"]):
        p = list(path)
        while True:
            ks = [k for k in regs_at(err["bp"], p) if tgt[k] == want]
            if ks:
                return ("x", ks[-1])
            if not p:
                break
            p = p[:-1]
    return ("default",)


def dependants(err):
    """component name -> set of fallible constructor ids it (transitively) needs"""
    cins = {c["i"]: c["ins"] for c in err["ctors"]}
    memo = {}

    def clos(j):
        if j not in memo:
            memo[j] = {j}
            for x in cins[j]:
                memo[j] |= clos(x)
        return memo[j]

    def of(ins):
        s = set()
        for j in ins:
            s |= clos(j)
        return s
    dep = {}
    for c in err["ctors"]:
        dep["c%d" % c["i"]] = of(c["ins"])
    for h in err["handlers"]:
        dep["h%d" % h["i"]] = of(h["ins"])
    for w in err["mws"]:
        dep["m%d" % w["i"]] = of(w["ins"])
    for e in err["ehs"]:
        dep["x%d" % e["k"]] = of(e["ins"])
    for o in err["observers"]:
        dep["o%d" % o["i"]] = of(o.get("ins", []))
    return dep


def oracle(err, req, evs, status):
    """None, or what is wrong with the observed trace/status of one request."""
    rinfo = walk_routes(err["bp"], [], [], [], 0, {}).get(req["route"])
    if rinfo is None:
        return "route not found in the blueprint"
    obs = ["o%d" % o for o in rinfo["observers"]]
    dep = dependants(err)
    stat = {e["k"]: e["status"] for e in err["ehs"]}
    fails = [i for i, e in enumerate(evs) if e.startswith("fail ")]
    if not fails:
        bad = [e for e in evs if e.startswith("eh ") or e.startswith("observer ")]
        if bad:
            return "no component failed but %s ran" % bad
        want = 202 if any(e.startswith("early ") for e in evs) else 200
        if status != want:
            return "no component failed: expected status %d, got %d" % (want, status)
        return None
    if any(e.startswith("eh ") or e.startswith("observer ") for e in evs[:fails[0]]):
        return "an error handler / observer ran before anything failed"
    last_status = None
    # what the route's own pipeline needs on its happy path
    happy = set(dep.get("h%d" % req["route"], set()))
    for mid in rinfo["chain"]:
        happy |= dep.get("m%d" % mid, set())
    only_for_errors = set()
    for k2, v in dep.items():
        if k2[0] in "xo":
            only_for_errors |= v
    only_for_errors -= happy
    failed = [evs[i].split()[1] for i in fails]
    desig = {x: designated(err, x[0], int(x[1:])) for x in failed}

    def handler_deps(x):
        return dep.get("x%d" % desig[x][1], set()) if desig[x][0] == "x" else set()
    nested = [x for x in failed if any(y != x and y[0] == "c" and int(y[1:]) in handler_deps(x) for y in failed)]
    transient = {c["i"] for c in err["ctors"] if c["life"] == "transient"}
    for_errors = set()
    for k2, v in dep.items():
        if k2[0] in "xo":
            for_errors |= v
    # a transient constructor has one node per use: the instance built for an error handler can be the one
    # that is built ahead of its arm, whatever the happy path needs
    swallowable = [x for x in failed if x[0] == "c" and (int(x[1:]) in only_for_errors or
                                                          (int(x[1:]) in transient and int(x[1:]) in for_errors))]
    if nested or swallowable:
        # failures on the error path itself: a value only an error handler / observer needs fails, or the input
        # of the handler of a failed component fails too. The strict reading below does not apply; check what
        # must hold anyway, and name the known finding when an error was dropped without anybody looking at it.
        for i in fails:
            x = evs[i].split()[1]
            if x[0] == "c":
                cid = int(x[1:])
                bad = [e for e in evs[i + 1:] if e.split()[0] not in ("wrap-end", "early") and (cid in dep.get(e.split()[1], set()) or e == "ctor " + x)]
                if bad:
                    return "`%s` ran after `fail %s` although it depends on its Ok value" % (bad[0], x)
        ran = [e.split()[1] for e in evs if e.startswith("eh ")]
        for h in ran:
            if not (h[:1] == "x" and h[1:].isdigit()):
                # e.g. a decoy of the imported opt-in handlers: registered for nothing, designated for nothing
                return "error handler %s ran, but it is an opt-in handler (`default = false`) that is attached to no component: it serves nothing (%s failed)" % (h, failed)
            if not any(desig[x] == ("x", int(h[1:])) for x in failed):
                return "error handler %s ran, but it is not the designated handler of anything that failed (%s)" % (h, failed)
        so = [e.split()[1] for e in evs if e.startswith("observer ")]
        groups = 0
        if obs:
            if len(so) % len(obs) or so != obs * (len(so) // len(obs)):
                return "the observers that ran are %s: not whole rounds of %s" % (so, obs)
            groups = len(so) // len(obs)
            if groups > len(failed):
                return "more rounds of observers (%d) than failures (%d)" % (groups, len(failed))
        allowed = {stat[d[1]] if d[0] == "x" else 500 for d in desig.values()}
        if len(swallowable) == len(failed) or not obs or groups == 0:
            allowed |= {200, 202}
        if status not in allowed:
            return "the client saw status %d, none of the possible responses %s" % (status, sorted(allowed))
        handled = groups if obs else len(ran)
        if obs and handled < len(failed) - len(nested):
            unexplained = len(failed) - len(nested) - handled
            if unexplained > len(swallowable):
                return "%d failure(s) among %s were neither handled nor observed" % (unexplained, failed)
            return "SWALLOWED-SPECULATIVE-FAILURE: among %s, %d failure(s) of values built ahead of the error arm that needs them (%s) were never inspected: no error handler and no observer ran for them" % (failed, unexplained, swallowable)
        if not obs and swallowable and status in (200, 202):
            return "SWALLOWED-SPECULATIVE-FAILURE: %s returned Err while being built ahead of the error arm that needs it; the arm was not entered and the request was served normally" % swallowable
        if not obs and swallowable and len(ran) + sum(1 for x in failed if desig[x][0] != "x") < len(failed) - len(nested):
            return "SWALLOWED-SPECULATIVE-FAILURE: among %s, fewer error handlers ran (%s) than components failed: a value built ahead of the error arm that needs it (%s) failed and was never inspected" % (failed, ran, swallowable)
        return None
    for n, i in enumerate(fails):
        x = evs[i].split()[1]
        seg = evs[i + 1:(fails[n + 1] if n + 1 < len(fails) else len(evs))]
        rest = evs[i + 1:]
        # (a) nothing that needs the Ok value runs afterwards
        if x[0] == "c":
            cid = int(x[1:])
            for e in rest:
                comp = e.split()[1]
                if e.split()[0] in ("wrap-end", "early"):
                    continue
                if cid in dep.get(comp, set()) or (e.split()[0] == "ctor" and comp == x):
                    return "`%s` ran after `fail %s` although it depends on its Ok value" % (e, x)
        else:
            if any(e.split()[1] == x and e.split()[0] in ("handler", "pre", "post", "wrap-start") for e in rest):
                return "`%s` logged after failing" % x
            # a middleware / handler that fails stops what it wraps or precedes: only post-processors and the
            # tails of enclosing wrapping middlewares may still run
            inner = [e for e in rest if e.split()[0] in ("handler", "pre", "wrap-start")]
            if inner:
                return "`%s` ran after `fail %s`: the pipeline did not stop" % (inner[0], x)
        # (b) the designated handler, exactly once
        d = designated(err, x[0], int(x[1:]))
        ehs = [e for e in seg if e.startswith("eh ")]
        want = ["eh x%d" % d[1]] if d[0] == "x" else []
        if ehs != want:
            return "after `fail %s` the error handlers that ran are %s, expected %s" % (x, ehs, want)
        last_status = stat[d[1]] if d[0] == "x" else 500
        # (c) observers: exactly the ones registered before the route, once, in order, after the handler,
        #     before anything of the enclosing stages resumes
        so = [e.split()[1] for e in seg if e.startswith("observer ")]
        if so != obs:
            return "after `fail %s` the observers that ran are %s, expected %s (registered before the route)" % (x, so, obs)
        if obs:
            first_o = next(j for j, e in enumerate(seg) if e.startswith("observer "))
            last_o = max(j for j, e in enumerate(seg) if e.startswith("observer "))
            if ehs and seg.index(ehs[0]) > first_o:
                return "an observer ran before the error handler after `fail %s`" % x
            if any(e.split()[0] in ("post", "wrap-end", "pre", "handler", "wrap-start") for e in seg[:last_o]):
                return "the pipeline resumed before every observer had run after `fail %s`: %s" % (x, seg)
    if status != last_status:
        return "the client saw status %d, the error handler produced %d" % (status, last_status)
    return None


def match_known(R, why, case):
    for f in R.known_findings():
        m = f.get("match", {})
        if isinstance(m, dict) and m.get("why_startswith") and why.startswith(m["why_startswith"]):
            return f
    return None


def run(R):
    R.assumptions += [
        "the Lean model executes the ordered call graphs dumped by the hooked pavexc (cfg(pavex_verif), add-only): the order of the "
        "nodes is pavexc's (C01's concern), the theorems hold for every order",
        "rustc / tokio / hyper are assumed to run the generated code as written",
        "fallible components fail before logging anything else (tools/gen_app.py); error handlers and observers only depend on infallible constructors",
        "toolchain shim: installed nightly (rustdoc JSON format 57) instead of pavexc's pinned nightly",
    ]
    lean_ok, lrep = pxvlib.lean_obligations(R, ["Pxv.Thm.C06"])
    obs, info, rt = e2e_stage.get_runtime(R)
    R.coverage["e2e_stage"] = info
    lines, keys = [], []
    broken_tie = []
    rejected = []
    env_rejects = []
    for name, o in sorted(obs.items()):
        # every application of the family follows the documented rules: pavexc must accept it and its SDK must compile
        if o.get("klass") != FAMILY:
            continue
        if o.get("timed_out"):
            broken_tie.append("%s: pavexc did not terminate within the time limit (%.0fs; machine load?)" % (name, o["secs"]))
            continue
        if o["rc"] != 0 and not o["panicked"] and ("Failed to invoke `cargo metadata`" in o["out"] or
                                                     "I failed to compute the JSON documentation" in o["out"]):
            env_rejects.append(name)  # pavexc could not even start (cargo metadata / rustdoc failed: machine load); not a verdict
            continue
        if o["rc"] != 0 or o["panicked"] or not o.get("cargo_check", {}).get("ok"):
            msg = [l.strip() for l in o["out"].split("\n") if "panicked" in l or "did not" in l or "ERROR" in l][:3]
            rejected.append({"program": name, "rc": o["rc"], "panicked": o["panicked"], "cargo_check": o.get("cargo_check"),
                             "message": msg or o["out"][-600:], "mini": o["spec"].get("mini"), "app_module_source": o["src"]})
    for name, d in sorted(rt.items()):
        o = obs[name]
        spec = o["spec"]
        if not spec or spec.get("klass") != FAMILY or not d["result"] or "responses" not in d["result"]:
            continue
        err = spec["err"]
        pipes = pipelines(name, o["dump"])
        routes = []
        for h in err["handlers"]:
            ps = pipes.get("h%d" % h["i"], [])
            if len(ps) != 1:
                broken_tie.append("%s: %d pipelines dumped for route h%d" % (name, len(ps), h["i"]))
                continue
            routes.append({"route": h["i"], "closures": ps[0]})
        reqs, pairs = [], []
        for req, resp in zip(d["requests"], d["result"]["responses"]):
            if not str(req.get("tag", "")).startswith("e:"):
                continue
            reqs.append({"route": req["route"], "fail": [f.split(".", 1)[1] for f in req["fail"]], "early": req["early"]})
            pairs.append((req, resp))
        lines.append(json.dumps({"app": {"mws": [{"i": w["i"], "kind": w["kind"]} for w in err["mws"]],
                                         "ehs": err["ehs"], "bp": err["bp"]},
                                 "routes": routes, "requests": reqs}))
        keys.append((name, err, routes, pairs))
    outs = [json.loads(x) for x in pxvlib.run_model("errors", lines)] if lines else []
    dis, fails, seen = [], [], set()
    hist = {"requests": 0, "with_failure": 0, "two_or_more_failures": 0, "with_observers": 0, "user_handler": 0,
            "default_handler": 0, "graphs": 0, "error_arms": 0, "arms_with_observers": 0}
    n_eval = 0
    for (name, err, routes, pairs), mo in zip(keys, outs):
        # structure: chain / observers / designated handlers / splice
        py = walk_routes(err["bp"], [], [], [], 0, {})
        for mr in mo.get("routes", []):
            h = mr["route"]
            if mr["observers"] != py[h]["observers"] or mr["chain"] != ["m%d" % x for x in py[h]["chain"]]:
                dis.append({"program": name, "what": "model and independent reading disagree on the chains of a route", "route": h, "model": mr, "py": py[h]})
            for cl in mr["closures"]:
                hist["graphs"] += 1
                if not cl["ordered"]:
                    dis.append({"program": name, "what": "dumped order does not respect the edges", "route": h, "closure": cl})
                if not cl["wf"]:
                    dis.append({"program": name, "what": "a real call graph is not well-formed in the sense the theorems assume (armsWF)", "route": h, "closure": cl,
                                "graphs": next(r for r in routes if r["route"] == h)["closures"]})
                if not cl["resplice"] or not cl["invariant"] or not cl["spliceReady"]:
                    dis.append({"program": name, "what": "the model's splice + branching does not reproduce pavexc's graph (or the observer count invariant fails)", "route": h, "closure": cl,
                                "graphs": next(r for r in routes if r["route"] == h)["closures"]})
                for arm in cl["arms"]:
                    hist["error_arms"] += 1
                    hist["arms_with_observers"] += 1 if py[h]["observers"] else 0
                    if not arm["shape"]:
                        dis.append({"program": name, "what": "an error arm of a real call graph does not have the shape the model predicts (designated handler %s, observers %s)" % (arm["handler"], py[h]["observers"]),
                                    "route": h, "closure": cl, "graphs": next(r for r in routes if r["route"] == h)["closures"]})
        for (req, resp), mr in zip(pairs, mo.get("responses", [])):
            n_eval += 1
            real = real_events(resp.get("trace", []), name)
            status = resp.get("status")
            hist["requests"] += 1
            nf = sum(1 for e in real if e.startswith("fail "))
            hist["with_failure"] += 1 if nf else 0
            hist["two_or_more_failures"] += 1 if nf > 1 else 0
            hist["with_observers"] += 1 if any(e.startswith("observer ") for e in real) else 0
            hist["user_handler"] += 1 if any(e.startswith("eh ") for e in real) else 0
            hist["default_handler"] += 1 if nf and not any(e.startswith("eh ") for e in real) else 0
            fidx = [i for i, e in enumerate(real) if e.startswith("fail ")]
            hist["handler_input_failed_too"] = hist.get("handler_input_failed_too", 0) + (
                1 if any(not any(e.startswith("eh ") or e.split()[0] in ("pre", "post", "handler", "wrap-start", "wrap-end") for e in real[a + 1:b])
                         and designated(err, real[a].split()[1][0], int(real[a].split()[1][1:]))[0] == "x"
                         for a, b in zip(fidx, fidx[1:])) else 0)
            why = oracle(err, req, real, status)
            case = {"program": name, "request": req, "observed": real, "status": status, "err": err}
            if why:
                fails.append((why, case))
            if mr.get("stuck") or mr.get("trace") != real or mr.get("status") != status:
                dis.append({"program": name, "what": "trace/status", "request": req, "model": mr, "observed": real, "status": status})
            if nf:
                seen.add((name, req["route"], tuple(req["fail"]), tuple(req["early"])))
    R.coverage["programs"] = len(keys)
    R.coverage["evaluations"] = n_eval
    R.coverage["distinct_nontrivial"] = len(seen)
    R.coverage["rule"] = ("one evaluation = one request to a generated server, compared event by event (constructors, failures, error handlers, observers, "
                          "middlewares, handler) and by status with the Lean model run on pavexc's own call graphs; non-trivial = at least one component "
                          "failed during the request; distinct by (program, route, failing set, early-return set)")
    R.coverage["input_stats"] = hist
    R.coverage["samples"] = [{"program": k[0], "request": p[0], "observed": real_events(p[1].get("trace", []), k[0]), "status": p[1].get("status")}
                             for k in keys[:3] for p in k[3][1:3]]
    R.coverage["traces_validated_against_impl"] = n_eval
    R.coverage["model_vs_impl_disagreements"] = len(dis)
    R.coverage["impl_vs_oracle_failures"] = len(fails)
    R.log("servers=%d requests=%d nontrivial=%d oracle_failures=%d disagreements=%d %s" % (len(keys), n_eval, len(seen), len(fails), len(dis), hist))
    unknown = 0
    R.coverage["family_programs_rejected"] = len(rejected)
    R.coverage["family_programs_not_compiled_for_environment_reasons"] = env_rejects
    n_family = sum(1 for o in obs.values() if o.get("klass") == FAMILY)
    if len(env_rejects) * 3 > n_family:
        broken_tie.append("pavexc could not run `cargo metadata` for %d of the %d applications of the family (environment problem)" % (len(env_rejects), n_family))
    for rj in rejected:
        why = "pavexc %s an application whose error handlers / observers follow every documented rule: %s" % (
            "panicked on" if rj["panicked"] else ("rejected" if rj["rc"] != 0 else "generated code that does not compile for"), str(rj["message"])[:300])
        f = match_known(R, why, rj)
        if f is not None:
            R.known_hit(f)
            continue
        unknown += 1
        if unknown <= 3:
            R.violation(why, rj)
    for why, case in fails:
        f = match_known(R, why, case)
        if f is not None:
            R.known_hit(f)
            continue
        unknown += 1
        if unknown <= 3:
            R.violation("implementation breaks the property: " + why, case)
    broken = list(broken_tie)
    if not keys:
        broken.append("no application of the `errors` family was compiled and served (generator / stage problem)")
    if not lean_ok:
        broken.append("proof obligations of Pxv.Thm.C06 no longer check: %s" % (lrep.get("errors") or lrep.get("bad_axioms") or lrep.get("forbidden_tokens")))
    if dis and not unknown:
        broken.append("correspondence `errors`: %d disagreement(s), first: %s" % (len(dis), json.dumps(dis[0])[:700]))
    if broken and not unknown:
        R.violation(" | ".join(broken)[:1500], {"broken": broken, "theorem_module": "Pxv.Thm.C06", "cases": dis[:3]}, no_failing_input=True)
