"""C03 — constructor lifecycles are honoured at run time.

L2  lean/Pxv/Thm/C03.lean over lean/Pxv/Model/Lifecycle.lean: node de-duplication per call graph (`resolve`), the
    cross-stage bookkeeping of a pipeline (`users`/`builtAt`/`stepStage`, `Next` state threading by type) and the
    application-state graph; rs_once, rs_shared, singleton_once, transient_fresh.
L3  generated servers of every application family of the runtime stage (several requests per server, scripted
    failures of fallible constructors and early returns of pre-processors): per request the instrumented trace
    (construction events with instance ids, consumers logging the ids they received) must be *structurally* what
    the model's pipeline for that route predicts: same constructors run the same number of times, and
    "model origin <-> observed instance" is a bijection over everything the started components received
    (same origin => same instance or a clone of it; different origins => different instances).
    Oracle (model-free, on the trace alone): singletons are built only by ApplicationState::new, at most once, and
    every injection sees that instance; a request-scoped constructor runs at most once per request and no instance
    crosses requests; a transient instance reaches exactly one injection site.
"""
import json

import e2e_stage
import gen_scopes
import lifetrace
import pxvlib

COMPLETE_TAGS = ("plain", "plain-again")


def oracle_request(defs, ob, complete, init_names):
    """the three lifecycle rules on one request trace; returns [why]"""
    bad = []
    counts = {}
    for iid in ob.order:
        n = ob.ctors[iid][0]
        counts[n] = counts.get(n, 0) + 1
    for n, k in counts.items():
        life = defs[n]["life"]
        if life == "singleton":
            bad.append("singleton constructor `%s` ran while a request was being served" % n)
        elif life == "request" and k > 1:
            bad.append("request-scoped constructor `%s` ran %d times in one request" % (n, k))
    # every consumed instance: built in this request, or the singleton built by ApplicationState::new
    uses = {}
    sites = [(c, ids) for c, ids, _ in ob.consumers] + [(ob.ctors[i][0], ob.ctors[i][1]) for i in ob.order]
    for who, ids in sites:
        for x in ids:
            r = ob.root(x)
            if r not in ob.ctors and r not in ob.singles:
                bad.append("`%s` received instance %d, which was built neither in this request nor by ApplicationState::new" % (who, x))
                continue
            uses.setdefault(r, []).append(who)
    for r, who in uses.items():
        n = ob.ctors[r][0] if r in ob.ctors else ob.singles[r]
        if defs[n]["life"] == "transient" and len(who) > 1:
            bad.append("one instance of transient `%s` reached %d injection sites (%s)" % (n, len(who), ", ".join(who)))
    if complete:
        for iid in ob.order:
            n = ob.ctors[iid][0]
            if defs[n]["life"] == "transient" and iid not in uses:
                bad.append("transient `%s` was constructed without an injection site that receives it" % n)
    # request-scoped: every consumer of that constructor's value sees the one instance (follows from `once`, kept explicit)
    by_name = {}
    for r in uses:
        n = ob.ctors[r][0] if r in ob.ctors else ob.singles[r]
        by_name.setdefault(n, set()).add(r)
    for n, roots in by_name.items():
        if defs[n]["life"] != "transient" and len(roots) > 1:
            bad.append("components of one request saw %d different instances of `%s`" % (len(roots), n))
    return bad


def known_type_keyed(R, spec, defs, req, why):
    """known finding C04-type-keyed-next-state seen from C03: the constructors one pipeline designates for a type differ
    (in particular in lifecycle), and the type-keyed `Next` state hands one of them to everybody."""
    import re
    m = re.search(r"(?:transient|constructor) `(\w+)`", why)
    if not m or m.group(1) not in defs or req.get("route") is None:
        return None
    ty = defs[m.group(1)]["out"]
    des = gen_scopes.designations(spec)
    comps = [("h", req["route"])] + [("m", mid) for _, mid in (gen_scopes.chain_of(spec["bp"], req["route"]) or [])]
    if len({des[c].get(ty) for c in comps if c in des}) <= 1:
        return None
    for f in R.kf.get("findings", []):
        if f.get("id") == "C04-type-keyed-next-state" and f.get("status") == "known" and "C03" in f.get("also", []):
            return f
    return None


def run(R):
    R.assumptions += [
        "a constructor is identified by its function: the generated applications register one function against one blueprint only "
        "(pavexc treats two registrations of one function against two blueprints as two constructors; a trace could not tell them apart)",
        "error handlers and error observers of the generated applications take no injected inputs",
        "requests are sent one at a time (instance ids of one request are contiguous in the trace)",
        "toolchain shim: installed nightly (rustdoc JSON format 57) instead of pavexc's pinned nightly",
    ]
    R.coverage["trusted_base"] += [
        "tools/gen_app.py instrumentation (fresh instance ids, construction / clone / consumption events) and tools/e2e.py runner",
    ]
    lean_ok, lrep = pxvlib.lean_obligations(R, ["Pxv.Thm.C03"])
    obs, info, rt = e2e_stage.get_runtime(R)
    R.coverage["e2e_stage"] = {k: v for k, v in info.items()}
    fails, dis = [], []
    # corpus: protocol lines of the `life` driver with pinned answers (model regression)
    cl = [json.loads(l) for l in pxvlib.corpus_lines("C03")]
    cl = [c for c in cl if "op" in c and "expect" in c]
    if cl:
        outs = pxvlib.run_model("life", [json.dumps({k: v for k, v in c.items() if k not in ("expect", "note")}) for c in cl])
        for c, o in zip(cl, outs):
            got = json.loads(o)
            for k, v in c["expect"].items():
                if got.get(k) != v:
                    dis.append({"what": "corpus line: model answer changed", "note": c.get("note"), "field": k})
    progs = [n for n, d in rt.items() if lifetrace.usable(obs[n]["spec"]) and d["result"] and "responses" in d["result"]]
    llines = [json.dumps(gen_scopes.life_request(obs[n]["spec"])) for n in progs]
    louts = [json.loads(x) for x in pxvlib.run_model("life", llines)] if llines else []
    n_req = n_nontrivial = n_values = n_known = 0
    seen = set()
    hist = {"requests": {}, "by-family": {}, "hoisted_components": 0, "transient_nodes": 0, "singleton_fields": 0}
    samples = []
    for name, lo in zip(progs, louts):
        spec = obs[name]["spec"]
        defs = gen_scopes.ctor_defs(spec)
        by_uid = {d["uid"]: n for n, d in defs.items()}
        fam = obs[name]["klass"]
        if lo.get("r") != "ok":
            dis.append({"program": name, "what": "model rejected the application", "model": lo})
            continue
        single_of = {}
        for n, d in defs.items():
            if d["life"] == "singleton":
                single_of.setdefault(d["out"], n)
        routes = {r["route"]: lifetrace.ModelRoute(r, by_uid, defs, single_of) for r in lo["routes"]}
        for r in lo["routes"]:
            if r["panics"]:
                dis.append({"program": name, "what": "pavexc accepted a pipeline on which the model predicts the `enforce_invariants` panic", "route": r["route"]})
        res = rt[name]["result"]
        # ---- ApplicationState::new
        init = lifetrace.Observed(spec, defs, res.get("init_trace", []))
        n_req += 1
        counts = {}
        for iid in init.order:
            n = init.ctors[iid][0]
            counts[n] = counts.get(n, 0) + 1
        for n, k in counts.items():
            if defs[n]["life"] == "request":
                fails.append({"program": name, "where": "ApplicationState::new", "why": "request-scoped constructor `%s` ran while the application state was built" % n})
            if defs[n]["life"] == "singleton" and k > 1:
                fails.append({"program": name, "where": "ApplicationState::new", "why": "singleton constructor `%s` ran %d times" % (n, k)})
        # transient instances are never shared: inside ApplicationState::new too, an instance built by a transient
        # constructor is the input of at most one other constructor (a clone is logged as a clone, with a fresh id)
        users = {}
        for iid, v in init.ctors.items():
            for x in v[1]:
                if x in init.ctors and defs[init.ctors[x][0]]["life"] == "transient":
                    users.setdefault(x, []).append(v[0])
        for x, us in sorted(users.items()):
            if len(us) > 1:
                fails.append({"program": name, "where": "ApplicationState::new", "why": "the instance %s built by the transient constructor `%s` was injected into %s while the application state was built" % (x, init.ctors[x][0], us),
                              "trace": res.get("init_trace"), "app_module_source": obs[name]["src"]})
        want = {}
        for b in lo["app"]["built"]:
            n = by_uid.get(b["ctor"])
            want[n] = want.get(n, 0) + 1
        if want != counts:
            dis.append({"program": name, "what": "ApplicationState::new ran other constructors than the model's application-state graph", "model": want, "observed": counts})
        hist["singleton_fields"] += len(lo["app"]["fields"])
        singles = {i: v[0] for i, v in init.ctors.items() if defs[v[0]]["life"] == "singleton"}
        # ---- requests
        for req, resp in zip(rt[name]["requests"], res["responses"]):
            tag = req.get("tag", "?")
            hist["requests"][tag] = hist["requests"].get(tag, 0) + 1
            hist["by-family"][fam] = hist["by-family"].get(fam, 0) + 1
            n_req += 1
            where = "%s %s script=%s" % (req.get("method"), req.get("path"), req.get("script"))
            ob = lifetrace.Observed(spec, defs, resp.get("trace", []), singles, base=init)
            n_values += sum(len(ids) for _, ids, _ in ob.consumers) + sum(len(v[1]) for v in ob.ctors.values())
            if ob.unparsed:
                dis.append({"program": name, "what": "trace lines the check cannot interpret", "lines": ob.unparsed[:5]})
            complete = tag in COMPLETE_TAGS and resp.get("status") == 200
            for why in oracle_request(defs, ob, complete, set(singles.values())):
                kf = known_type_keyed(R, spec, defs, req, why)
                if kf is not None:
                    R.known_hit(kf, "%s %s" % (name, where))
                    n_known += 1
                    continue
                fails.append({"program": name, "request": where, "why": why, "trace": resp.get("trace"), "app_module_source": obs[name]["src"]})
            if tag in ("unknown-path", "wrong-method"):
                mr = routes.get("fallback")  # the root blueprint's fallback handler, wrapped by the root's middlewares
                complete = resp.get("status") in (404, 405)
            else:
                mr = routes.get(req.get("route")) if req.get("route") is not None else None
            if mr is None:
                continue
            if mr.r["builtAt"] or any(defs[by_uid[b["ctor"]]]["life"] == "transient" for c in mr.comps for b in c["built"]):
                k = (name, req.get("route"), tag, tuple(req.get("script") or []))
                if k not in seen:
                    seen.add(k)
                    n_nontrivial += 1
            if gen_scopes.import_then_explicit_shape(spec):
                # known finding C04-import-beats-later-registration: pavexc designates the imported constructor where the
                # registration order designates a later explicit one; the model-free oracle above still applies
                hist["import_then_explicit_programs"] = hist.get("import_then_explicit_programs", 0) + 1
                continue
            for p in lifetrace.match_request(mr, ob, complete):
                dis.append({"program": name, "request": where, "tag": tag, "what": p, "trace": resp.get("trace")})
            if len(samples) < 3 and mr.r["builtAt"] and fam == "scopes":
                samples.append({"program": name, "request": where, "built_at": mr.r["builtAt"], "trace": resp.get("trace")})
        for r in lo["routes"]:
            hist["hoisted_components"] += len(r["builtAt"])
            hist["transient_nodes"] += sum(1 for c in r["comps"] for b in c["built"] if defs[by_uid[b["ctor"]]]["life"] == "transient")
    # ---- the other families (errors, routes, planted controls): their pipelines are not read by the life model, but the
    # counting part of the property needs no model: per request, a request-scoped constructor runs at most once and a
    # singleton constructor never runs
    n_other = n_other_req = 0
    for name, d in rt.items():
        spec = obs[name]["spec"] if name in obs else None
        if name in progs or not spec or "ctors" not in spec or not d["result"] or "responses" not in d["result"]:
            continue
        life = {"c%d" % c["i"]: c["life"] for c in spec["ctors"]}
        n_other += 1
        for req, resp in zip(d["requests"], d["result"]["responses"]):
            n_other_req += 1
            counts = {}
            for l in resp.get("trace", []):
                pl = lifetrace.parse_line(l, name)
                if pl and pl[0] == "ctor" and pl[1] in life:
                    counts[pl[1]] = counts.get(pl[1], 0) + 1
            for c, k in sorted(counts.items()):
                why = None
                if life[c] == "request" and k > 1:
                    why = "request-scoped constructor `%s` ran %d times while one request was served" % (c, k)
                elif life[c] == "singleton":
                    why = "singleton constructor `%s` ran while a request was served" % c
                if why:
                    fails.append({"program": name, "request": "%s %s script=%s" % (req.get("method"), req.get("path"), req.get("script")),
                                  "why": why, "trace": resp.get("trace"), "app_module_source": obs[name]["src"]})
    # the family with generic constructors (tools/gen_generic.py): its constructors are raw items, every `ctor` line ends with the
    # instantiation it built: per request, a request-scoped constructor runs at most once for each instantiation, whoever asks
    n_gen_req = 0
    for name, d in rt.items():
        spec = obs[name]["spec"] if name in obs else None
        if not spec or spec.get("klass") != "generic" or not d["result"] or "responses" not in d["result"]:
            continue
        for req, resp in zip(d["requests"], d["result"]["responses"]):
            n_gen_req += 1
            counts = {}
            for l in resp.get("trace", []):
                parts = l.split()
                if len(parts) >= 5 and parts[0] == "ctor" and parts[1].startswith(name + "."):
                    k = (parts[1], parts[-1])
                    counts[k] = counts.get(k, 0) + 1
            for (c, inst), k in sorted(counts.items()):
                if k > 1:
                    fails.append({"program": name, "request": "%s %s" % (req.get("method"), req.get("path")),
                                  "why": "request-scoped constructor `%s` ran %d times for the instantiation %s while one request was served" % (c, k, inst),
                                  "trace": resp.get("trace"), "app_module_source": obs[name]["src"]})
    hist["other_families"] = {"servers": n_other, "requests_counted": n_other_req, "generic_family_requests": n_gen_req}
    # ---- `enforce_invariants`: pavexc's own guard vs the model's bookkeeping, on the programs pavexc did not accept
    PANIC = "should be invoked at most once in a request pipeline"
    rej = [o for o in obs.values() if o["rc"] != 0 and lifetrace.usable(o["spec"])]
    rlines = [json.dumps(gen_scopes.life_request(o["spec"])) for o in rej]
    routs = [json.loads(x) for x in pxvlib.run_model("life", rlines)] if rlines else []
    n_guard = 0
    for o, lo in zip(rej, routs):
        real = PANIC in o["out"]
        model = lo.get("r") == "ok" and any(r["panics"] for r in lo["routes"])
        n_guard += 1 if real else 0
        if real and not model:
            dis.append({"program": o["name"], "what": "pavexc's enforce_invariants found a request-scoped constructor invoked twice in a pipeline that the model builds once",
                        "pavexc": [l for l in o["out"].split("\n") if PANIC in l][:1], "app_module_source": o["src"]})
    hist["enforce_invariants_panics"] = n_guard
    R.coverage["programs"] = len(progs)
    R.coverage["evaluations"] = n_req
    R.coverage["distinct_nontrivial"] = n_nontrivial
    R.coverage["rule"] = ("one evaluation = one request (or one ApplicationState::new) of a generated server, its whole trace matched against the model's pipeline; "
                          "non-trivial = the route's pipeline hoists at least one request-scoped constructor into an earlier stage (more than one user) or builds a transient; "
                          "distinct by (program, route, request script)")
    R.coverage["input_stats"] = dict(hist, injected_values=n_values)
    R.coverage["samples"] = samples
    R.coverage["traces_validated_against_impl"] = n_req
    R.coverage["model_vs_impl_disagreements"] = len(dis)
    R.coverage["impl_vs_oracle_failures"] = len(fails)
    R.log("servers=%d requests=%d nontrivial=%d injected-values=%d oracle_failures=%d disagreements=%d" % (len(progs), n_req, n_nontrivial, n_values, len(fails), len(dis)))
    for f in fails[:3]:
        R.violation("lifecycle not honoured: " + f["why"], f)
    if R.tier == "thorough" and not R.replay and lean_ok and not pxvlib.leanchecker(R, ["Pxv.Thm.C03"]):
        lean_ok = False
        lrep["errors"] = ["leanchecker rejects Pxv.Thm.C03"]
    broken = []
    if not lean_ok:
        broken.append("proof obligations of Pxv.Thm.C03 no longer check: %s" % (lrep.get("errors") or lrep.get("bad_axioms") or lrep.get("forbidden_tokens")))
    if dis and not fails:
        broken.append("correspondence `life`: %d disagreement(s) between the model's pipeline and the generated servers, first: %s" % (len(dis), json.dumps(dis[0], default=str)[:700]))
    if not progs:
        broken.append("no generated server could be observed (empty runtime stage)")
    if broken and not fails:
        R.violation(" | ".join(broken), {"broken": broken, "theorem_module": "Pxv.Thm.C03", "cases": dis[:3]}, no_failing_input=True)
