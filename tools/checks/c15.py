"""C15 — typed request data equals what the client encoded, or a clean error.

L2: Pxv/Thm/C15.lean over Pxv/Model/ReqData.lean.
L3: harness/crates/reqdata drives the real `PathParams::extract` (through a real matchit match on
`http::Uri::path()`), `QueryParams::extract`, `UrlEncodedBody::extract`, `JsonBody::extract` and the
third-party primitives they use (percent_encoding, form_urlencoded, core `FromStr`, `str::from_utf8`).

The oracle below is an independent reading of the *property* in Python (urllib's decoder, Python's
UTF-8 codec and `int`), it never looks at the Lean model.
"""
import json
import os
import re
import urllib.parse

import pxvlib

# ---- the fixed family of target structs (twins: harness/crates/reqdata/src/shapes.rs, Driver/ReqData.lean)
SHAPES = {
    "PU": [("a", "u8"), ("b", "u16"), ("c", "u32")],
    "PW": [("a", "u64"), ("b", "u128"), ("c", "i128")],
    "PI": [("a", "i8"), ("b", "i16"), ("c", "i32"), ("d", "i64")],
    "PM": [("id", "u32"), ("name", "String"), ("flag", "bool"), ("ch", "char")],
    "PS": [("a", "String"), ("b", "cow"), ("c", "str")],
    "PO": [("a", "opt:u16"), ("b", "opt:String"), ("c", "i64")],
    "PV": [("a", "vec:u32"), ("b", "u8")],
    "QM": [("id", "u32"), ("name", "String"), ("flag", "bool"), ("ch", "char")],
    "QI": [("a", "u8"), ("b", "i8"), ("c", "u64"), ("d", "i64"), ("e", "u16"), ("f", "i32")],
    "QO": [("a", "opt:u32"), ("b", "opt:String"), ("c", "opt:bool"), ("d", "u8")],
    "QV": [("v", "vec:u32"), ("s", "vec:String"), ("d", "vecd:i16")],
    "QS": [("a", "cow"), ("b", "str")],
}
PATH_SHAPES = ["PU", "PW", "PI", "PM", "PS", "PO", "PV"]
QUERY_SHAPES = ["QM", "QI", "QO", "QV", "QS"]
INT_RE = re.compile(r"^([ui])(8|16|32|64|128)$")
DOC_KINDS = {"invalid-utf8", "parse", "missing", "duplicate", "borrowed", "unsupported", "multi",
             "ct-missing", "ct-mismatch", "json-syntax", "json-data", "json-eof"}


def base(ty):
    return ty.split(":")[-1]


def ty_name(ty):
    b = base(ty)
    return "String" if b in ("String", "cow") else b


def int_range(ty):
    m = INT_RE.match(ty)
    bits = int(m.group(2))
    return (0, 2 ** bits - 1) if m.group(1) == "u" else (-2 ** (bits - 1), 2 ** (bits - 1) - 1)


# ---- floats (f32 / f64 fields): exact reference rounding, independent of the model ----------------------------------
import struct
from fractions import Fraction

FLOAT_RE = re.compile(r"^([+-]?)(?:(inf|infinity|nan)|((?:[0-9]+\.?[0-9]*|\.[0-9]+))(?:[eE]([+-]?[0-9]+))?)$", re.ASCII | re.IGNORECASE)
FMT = {32: (24, 8, "<f", "<I"), 64: (53, 11, "<d", "<Q")}


def _bits_to_frac(bits, nbits):
    """exact value of a finite non-negative float given by its bit pattern"""
    p, eb, _, _ = FMT[nbits]
    e, m = bits >> (p - 1), bits & ((1 << (p - 1)) - 1)
    bias = (1 << (eb - 1)) - 1
    if e == 0:
        return Fraction(m, 1 << (bias - 1 + p - 1))
    return Fraction((1 << (p - 1)) + m) * Fraction(2) ** (e - bias - (p - 1))


def py_float_bits(text, nbits):
    """bit pattern `str::parse::<fN>` must return for `text` (nearest representable value, ties to even), or None.
    Candidates come from CPython's correctly rounded float(); the decision between neighbours is exact (Fractions)."""
    m = FLOAT_RE.match(text)
    if not m:
        return None
    p, eb, ffmt, ifmt = FMT[nbits]
    sign = (1 << (nbits - 1)) if m.group(1) == "-" else 0
    inf = ((1 << eb) - 1) << (p - 1)
    if m.group(2):
        return sign + (inf if m.group(2).lower() != "nan" else inf + (1 << (p - 2)))
    digits, exp = m.group(3), int(m.group(4) or "0")
    ip, _, fp = digits.partition(".")
    mant = int((ip + fp) or "0")
    if mant == 0:
        return sign
    e10 = exp - len(fp)
    mag = e10 + len(str(mant))
    if mag > 400:
        return sign + inf
    if mag < -400:
        return sign
    x = Fraction(mant) * Fraction(10) ** e10
    try:
        approx = float(x)                                    # Fraction -> float is correctly rounded in CPython
    except OverflowError:
        approx = float("inf")
    if nbits == 64:
        start = inf if approx == float("inf") else struct.unpack("<Q", struct.pack("<d", approx))[0]
    else:
        try:
            start = struct.unpack("<I", struct.pack("<f", approx))[0]
        except OverflowError:
            start = inf
    best = None
    for c in range(max(0, start - 2), min(inf, start + 2) + 1):
        # the value standing for "infinity" in the comparison is 2^(emax+1): the first value beyond the finite range
        v = _bits_to_frac(c, nbits) if c < inf else Fraction(2) ** (1 << (eb - 1))
        d = abs(v - x)
        if best is None or d < best[0] or (d == best[0] and c % 2 == 0 and best[1] % 2 == 1):
            best = (d, c)
    return sign + best[1]


FLOAT_SPECIALS = ["inf", "Inf", "INF", "infinity", "Infinity", "iNfInItY", "nan", "NaN", "NAN", "0", "-0", "+0", "0.0", "-0.0", "0e0", "0e999999",
                  "1e999999", "1e-999999", "000001", "1.", ".5", "5.e3", "1e+5", "1E-5", "1e05", "0.000000000000000000000000000000000000000000001",
                  "3.4028235e38", "3.4028236e38", "3.40282357e38", "3.4028235677973366e38", "3.4028235677973367e38", "1.7976931348623157e308",
                  "1.7976931348623158e308", "1.7976931348623159e308", "2e308", "4.9e-324", "2.4703282292062327e-324", "2.4703282292062328e-324",
                  "2.5e-324", "1e-45", "7e-46", "7.1e-46", "1.17549435e-38", "1.1754942e-38", "2.2250738585072014e-308", "2.2250738585072011e-308",
                  "9007199254740993", "9007199254740992.5", "16777217", "16777217.0000001", "16777216.999999", "0.1", "0.2", "0.3", "1.1", "123456789012345678901234567890"]
FLOAT_BAD = ["", "+", "-", ".", "e5", "1e", "1e+", "1e-", "1_0", "0x10", " 1", "1 ", "+-1", "1.2.3", "1e1.5", "1,5", "infinit", "in", "nane", "--1", "1f", "1.0f32",
             "١", "1e١", "∞", "+ 1", "1e 5", "NaN()", "-+1", "1.e", "1ee1"]


def gen_float_text(rng, nbits):
    r = rng.random()
    p, eb, ffmt, ifmt = FMT[nbits]
    if r < 0.12:
        return rng.choice(FLOAT_SPECIALS)
    if r < 0.24:
        t = rng.choice(FLOAT_BAD)
        return t
    if r < 0.34:
        # shortest representation of a random value
        bits = rng.getrandbits(nbits - 1)
        v = struct.unpack(ffmt, struct.pack(ifmt, bits))[0]
        if v != v or v in (float("inf"),):
            return "1.5"
        return repr(v) if nbits == 64 else ("%.9g" % v)
    if r < 0.74:
        # just beside the midpoint between two neighbours: the decimal expansion of the midpoint is finite; nudge its tail
        inf = ((1 << eb) - 1) << (p - 1)
        if rng.random() < 0.7:
            e = rng.randrange(max(1, ((1 << (eb - 1)) - 1) - 40), ((1 << (eb - 1)) - 1) + 40)    # moderate exponents: short expansions
        else:
            e = rng.choice([0, 1, 2, (1 << eb) - 2, (1 << eb) - 3, rng.randrange(0, (1 << eb) - 1)])
        bits = (e << (p - 1)) + rng.choice([0, 1, (1 << (p - 1)) - 1, (1 << (p - 1)) - 2, rng.getrandbits(p - 1)])
        bits = min(bits, inf - 1)
        lo = _bits_to_frac(bits, nbits)
        hi = _bits_to_frac(bits + 1, nbits) if bits + 1 < inf else Fraction(2) ** (1 << (eb - 1))
        mid = (lo + hi) / 2
        if mid == 0:
            return "0"
        # exact decimal expansion of mid = n / 2^k
        n, d = mid.numerator, mid.denominator
        k = d.bit_length() - 1
        digits = str(n * 5 ** k)                       # mid = digits * 10^-k
        if len(digits) > 420:
            digits, k = digits[:420], k - (len(digits) - 420)
        how = rng.random()
        if how < 0.3:
            text_digits = digits                         # the exact tie
        elif how < 0.65:
            text_digits = digits + "0" * rng.randrange(0, 4) + "1"     # just above
            k += len(text_digits) - len(digits)
        else:
            text_digits = str(int(digits) * 10 ** 3 - 1)               # just below
            k += 3
        style = rng.random()
        if style < 0.5 and 0 < k < len(text_digits) + 30:
            if k >= len(text_digits):
                return "0." + "0" * (k - len(text_digits)) + text_digits
            return text_digits[:-k] + "." + text_digits[-k:]
        return text_digits + ("e" if rng.random() < 0.5 else "E") + str(-k)
    if r < 0.9:
        ip = str(rng.randrange(0, 10 ** rng.randrange(1, 25)))
        fp = "".join(rng.choice("0123456789") for _ in range(rng.randrange(0, 25)))
        ex = rng.choice(["", "", "e%d" % rng.randrange(-60, 60), "E%+d" % rng.randrange(-340, 330), "e-%d" % rng.randrange(300, 345)])
        return rng.choice(["", "", "-", "+"]) + ip + ("." + fp if fp or rng.random() < 0.2 else "") + ex
    return rng.choice(["-", "+", ""]) + gen_float_text(rng, nbits).lstrip("+-")


def gen_pfloat(rng):
    nbits = rng.choice([32, 32, 64])
    where = rng.choice(["path", "path", "query"])
    text = gen_float_text(rng, nbits)
    raw = bytearray()
    for b in text.encode("utf-8"):
        safe = (48 <= b <= 57) or (65 <= b <= 90) or (97 <= b <= 122) or b in b"-._~" or (b == 43 and where == "path")
        if not safe or rng.random() < 0.06:
            raw += b"%%%02X" % b if rng.random() < 0.5 else b"%%%02x" % b
        else:
            raw.append(b)
    if rng.random() < 0.03:
        raw += rng.choice([b"%ff", b"%C3", b"%80"])
    if where == "path" and not raw:
        raw = bytearray(b"%2B")
    return {"op": "pfloat", "where": where, "bits": nbits, "raw": list(raw)}


def oracle_pfloat(case, out):
    raw = bytes(case["raw"])
    dec = urllib.parse.unquote_to_bytes(raw.replace(b"+", b" ") if case["where"] == "query" else raw)
    try:
        text = dec.decode("utf-8")
    except UnicodeDecodeError:
        if case["where"] == "query":
            return None          # lossy decoding of query values is the recorded finding C15-lossy-utf8-query-form; not judged here
        return None if out.get("kind") == "invalid-utf8" else "a float parameter that is not UTF-8 after decoding must be rejected as invalid UTF-8, got %r" % (out,)
    want = py_float_bits(text, case["bits"])
    if want is None:
        return None if out.get("r") == "err" and out.get("kind") == "parse" else "%r is not a float literal and must be a parse error, got %r" % (text, out)
    if out.get("r") != "ok":
        return "%r is a float literal (nearest f%d has bits %d) but extraction failed: %r" % (text, case["bits"], want, out)
    if str(out.get("fbits")) != str(want):
        return "f%d field: the client encoded %r, the nearest representable value has bits %d, the application was handed bits %s" % (case["bits"], text, want, out.get("fbits"))
    return None


# ---- independent semantics (Python stdlib) --------------------------------------------------------

def py_scalar(ty, raw):
    """Canonical value of the decoded bytes `raw` read as `ty`, or None. Independent of the model."""
    try:
        s = raw.decode("utf-8")
    except UnicodeDecodeError:
        return None
    b = base(ty)
    m = INT_RE.match(b)
    if m:
        pat = r"\+?[0-9]+" if m.group(1) == "u" else r"[+-]?[0-9]+"
        if not re.fullmatch(pat, s, flags=re.ASCII):
            return None
        v = int(s)
        lo, hi = int_range(b)
        return str(v) if lo <= v <= hi else None
    if b == "bool":
        return {"true": True, "false": False}.get(s)
    if b == "char":
        return ord(s) if len(s) == 1 else None
    return list(raw)


def is_utf8(bs):
    try:
        bs.decode("utf-8")
        return True
    except UnicodeDecodeError:
        return False


URI_PATH_OK = set([0x21] + list(range(0x24, 0x3C)) + [0x3D] + list(range(0x40, 0x60)) + list(range(0x61, 0x7B))
                  + [0x7C, 0x7E, 0x22, 0x7B, 0x7D] + list(range(0x7F, 0x100)))
URI_QUERY_OK = set([0x21] + list(range(0x24, 0x3C)) + [0x3D] + list(range(0x3F, 0x7F)) + list(range(0x7F, 0x100)))


def py_route_match(route, path):
    """Independent single-route matcher: list of (name, raw bytes) or None."""
    if not path.startswith(b"/"):
        return None
    segs = path[1:].split(b"/")
    out = []
    for i, seg in enumerate(route):
        if "catch" in seg:
            rest = b"/".join(segs[i:])
            if i != len(route) - 1 or not rest or i >= len(segs):
                return None
            out.append((seg["catch"], rest))
            return out
        if i >= len(segs):
            return None
        if "lit" in seg:
            if segs[i] != seg["lit"].encode():
                return None
        else:
            if not segs[i]:
                return None
            out.append((seg["param"], segs[i]))
    return out if len(segs) == len(route) else None


def expect_fields(fields, get, path_mode):
    """Returns (values, reasons): what the property demands for a struct with `fields` when
    `get(name)` yields the list of (raw, decoded) occurrences of that key."""
    values, reasons = {}, []
    for name, ty in fields:
        occ = get(name)
        kind = ty.split(":")[0] if ":" in ty else "s"
        if kind in ("vec", "vecd") and path_mode:
            if occ:
                reasons.append({"kind": "unsupported"})
            else:
                reasons.append({"kind": "missing", "field": name})
            continue
        if not occ:
            if kind == "opt":
                values[name] = None
            elif kind == "vecd":
                values[name] = {"seq": []}
            else:
                reasons.append({"kind": "missing", "field": name})
            continue
        if kind in ("s", "opt") and len(occ) > 1:
            reasons.append({"kind": "multi"} if not path_mode else {"kind": "duplicate", "field": name})
            continue
        vals = []
        for raw, dec in occ:
            if kind == "opt" and not path_mode and dec == b"":
                vals.append("none")
                continue
            if base(ty) == "str":
                if raw != dec:
                    reasons.append({"kind": "borrowed"})
                    vals.append(None)
                else:
                    vals.append(list(dec))
                continue
            v = py_scalar(ty, dec)
            if v is None:
                r = {"kind": "parse", "key": name}
                if path_mode:
                    r.update({"value": list(dec), "ty": ty_name(ty)})
                reasons.append(r)
            vals.append(v)
        if kind == "s":
            values[name] = vals[0]
        elif kind == "opt":
            values[name] = None if vals[0] == "none" else {"some": vals[0]}
        else:
            values[name] = {"seq": vals}
    return values, reasons


def reason_matches(out, reasons):
    for r in reasons:
        if all(out.get(k) == v for k, v in r.items()):
            return True
    return False


def judge(out, values, reasons, tag):
    r = out.get("r")
    if r == "ok":
        if reasons:
            return "%s: accepted malformed input (expected one of %s), got %s" % (tag, json.dumps(reasons)[:200], json.dumps(out.get("v"))[:200])
        if out.get("v") != values:
            return "%s: silently different value: expected %s, got %s" % (tag, json.dumps(values)[:200], json.dumps(out.get("v"))[:200])
        return None
    if r == "err":
        if out.get("kind") not in DOC_KINDS:
            return "%s: undocumented error kind %r" % (tag, out)
        if not reasons:
            return "%s: rejected well-formed input with %s (expected %s)" % (tag, json.dumps(out), json.dumps(values)[:200])
        if not reason_matches(out, reasons):
            return "%s: error %s is not justified by the input (acceptable: %s)" % (tag, json.dumps(out), json.dumps(reasons)[:300])
        return None
    return "%s: unexpected outcome %s" % (tag, json.dumps(out)[:200])


def form_pairs_raw(bs):
    out = []
    for piece in bs.split(b"&"):
        if not piece:
            continue
        k, _, v = piece.partition(b"=")
        out.append((k, v))
    return out


def form_dec(b):
    return urllib.parse.unquote_to_bytes(b.replace(b"+", b" "))


def oracle_form(case, out, bs, detail):
    fields = SHAPES[case["shape"]]
    pairs = [(form_dec(k), v, form_dec(v)) for k, v in form_pairs_raw(bs)]
    bad_utf8 = [n for n, _ in fields if any(k == n.encode() and not is_utf8(d) for k, _, d in pairs)]
    values, reasons = expect_fields(fields, lambda n: [(raw, d) for k, raw, d in pairs if k == n.encode()], False)
    if bad_utf8:
        if out.get("r") == "ok":
            return "lossy-utf8: field(s) %s are not UTF-8 after decoding, yet extraction succeeded with %s" % (
                bad_utf8, json.dumps(out.get("v"))[:200])
        if out.get("r") == "err" and out.get("kind") in DOC_KINDS:
            return None
    if detail == 0:
        for r in reasons:
            r.pop("key", None)
    return judge(out, values, reasons, case["op"])


def oracle(case, out):
    if case.get("op") == "pfloat":
        return oracle_pfloat(case, out)
    op = case.get("op")
    r = out.get("r")
    if r in ("panic", "unparseable", "bad-op", "buffer-failed", "bad-route") or "bad-json" in out:
        return "%s: %s" % (op, json.dumps(out)[:200])
    if op == "pdec":
        exp = list(urllib.parse.unquote_to_bytes(bytes(case["b"])))
        return None if out.get("b") == exp else "percent-decoding differs from the reference decoder: %s vs %s" % (out.get("b"), exp)
    if op == "penc":
        b, st, o = bytes(case["b"]), set(case["set"]), bytes(out.get("b", []))
        n_enc = sum(1 for x in b if x >= 128 or x in st)
        if len(o) != len(b) + 2 * n_enc or any(x >= 128 for x in o):
            return "percent-encoding has the wrong shape"
        if 37 in st and urllib.parse.unquote_to_bytes(o) != b:
            return "decode(encode(x)) != x"
        return None
    if op == "fser":
        o = bytes(out.get("b", []))
        if form_dec(o) != bytes(case["b"]) or any(c in o for c in b"&=;# ") or any(x >= 128 for x in o):
            return "form decode(serialize(x)) != x or unsafe byte in output"
        return None
    if op == "fparse":
        exp = [[list(form_dec(k).decode("utf-8", "replace").encode()), list(form_dec(v).decode("utf-8", "replace").encode())]
               for k, v in form_pairs_raw(bytes(case["b"]))]
        return None if out.get("pairs") == exp else "form parse differs from the reference: %s vs %s" % (out.get("pairs"), exp)
    if op == "utf8":
        b = bytes(case["b"])
        if out.get("valid") != is_utf8(b):
            return "UTF-8 validity differs from the reference codec"
        if out.get("lossy") != list(b.decode("utf-8", "replace").encode()):
            return "lossy UTF-8 decoding differs from the reference codec"
        return None
    if op == "scalar":
        exp = py_scalar(case["ty"], bytes(case["b"]))
        if r == "ok":
            return None if exp is not None and out.get("v") == exp else "scalar %s parsed %r as %r, reference says %r" % (case["ty"], bytes(case["b"]), out.get("v"), exp)
        return None if exp is None else "scalar %s rejected %r, reference value %r" % (case["ty"], bytes(case["b"]), exp)
    if op == "path":
        path = bytes(case["path"])
        uri_ok = path.startswith(b"/") and all(c in URI_PATH_OK for c in path) and is_utf8(path)
        if r == "bad-uri":
            return None if not uri_ok else "path: target refused although every byte is allowed"
        if not uri_ok:
            return "path: a target http::Uri must refuse reached the extractor"
        m = py_route_match(case["route"], path)
        if r == "no-match":
            return None if m is None else "path: router missed a matching path"
        if m is None:
            return "path: router matched a path that does not fit the route"
        dec = [(k, raw, urllib.parse.unquote_to_bytes(raw)) for k, raw in m]
        bad = [k for k, _, d in dec if not is_utf8(d)]
        if bad:
            reasons = [{"kind": "invalid-utf8", "key": k} for k in bad]
            return judge(out, None, reasons, "path")
        values, reasons = expect_fields(SHAPES[case["shape"]], lambda n: [(raw, d) for k, raw, d in dec if k == n], True)
        return judge(out, values, reasons, "path")
    if op == "query":
        q = bytes(case["q"])
        uri_ok = all(c in URI_QUERY_OK for c in q) and is_utf8(q)
        if r == "bad-uri":
            return None if not uri_ok else "query: target refused although every byte is allowed"
        if not uri_ok:
            return "query: a target http::Uri must refuse reached the extractor"
        return oracle_form(case, out, q, 1)
    if op == "form":
        gate = py_ct("form", case.get("ct"))
        got = out.get("kind") if out.get("kind") in ("ct-missing", "ct-mismatch") else "ct-ok"
        if got not in gate:
            return "form: content-type %r should give %s, got %s" % (bytes(case.get("ct") or b""), sorted(gate), json.dumps(out)[:120])
        if got != "ct-ok":
            return None
        return oracle_form(case, out, bytes(case["body"]), 0)
    if op == "ct":
        got = ct_outcome(out)
        gate = py_ct(case["kind"], case.get("ct"))
        return None if got in gate else "content-type gate (%s): %r should give %s, got %s" % (
            case["kind"], bytes(case.get("ct") or b""), sorted(gate), json.dumps(out)[:120])
    return "unknown op"



# ---- Content-Type gate (independent reading of RFC 6838/7231 media types) ----------------------------
TOK = r"[!#$%&'*+\-.^_`|~0-9A-Za-z]"


def py_ct(kind, ct):
    """Set of acceptable gate outcomes for header value `ct` (None = header absent)."""
    if ct is None:
        return {"ct-missing"}
    if any(b != 9 and not (32 <= b < 127) for b in ct):
        return {"ct-missing"}
    s = bytes(ct).decode()
    essence, sep, params = s.partition(";")
    m = re.fullmatch("(%s+)/(%s*)" % (TOK, TOK), essence)
    if not m or (sep and not m.group(2)):
        return {"ct-mismatch"}
    ty, sub = m.group(1).lower(), m.group(2).lower()
    suffix = sub[1:].rsplit("+", 1)[1] if "+" in sub[1:] else None
    base = sub[:len(sub) - len(suffix) - 1] if suffix is not None else sub
    good = ty == "application" and ((base == "json" or suffix == "json") if kind == "json" else (base == "x-www-form-urlencoded"))
    if not good:
        return {"ct-mismatch"}
    if not sep or re.fullmatch(r"(; *%s+=(%s+|\"[^\"\\]+\"))+" % (TOK, TOK), sep + params):
        return {"ct-ok"}
    return {"ct-ok", "ct-mismatch"}


def ct_outcome(out):
    if out.get("r") == "ct-ok":
        return "ct-ok"
    if out.get("r") == "err" and out.get("kind") in ("ct-missing", "ct-mismatch"):
        return out["kind"]
    return None


# ---- JSON bodies: Python's json module as the reference parser (oracle only, no Lean model) -------
class _Reject(Exception):
    pass


def _const(x):
    raise _Reject(x)


def json_field(ty, v):
    """(value, problem): canonical value or a description of why `v` does not fit `ty`."""
    kind = ty.split(":")[0] if ":" in ty else "s"
    b = base(ty)
    if kind == "opt":
        if v is None:
            return None, None
        x, pr = json_field(b, v)
        return {"some": x}, pr
    if kind in ("vec", "vecd"):
        if not isinstance(v, list):
            return None, "not an array"
        xs = []
        for e in v:
            x, pr = json_field(b, e)
            if pr:
                return None, pr
            xs.append(x)
        return {"seq": xs}, None
    m = INT_RE.match(b)
    if m:
        if not (isinstance(v, tuple) and v[0] == "int"):
            return None, "not an integer literal"
        if v[1] == "-0" and b != "i128":
            return None, "negative zero (serde_json reads -0 as a float)"
        n = int(v[1])
        lo, hi = int_range(b)
        return (str(n), None) if lo <= n <= hi else (None, "out of range")
    if b == "bool":
        return (v, None) if isinstance(v, bool) else (None, "not a bool")
    if not isinstance(v, str):
        return None, "not a string"
    if any(0xD800 <= ord(c) <= 0xDFFF for c in v):
        return None, "lone surrogate"
    if b == "char":
        return (ord(v), None) if len(v) == 1 else (None, "not one char")
    if b == "str" and any(c in '"\\' or ord(c) < 0x20 for c in v):
        return None, "needs unescaping, cannot be borrowed"
    return list(v.encode()), None


def oracle_json(case, out):
    r = out.get("r")
    if r not in ("ok", "err") or (r == "err" and out.get("kind") not in DOC_KINDS):
        return "json: unexpected outcome %s" % json.dumps(out)[:200]
    gate = py_ct("json", case.get("ct"))
    got_gate = out.get("kind") if out.get("kind") in ("ct-missing", "ct-mismatch") else "ct-ok"
    if got_gate not in gate:
        return "json: content-type %r should give %s, got %s" % (bytes(case["ct"] or b""), sorted(gate), json.dumps(out)[:120])
    if got_gate != "ct-ok":
        return None
    body = bytes(case["body"])
    strict_utf8 = is_utf8(body)
    try:
        # serde_json does not validate UTF-8 (or surrogate pairing) inside the values of fields it
        # ignores; such bodies are judged on the replaced text and may be accepted or rejected.
        doc = json.loads(body.decode("utf-8", "replace"), object_pairs_hook=lambda ps: ("obj", ps), parse_int=lambda x: ("int", x),
                         parse_float=lambda x: ("float", x), parse_constant=_const)
    except (ValueError, _Reject, RecursionError):
        return None if r == "err" and out["kind"] in ("json-syntax", "json-eof", "json-data") else \
            "json: malformed document accepted: %s" % json.dumps(out)[:200]

    def plain(v):
        if isinstance(v, tuple) and v[0] == "obj":
            return {k: plain(x) for k, x in v[1]}
        if isinstance(v, list):
            return [plain(x) for x in v]
        return v
    if not (isinstance(doc, tuple) and doc[0] == "obj"):
        if isinstance(doc, list):
            return None  # serde-derived structs also accept the positional (array) form: not judged
        return None if r == "err" else "json: non-object document accepted"
    fields = SHAPES[case["shape"]]
    names = [n for n, _ in fields]
    keys = [k for k, _ in doc[1]]
    problems = []
    for n in names:
        if keys.count(n) > 1:
            problems.append("duplicate field %s" % n)
    values = {}
    d = dict(doc[1])
    for n, ty in fields:
        kind = ty.split(":")[0] if ":" in ty else "s"
        if n not in d:
            if kind == "opt":
                values[n] = None
            elif kind == "vecd":
                values[n] = {"seq": []}
            else:
                problems.append("missing field %s" % n)
            continue
        v = d[n]
        v = plain(v) if not (isinstance(v, tuple) and v[0] in ("int", "float")) else v
        if isinstance(v, list):
            v = [x for x in v]
        x, pr = json_field(ty, v)
        if pr:
            problems.append("%s: %s" % (n, pr))
        values[n] = x
    lenient_str = [n for n, ty in fields if base(ty) == "str"]
    if r == "err" and not strict_utf8:
        return None
    if r == "err":
        if out["kind"] not in ("json-data", "json-syntax"):
            return "json: well-formed document rejected as %s" % out["kind"]
        if problems or lenient_str:
            return None
        return "json: rejected a document that encodes a value of the target type: %s (%s)" % (json.dumps(values)[:150], out.get("msg"))
    if problems:
        return "json: accepted although %s -> %s" % ("; ".join(problems)[:150], json.dumps(out.get("v"))[:150])
    if out.get("v") != values:
        return "json: silently different value: expected %s, got %s" % (json.dumps(values)[:200], json.dumps(out.get("v"))[:200])
    return None


def match_known_factory(R):
    kf = {f["id"]: f for f in R.known_findings()}

    def match_known(case, why):
        f = kf.get("C15-lossy-utf8-query-form")
        if f and case.get("op") in ("query", "form") and why.startswith("lossy-utf8:"):
            return f
        return None
    return match_known


# ---- generators -------------------------------------------------------------------------------------
STR_ATOMS = ["a", "b", "Z", "0", "9", " ", "+", "%", "&", "=", "/", "?", "#", "é", "ß", "€", "😀", "\x00", "%41", "%2541",
             "%zz", "-", "_", ".", "~", "*", "'", '"', "{", "}", "\n", ";", ":", "@", "<", ">", "\\", "`", "|", "é"]
UNRESERVED = set(b"ABCDEFGHIJKLMNOPQRSTUVWXYZabcdefghijklmnopqrstuvwxyz0123456789-._~")


def pct(b, rng):
    return ("%%%02X" % b if rng.random() < 0.8 else "%%%02x" % b).encode()


def enc_segment(rng, bs, for_query):
    """A client-side encoder: one of several legal ways to write `bs` into a path segment / query value."""
    style = rng.choice(["strict", "minimal", "minimal-raw-utf8", "form"] if for_query else ["strict", "minimal", "minimal-raw-utf8"])
    out = b""
    ok = URI_QUERY_OK if for_query else URI_PATH_OK
    must = set(b"%&=+#;") if for_query else set(b"%/?#")
    for b in bs:
        if style == "strict":
            out += bytes([b]) if b in UNRESERVED else pct(b, rng)
        elif style == "form":
            out += bytes([b]) if (b in UNRESERVED and b != 0x7E) or b == 0x2A else (b"+" if b == 0x20 else pct(b, rng))
        else:
            raw_ok = b in ok and b not in must and (b < 0x80 if style == "minimal" else True) and b != 0x7F
            out += bytes([b]) if raw_ok else pct(b, rng)
    return out


BAD_INT = ["", " 5", "5 ", "1e3", "0x10", "٣", "1_000", "--1", "+-1", "+", "-", "1.0", "５", "1,0", "\t1", "9" * 40, "-" + "9" * 40, "1 2", "a"]


def gen_int_text(rng, ty, valid):
    lo, hi = int_range(ty)
    if not valid:
        if rng.random() < 0.5:
            return rng.choice(BAD_INT)
        v = rng.choice([hi + 1, lo - 1, hi + rng.randrange(1, 300), 10 ** rng.randrange(39, 45), -(10 ** rng.randrange(39, 45))])
        return ("+" if v >= 0 and rng.random() < 0.2 else "") + str(v)
    v = rng.choice([0, 1, hi, hi - 1, lo, lo + 1, hi // 2, rng.randrange(lo, hi + 1), rng.randrange(lo, hi + 1), rng.randrange(max(lo, -300), min(hi, 300) + 1)])
    s = str(v)
    f = rng.random()
    if f < 0.12 and v >= 0:
        s = "+" + s
    elif f < 0.2:
        s = ("-" if v < 0 else "") + "0" * rng.randrange(1, 4) + str(abs(v))
    elif f < 0.23 and lo < 0:
        s = "-0"
    return s


def long_text(rng):
    """long values with multi-byte characters at every alignment (length thresholds, char boundaries)."""
    n = rng.choice([30, 60, 63, 64, 65, 66, 70, 127, 128, 130, 255, 260, 300, 1000])
    out, size = [], 0
    while size < n:
        c = rng.choice(["a", "Z", "9", "é", "€", "😀", "ß", "日", "x", "-"])
        out.append(c)
        size += len(c.encode())
    return "".join(out)


def gen_text(rng, ty, valid=True):
    b = base(ty)
    if not valid and rng.random() < 0.15:
        return long_text(rng)          # not a number / bool / char, and long
    if valid and not (INT_RE.match(b) or b in ("bool", "char")) and rng.random() < 0.06:
        return long_text(rng)
    if INT_RE.match(b):
        return gen_int_text(rng, b, valid)
    if b == "bool":
        return rng.choice(["true", "false"]) if valid else rng.choice(["True", "1", "TRUE", "false ", "t", "", "0", "yes", " true"])
    if b == "char":
        if valid:
            return rng.choice(["a", "Z", "%", "+", " ", "é", "€", "😀", "/", "&", "\x00", "=", "퟿", "", "\U0010ffff", "#", "?"])
        return rng.choice(["", "ab", "é", "aa", "😀😀"])
    return "".join(rng.choice(STR_ATOMS) for _ in range(rng.choice([0, 1, 1, 2, 3, 5])))


def validity_plan(rng, n):
    """Which of the n fields get a well-formed value: mostly all, often all but one, sometimes random."""
    m = rng.random()
    if m < 0.6:
        return [True] * n
    if m < 0.9:
        plan = [True] * n
        if n:
            plan[rng.randrange(n)] = False
        return plan
    return [rng.random() < 0.6 for _ in range(n)]


MUTS = [b"%FF", b"%", b"%4", b"%zz", b"\xff", b" ", b"%C3", b"%C3%28", b"%ED%A0%80", b"%F0%9F", b"+", b"%2F", b"%00", b"\xc3\xa9", b"<", b"%25"]


def mutate_bytes(rng, bs):
    bs = bytearray(bs)
    for _ in range(rng.choice([1, 1, 2])):
        i = rng.randrange(len(bs) + 1)
        m = rng.random()
        if m < 0.6:
            bs[i:i] = rng.choice(MUTS)
        elif m < 0.8 and bs:
            del bs[min(i, len(bs) - 1)]
        elif bs:
            bs[min(i, len(bs) - 1)] = rng.randrange(256)
    return bytes(bs)


def gen_path(rng):
    shape = rng.choice(PATH_SHAPES)
    fields = list(SHAPES[shape])
    if rng.random() < 0.5:
        rng.shuffle(fields)
    if rng.random() < 0.08:
        fields.pop(rng.randrange(len(fields)))
    items = [("param", n, t) for n, t in fields]
    if rng.random() < 0.2:
        items.insert(rng.randrange(len(items) + 1), ("param", "x", "String"))
    for _ in range(rng.choice([0, 0, 1, 2])):
        items.insert(rng.randrange(len(items) + 1), ("lit", rng.choice(["u", "v1", "home"]), None))
    route, segs = [], []
    plan = validity_plan(rng, len(items))
    for idx, (k, n, t) in enumerate(items):
        if k == "lit":
            route.append({"lit": n})
            segs.append(n.encode() if rng.random() > 0.03 else b"other")
            continue
        text = gen_text(rng, t, plan[idx]).encode("utf-8")
        if idx == len(items) - 1 and base(t) in ("String", "cow") and rng.random() < 0.3:
            route.append({"catch": n})
            enc = b"/".join(enc_segment(rng, p, False) for p in text.split(b"/"))
        else:
            route.append({"param": n})
            enc = enc_segment(rng, text, False)
        segs.append(enc)
    path = b"/" + b"/".join(segs)
    if rng.random() < 0.03:
        path += b"/"
    if rng.random() < 0.12:
        path = mutate_bytes(rng, path)
    return {"op": "path", "shape": shape, "route": route, "path": list(path)}


def gen_pairs(rng, shape, for_query):
    fields = list(SHAPES[shape])
    if rng.random() < 0.5:
        rng.shuffle(fields)
    pieces = []
    plan = validity_plan(rng, len(fields))
    for (n, t), valid in zip(fields, plan):
        kind = t.split(":")[0] if ":" in t else "s"
        if kind == "s":
            k = 1 if valid else rng.choice([1, 1, 1, 0, 2])
        elif kind == "opt":
            k = rng.choice([0, 1, 1, 1]) if valid else rng.choice([1, 1, 2])
        else:
            k = rng.choice([0, 1, 2, 3])
        for _ in range(k):
            text = gen_text(rng, t, valid or rng.random() < 0.5).encode("utf-8")
            if kind == "opt" and rng.random() < 0.2:
                text = b""
            key = n.encode()
            if rng.random() < 0.05:
                key = b"".join(pct(c, rng) if rng.random() < 0.5 else bytes([c]) for c in key)
            piece = key + b"=" + enc_segment(rng, text, True)
            if text == b"" and rng.random() < 0.3:
                piece = key
            pieces.append(piece)
    for _ in range(rng.choice([0, 0, 0, 1, 2])):
        pieces.insert(rng.randrange(len(pieces) + 1), rng.choice([b"x=1", b"zz", b"=", b"", b"x=%FF", b"name2=a=b", b"A=1"]))
    if rng.random() < 0.3:
        rng.shuffle(pieces)
    bs = b"&".join(pieces)
    if rng.random() < 0.15:
        bs = mutate_bytes(rng, bs)
    return bs



CT_POOL = ["application/json", "application/JSON", "Application/Json; charset=utf-8", "application/hal+json", "application/vnd.api+json;v=1",
           "application/json;", "application/json; ", "application/json ;charset=utf-8", "text/json", "application/jsonx", "application/x+jsonx",
           "application/json+xml", "application/+json", "application/a+b+json", "application/x-www-form-urlencoded",
           "application/X-WWW-FORM-URLENCODED; charset=UTF-8", "application/x-www-form-urlencoded+json", "multipart/form-data; boundary=x", "text/plain",
           "hello world", "application", "application/", "/json", "*/*", "application/*", "application/json; charset", "application/json; charset=",
           "application/json; a=\"b c\"; d=e", "application/json; a=\"\"", "application/json; a=\"x\" ; b=c", "application/json;a=b;", "application/json;;",
           "application/json; =b", "application/json\t", "application/json,text/plain", "application/json; a=b c", "", " application/json",
           "application/json ", "application/jsön", "application/json; a=\"é\"", "application/x-www-form-urlencoded;", "application/x-www-form-urlencoded ; a=b",
           "APPLICATION/X-WWW-FORM-URLENCODED", "application/json; a=\"x", "application/json; a=b=c", "application/json+", "application/json+json"]


def gen_ct_value(rng, good):
    if rng.random() < 0.55:
        v = good
    else:
        v = rng.choice(CT_POOL)
    if rng.random() < 0.25:
        b = bytearray(v.encode())
        i = rng.randrange(len(b) + 1)
        if rng.random() < 0.6:
            b[i:i] = rng.choice(b"+;/= \"aJ*")[0:1] if False else bytes([rng.choice(b"+;/= \"aJ*")])
        elif b:
            del b[min(i, len(b) - 1)]
        v = bytes(b).decode("utf-8", "ignore")
    if rng.random() < 0.06:
        return None
    return [c for c in v.encode() if c == 9 or 32 <= c < 127 or c >= 128]


def gen_ct(rng):
    kind = rng.choice(["json", "form"])
    return {"op": "ct", "kind": kind, "ct": gen_ct_value(rng, "application/json" if kind == "json" else "application/x-www-form-urlencoded")}


JSON_SHAPES = ["QM", "QI", "QO", "QV", "QS", "PW", "PM"]


def json_str(rng, s):
    out = '"'
    for ch in s:
        o = ord(ch)
        if ch in '"\\':
            out += "\\" + ch
        elif o < 0x20:
            out += rng.choice(["\\u%04x" % o] + ({8: ["\\b"], 9: ["\\t"], 10: ["\\n"], 12: ["\\f"], 13: ["\\r"]}.get(o, [])))
        elif rng.random() < 0.15:
            if o > 0xFFFF:
                o -= 0x10000
                out += "\\u%04x\\u%04X" % (0xD800 + (o >> 10), 0xDC00 + (o & 0x3FF))
            else:
                out += "\\u%04x" % o
        elif ch == "/" and rng.random() < 0.3:
            out += "\\/"
        else:
            out += ch
    return out + '"'


def json_value_text(rng, ty, valid):
    kind = ty.split(":")[0] if ":" in ty else "s"
    b = base(ty)
    if kind == "opt":
        if rng.random() < 0.3:
            return "null"
        return json_value_text(rng, b, valid)
    if kind in ("vec", "vecd"):
        return "[" + rng.choice([",", " , ", ",\n"]).join(json_value_text(rng, b, valid) for _ in range(rng.choice([0, 1, 2, 3]))) + "]"
    if INT_RE.match(b):
        if valid:
            t = gen_int_text(rng, b, True)
            t = str(int(t)) if t not in ("-0",) else "0"
            return t
        return rng.choice([gen_int_text(rng, b, False), "1.0", "1e2", "-0", "\"5\"", "true", "null", "01", "[1]", "{}", "1.5", "-1", "1E400"])
    if b == "bool":
        return rng.choice(["true", "false"]) if valid else rng.choice(["1", "\"true\"", "null", "True", "0"])
    if b == "char":
        if valid:
            return json_str(rng, rng.choice(["a", "é", "€", "😀", "\"", "\\", "\n", "/", "\x00"]))
        return rng.choice(['""', '"ab"', "1", "null", '"\\ud83d"'])
    if valid or rng.random() < 0.5:
        text = "".join(rng.choice(STR_ATOMS + ['"', "\\", "\t", "\x01"]) for _ in range(rng.choice([0, 1, 2, 3, 5])))
        if b == "str" and rng.random() < 0.7:
            text = "".join(c for c in text if c not in '"\\' and ord(c) >= 0x20)
            return '"' + text + '"'
        return json_str(rng, text)
    return rng.choice(["1", "null", "true", "[]", '"\\ud800"', '"\\udc00x"', '"\\u12"', '"\\x"', '"a\nb"', "{}"])


def gen_json(rng):
    shape = rng.choice(JSON_SHAPES)
    fields = list(SHAPES[shape])
    plan = validity_plan(rng, len(fields))
    items = []
    for (n, ty), valid in zip(fields, plan):
        kind = ty.split(":")[0] if ":" in ty else "s"
        drop = rng.random() < (0.35 if kind in ("opt", "vecd") else (0.0 if valid else 0.3))
        if drop:
            continue
        items.append((n, json_value_text(rng, ty, valid)))
        if not valid and rng.random() < 0.2:
            items.append((n, json_value_text(rng, ty, True)))
    for _ in range(rng.choice([0, 0, 1, 2])):
        items.append((rng.choice(["x", "extra", "Id", "name2"]), rng.choice(["1", "null", '"s"', "[1,[2,{\"a\":null}]]", '{"k":{"j":[true,false]}}', "1.5e3", '"\\u00e9"'])))
    if rng.random() < 0.6:
        rng.shuffle(items)
    ws = lambda: rng.choice(["", "", " ", "\n", "\t ", "\r\n"])
    text = ws() + "{" + ws() + ("," + ws()).join(json_str(rng, n) if rng.random() < 0.1 else '"%s"' % n + ws() + ":" + ws() + v for n, v in
                                                   [(n, v) for n, v in items]) + ws() + "}" + ws()
    # (a key written with escapes above loses its value on purpose: a malformed member)
    body = text.encode("utf-8", "surrogatepass")
    m = rng.random()
    if m < 0.06:
        body = body[:rng.randrange(len(body) + 1)]
    elif m < 0.12:
        body = mutate_bytes(rng, body)
    elif m < 0.14:
        body = rng.choice([b"", b"null", b"[]", b"42", b"\"s\"", b"{", b"}", b"{}x", b"\xef\xbb\xbf{}", b"{\"a\":1,}", b"{'a':1}", b"NaN", b"[1,\"a\",true,\"x\"]"])
    ct = gen_ct_value(rng, "application/json") if rng.random() < 0.2 else list(b"application/json")
    return {"op": "json", "shape": shape, "ct": ct, "body": list(body)}


def gen_query(rng):
    shape = rng.choice(QUERY_SHAPES)
    return {"op": "query", "shape": shape, "q": list(gen_pairs(rng, shape, True))}


def gen_form(rng):
    shape = rng.choice(QUERY_SHAPES)
    ct = gen_ct_value(rng, "application/x-www-form-urlencoded") if rng.random() < 0.2 else list(b"application/x-www-form-urlencoded")
    return {"op": "form", "shape": shape, "ct": ct, "body": list(gen_pairs(rng, shape, False))}


PD_ATOMS = [b"%", b"%4", b"%41", b"%2541", b"%zz", b"%fF", b"%Ff", b"a", b"0", b"G", b"g", b"+", b"\xff", b"%%", b"%C3%A9", b"%25", b" ", b"@", b"`"]


def gen_small(rng):
    r = rng.random()
    if r < 0.3:
        return {"op": "pdec", "b": list(b"".join(rng.choice(PD_ATOMS) for _ in range(rng.randrange(0, 7))))}
    if r < 0.45:
        st = sorted(set(rng.choice([37, 47, 63, 35, 32, 43, 38, 61, 65, 97, 48, 52, 49, 0, 127, 126]) for _ in range(rng.randrange(0, 8))) | ({37} if rng.random() < 0.8 else set()))
        return {"op": "penc", "set": st, "b": [rng.choice([37, 47, 32, 65, 97, 52, 49, 0, 127, 128, 255, 233, 43]) for _ in range(rng.randrange(0, 8))]}
    if r < 0.55:
        return {"op": "fser", "b": [rng.choice([37, 47, 32, 65, 97, 42, 45, 46, 95, 126, 43, 38, 61, 0, 128, 255, 59, 35]) for _ in range(rng.randrange(0, 8))]}
    if r < 0.7:
        return {"op": "fparse", "b": list(b"".join(rng.choice([b"a", b"b", b"=", b"&", b"+", b"%41", b"%", b"%FF", b"\xc3\xa9", b"\xff", b";", b"%26", b"%3D"]) for _ in range(rng.randrange(0, 9))))}
    if r < 0.85:
        atoms = [b"a", b"\xc3\xa9", b"\xe2\x82\xac", b"\xf0\x9f\x98\x80", b"\xc3", b"\xe2\x82", b"\xf0\x9f", b"\xf0\x9f\x98", b"\x80", b"\xbf", b"\xc0\xaf",
                 b"\xc1\xbf", b"\xe0\x80\xaf", b"\xe0\x9f\xbf", b"\xe0\xa0\x80", b"\xed\xa0\x80", b"\xed\x9f\xbf", b"\xee\x80\x80", b"\xf0\x80\x80\x80", b"\xf0\x8f\xbf\xbf",
                 b"\xf0\x90\x80\x80", b"\xf4\x8f\xbf\xbf", b"\xf4\x90\x80\x80", b"\xf5\x80\x80\x80", b"\xff", b"\xfe", b"\xef\xbf\xbd", b"\xc2\x80", b"\xdf\xbf", b"\x7f"]
        return {"op": "utf8", "b": list(b"".join(rng.choice(atoms) for _ in range(rng.randrange(0, 5))))}
    ty = rng.choice(["u8", "u16", "u32", "u64", "u128", "i8", "i16", "i32", "i64", "i128", "bool", "char"])
    return {"op": "scalar", "ty": ty, "b": list(gen_text(rng, ty, rng.random() < 0.6).encode("utf-8"))}


def gen(rng):
    r = rng.random()
    if r < 0.08:
        return gen_pfloat(rng)
    if r < 0.3:
        return gen_path(rng)
    if r < 0.55:
        return gen_query(rng)
    if r < 0.7:
        return gen_form(rng)
    if r < 0.76:
        return gen_ct(rng)
    c = gen_small(rng)
    if c["op"] == "scalar" and not is_utf8(bytes(c["b"])):
        c["b"] = list(b"12")
    return c


def nontrivial(case, out):
    op = case["op"]
    if op in ("path", "query", "form"):
        raw = bytes(case.get("path") or case.get("q") or case.get("body") or b"")
        return out.get("r") in ("ok", "err") and (b"%" in raw or b"+" in raw or any(c >= 128 for c in raw) or out.get("r") == "err")
    if op == "scalar":
        return len(case["b"]) > 0
    if op == "pfloat":
        return len(case["raw"]) > 3
    if op in ("pdec", "fparse"):
        return 37 in case["b"] or 43 in case["b"]
    if op == "ct":
        return case.get("ct") is not None
    if op == "utf8":
        return any(c >= 128 for c in case["b"])
    return len(case.get("b", [])) > 0


def mutate(rng, c):
    c = json.loads(json.dumps(c))
    for k in ("path", "q", "body", "b", "raw"):
        if k in c:
            c[k] = list(mutate_bytes(rng, bytes(c[k])))
    return c


def run(R):
    R.assumptions += [
        "64-bit little-endian target; `FromStr` for integers/bool/char of the installed Rust toolchain (modelled, validated by the `scalar` correspondence)",
        "percent-encoding 2.3.2, form_urlencoded 1.2.2, serde_html_form 0.2.8, serde/serde_derive struct visitors, matchit 0.9.0 (single route, whole-segment parameters), http 1.4 `Uri` byte classes: modelled, validated by this correspondence only",
        "f32 / f64 fields: `str::parse::<fN>` (core::num::dec2flt) is modelled by its contract (Pxv/Model/Float.lean: grammar + nearest representable value, ties to even, computed exactly) and validated by the `pfloat` correspondence; JSON numbers read into floats (serde_json's own parser) are not generated",
    ]
    R.notes.append("JsonBody: the Content-Type gate is modelled and diffed (op `ct`); serde_json parsing is NOT modelled in Lean and is covered by the "
                   "Python-json oracle only (coverage.json_oracle_only). Known finding C15-lossy-utf8-query-form: query/form extraction replaces invalid UTF-8 "
                   "by U+FFFD instead of failing (theorem query_invalid_utf8_not_rejected); fixed finding C15-json-trailing-characters (repo commit `fix: reject trailing characters ...`).")
    R.coverage["trusted_base"].append("the JSON canonicalisation of extracted structs in harness/crates/reqdata/src/shapes.rs and the error-message classifier in main.rs")
    if R.replay:
        rp = json.load(open(R.replay))["replay"]
        if any(c and c.get("op") == "json" for c in (rp.get("cases") or [rp.get("case")])):
            # a JSON-body replay: oracle-only path (there is no model operation to diff against)
            pxvlib.lean_obligations(R, ["Pxv.Thm.C15"])
            ok, out = pxvlib.build_harness(R, "reqdata")
            if not ok:
                R.violation("harness does not build against the current tree (broken tie)", {"cargo_output_tail": out[-3000:]}, no_failing_input=True)
                return
            json_phase(R, 0)
            return
    pxvlib.differential(
        R, modules=["Pxv.Thm.C15"], model="reqdata", pkg="reqdata", gen=gen, oracle=oracle, nontrivial=nontrivial, mutate=mutate,
        match_known=match_known_factory(R),
        n_quick=12000, n_thorough=400000,
        rule="op mix: path 30% / query 25% / form 15% / primitives 30% (percent decode+encode, form serialize+parse, UTF-8 validity+lossy, scalar FromStr); "
             "12 target structs (u8..u128, i8..i128, bool, char, String, Cow<str>, &str, Option, Vec, defaulted Vec); values boundary-biased (0, MIN, MAX, MAX+1, signs, leading zeros, "
             "non-ASCII digits) and strings over reserved characters, '%', '+', multi-byte UTF-8, text that itself looks percent-encoded; 3-4 client encoders; 15% byte-level mutations "
             "(dangling %, %FF, overlong/surrogate sequences, raw high bytes); non-trivial = input needs decoding ('%', '+', non-ASCII) or ends in a documented error; distinct by full input",
    )
    json_phase(R, 4000 if R.tier == "quick" else 150000)
    if R.tier == "thorough" and not R.replay and not pxvlib.leanchecker(R, ["Pxv.Thm.C15"]):
        R.violation("leanchecker rejects Pxv.Thm.C15", {"theorem_modules": ["Pxv.Thm.C15"]}, no_failing_input=True)


def json_phase(R, n):
    """`JsonBody::extract`: serde_json is not modelled in Lean; the real extractor is checked against
    Python's json module (implementation-side oracle only). Reported separately in the evidence."""
    if R.replay:
        rp = json.load(open(R.replay))["replay"]
        cases = [c for c in (rp.get("cases") or [rp.get("case")]) if c and c.get("op") == "json"]
    else:
        cases = []
        path = os.path.join(pxvlib.CORPUS, "C15", "json_oracle_only.txt")
        if os.path.exists(path):
            cases += [json.loads(l) for l in open(path) if l.strip()]
        cases += [gen_json(R.rng) for _ in range(n)]
    if not cases:
        return
    lines = [json.dumps(c, sort_keys=True) for c in cases]
    outs = pxvlib.run_impl("reqdata", lines, pkg="reqdata")
    hist, fails, seen = {}, [], set()
    for c, l, o in zip(cases, lines, outs):
        try:
            io = json.loads(o)
        except Exception:
            io = {"r": "unparseable"}
        k = io.get("kind") or io.get("r")
        hist[k] = hist.get(k, 0) + 1
        why = oracle_json(c, io)
        if why:
            fails.append((c, o, why))
        if io.get("r") in ("ok", "err"):
            seen.add(l)
    R.coverage["json_oracle_only"] = {"evaluations": len(cases), "distinct": len(seen), "oracle_failures": len(fails), "outcome_histogram": hist,
                                      "note": "no Lean model of serde_json: JSON bodies are covered by the Content-Type gate model (op `ct`) plus this oracle"}
    R.coverage["evaluations"] += len(cases)
    R.coverage["impl_vs_oracle_failures"] += len(fails)
    R.log("json (oracle only): cases=%d failures=%d hist=%s" % (len(cases), len(fails), hist))
    for c, o, why in fails[:3]:
        R.violation("implementation breaks the property: " + why, {"case": c, "impl": o})
