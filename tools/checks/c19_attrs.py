"""C19, attribute half: generator, documentation-level oracle, source-shape check of the macros' quote! templates,
and the rustdoc stage (real macros -> rustdoc JSON -> real parser)."""
import json
import os
import re
import shutil
import subprocess

import pxvlib

STANDARD = ["CONNECT", "GET", "POST", "PUT", "DELETE", "PATCH", "OPTIONS", "HEAD", "TRACE"]
IDS = ["A", "HANDLER_1", "my_ctor", "X9", "_p", "É", "id with space", "semi;colon", "sl/ash", "{brace}", ""]
PATHS = ["/", "/users/{id}", "/a/b", "/späti", "/{*rest}", "/q?x=1&y=2", "", "/a, b = c", "/[x](y)#z"]
KEYS = ["server", "db.url", "a_b", "ключ"]
METHODS = ["GET", "POST", "DELETE", "QUERY", "get", "PATCH", "X-CUSTOM", ""]
LIFECYCLES = ["singleton", "request_scoped", "transient"]
CLONING = ["never_clone", "clone_if_necessary"]
DECOYS = ["#[inline]", "#[doc = \"hello\"]", "#[must_use]", "#[allow(unused)]", "#[diagnostic::on_unimplemented(message = \"x\")]",
          "#[cfg_attr(test, ignore)]", "not an attribute", "#![inner]", "", "#[doc = \"a\"] #[inline]", "#[derive(Clone, Debug)]",
          "#[rustfmt::skip]"]


def opt_bool(rng):
    return rng.choice([None, None, True, False])


def gen_spec(rng):
    k = rng.choice(["constructor", "constructor", "prebuilt", "config", "wrap", "pre_process", "post_process", "fallback",
                    "error_observer", "error_handler", "route", "route", "route", "shorthand"])
    s = {"kind": k, "id": rng.choice(IDS)}
    if k == "constructor":
        s.update(lifecycle=rng.choice(LIFECYCLES), cloning_policy=rng.choice([None] + CLONING), allow_unused=opt_bool(rng),
                 allow_error_fallback=opt_bool(rng))
    elif k == "prebuilt":
        s.update(cloning_policy=rng.choice([None] + CLONING), allow_unused=opt_bool(rng))
    elif k == "config":
        s.update(key=rng.choice(KEYS), cloning_policy=rng.choice([None] + CLONING), default_if_missing=rng.random() < 0.4,
                 include_if_unused=rng.random() < 0.4)
    elif k in ("wrap", "pre_process", "post_process", "fallback"):
        s.update(allow_error_fallback=opt_bool(rng))
    elif k == "error_handler":
        s.update(error_ref_input_index=rng.choice([0, 1, 2, 7, 12345678901234]), default=opt_bool(rng))
    elif k == "route":
        r = rng.random()
        if r < 0.35:
            m = rng.choice(METHODS)
        elif r < 0.7:
            m = [rng.choice(METHODS) for _ in range(rng.choice([0, 1, 2, 3, 4]))]
        else:
            m = None
        any_ = (m is None) if rng.random() < 0.9 else (rng.random() < 0.5)
        s.update(path=rng.choice(PATHS), method=m, allow_non_standard_methods=rng.random() < 0.4, allow_any_method=any_,
                 allow_error_fallback=opt_bool(rng))
    elif k == "shorthand":
        s.update(method=rng.choice(["GET", "POST", "PATCH", "PUT", "DELETE", "HEAD", "OPTIONS"]), path=rng.choice(PATHS),
                 allow_error_fallback=opt_bool(rng))
    return s


# ---- what the macros write (read off the quote! templates; checked against the source by `srcshape`) ----

def lit(v):
    if isinstance(v, bool):
        return "true" if v else "false"
    if isinstance(v, int):
        return str(v)
    if isinstance(v, list):
        return "[" + ", ".join(lit(x) for x in v) + "]"
    return '"' + v + '"'


def spec_fields(s):
    k = s["kind"]
    f = [("id", s["id"])]
    opt = lambda key: [(key, s[key])] if s.get(key) is not None else []  # noqa: E731
    flag = lambda key: [(key, True)] if s.get(key) else []  # noqa: E731
    if k == "constructor":
        f += [("lifecycle", s["lifecycle"])] + opt("cloning_policy") + opt("allow_unused") + opt("allow_error_fallback")
    elif k == "prebuilt":
        f += opt("cloning_policy") + opt("allow_unused")
    elif k == "config":
        f += [("key", s["key"])] + opt("cloning_policy") + flag("default_if_missing") + flag("include_if_unused")
    elif k in ("wrap", "pre_process", "post_process", "fallback"):
        f += opt("allow_error_fallback")
    elif k == "error_handler":
        f += [("error_ref_input_index", s["error_ref_input_index"])] + opt("default")
    elif k == "route":
        f += [("path", s["path"])] + opt("method") + flag("allow_non_standard_methods") + flag("allow_any_method") + opt("allow_error_fallback")
    elif k == "shorthand":
        f += [("method", s["method"]), ("path", s["path"])] + opt("allow_error_fallback")
    return f


def attr_kind(s):
    return "route" if s["kind"] == "shorthand" else s["kind"]


def emit(s, fields=None, style=0):
    fields = spec_fields(s) if fields is None else fields
    eq = [" = ", "=", " =  "][style % 3]
    sep = [", ", ",", " ,\n    "][style % 3]
    body = sep.join(k + eq + lit(v) if v is not ... else k for k, v in fields)
    if fields and style % 2 == 0:
        body += ","
    return "#[diagnostic::pavex::%s(%s)]" % (attr_kind(s), body)


def legal(s):
    if s["kind"] != "route":
        return True
    return (s["method"] is not None) != bool(s["allow_any_method"])


def meaning(s):
    """The properties the compiler must end up with (serde rendering of AnnotationProperties)."""
    k = s["kind"]
    g = s.get
    if k == "constructor":
        return {"Constructor": {"id": s["id"], "lifecycle": s["lifecycle"], "cloning_policy": g("cloning_policy"),
                                "allow_unused": g("allow_unused"), "allow_error_fallback": g("allow_error_fallback")}}
    if k == "prebuilt":
        return {"Prebuilt": {"id": s["id"], "allow_unused": g("allow_unused"), "cloning_policy": g("cloning_policy")}}
    if k == "config":
        return {"Config": {"id": s["id"], "key": s["key"], "cloning_policy": g("cloning_policy"),
                           "default_if_missing": True if s["default_if_missing"] else None,
                           "include_if_unused": True if s["include_if_unused"] else None}}
    tags = {"wrap": "WrappingMiddleware", "pre_process": "PreProcessingMiddleware", "post_process": "PostProcessingMiddleware",
            "fallback": "Fallback"}
    if k in tags:
        return {tags[k]: {"id": s["id"], "allow_error_fallback": g("allow_error_fallback")}}
    if k == "error_observer":
        return {"ErrorObserver": {"id": s["id"]}}
    if k == "error_handler":
        return {"ErrorHandler": {"id": s["id"], "error_ref_input_index": s["error_ref_input_index"], "default": g("default")}}
    if k == "shorthand":
        return {"Route": {"id": s["id"], "method": {"some": [s["method"]]}, "path": s["path"], "allow_error_fallback": g("allow_error_fallback")}}
    m = s["method"]
    if m is None:
        guard = "any" if s["allow_non_standard_methods"] else {"some": sorted(STANDARD)}
    elif isinstance(m, list):
        guard = {"some": sorted(set(m))}
    else:
        guard = {"some": [m]}
    return {"Route": {"id": s["id"], "method": guard, "path": s["path"], "allow_error_fallback": g("allow_error_fallback")}}


# ---- generator ---------------------------------------------------------------------------------------

def gen(rng):
    s = gen_spec(rng)
    fields = spec_fields(s)
    mut = "none"
    r = rng.random()
    if r < 0.45:
        pass
    elif r < 0.55 and len(fields) > 1:
        i = rng.randrange(len(fields))
        mut = "drop:" + fields[i][0]
        fields = fields[:i] + fields[i + 1:]
    elif r < 0.63:
        i = rng.randrange(len(fields))
        mut = "dup:" + fields[i][0]
        fields = fields + [fields[i]] if rng.random() < 0.5 else fields[:i + 1] + [fields[i]] + fields[i + 1:]
    elif r < 0.70:
        i = rng.randrange(len(fields))
        mut = "rename:" + fields[i][0]
        new = rng.choice([k for k in ["beautiful", "ids", "error_handler", "Id", "lifecycle", "allow_unused", "default"] if k != fields[i][0]])
        fields = fields[:i] + [(new, fields[i][1])] + fields[i + 1:]
    elif r < 0.82:
        i = rng.randrange(len(fields))
        v = fields[i][1]
        nv = rng.choice([True, False, 7, "true", "false", "12", "+3", "worker", "singleton", ["GET"], [], ..., "never_clone", ""])
        mut = "retype:%s:%r" % (fields[i][0], nv if nv is not ... else "word")
        fields = fields[:i] + [(fields[i][0], nv)] + fields[i + 1:]
        _ = v
    elif r < 0.88:
        mut = "kind"
    style = rng.randrange(6)
    a = emit(s, fields, style)
    if mut == "kind":
        form = rng.randrange(6)
        a = ["#[diagnostic::pavex::unknown(id = \"A\")]", "#[diagnostic::pavex]", "#[::" + a[2:], "#[diagnostic::pavex::route::get(id = \"A\")]",
             a.split("(")[0] + "]", a.split("(")[0] + " = \"x\"]"][form]
        mut = "kind:%d" % form
    attrs = [a]
    second = None
    x = rng.random()
    if x < 0.35:
        for _ in range(rng.choice([1, 1, 2, 3])):
            attrs.insert(rng.randrange(len(attrs) + 1), rng.choice(DECOYS))
    elif x < 0.45:
        second = gen_spec(rng)
        pos = rng.randrange(2)
        attrs.insert(pos, emit(second, None, rng.randrange(6)))
        second = {"spec": second, "first": pos == 0}
    elif x < 0.5:
        attrs.append("#[diagnostic::pavex::methods]" if rng.random() < 0.5 else "#[diagnostic::pavex::methods(anything = 1)]")
        second = {"spec": {"kind": "methods"}, "first": False}
    return {"op": "attr", "attrs": attrs, "spec": s, "mut": mut, "second": second}


def route_no_method(a):
    if "diagnostic::pavex::route" not in a or re.search(r"\bmethod\s*=", a):
        return False
    return not re.search(r"allow_any_method\s*(=\s*(true|\"true\")|[,)])", a)



def oracle(case, out):
    s, mut, second = case.get("spec"), case.get("mut"), case.get("second")
    if out.get("r") == "panic":
        # The one modelled panic: `From<RouteProperties>` on a route attribute with neither `method` nor
        # `allow_any_method = true`. The macros no longer write that (the documentation forbids it), so for a
        # hand-made attribute it is the outcome the model predicts; any other panic is a defect.
        if "Malformed `pavex::diagnostic::route` attribute" in out.get("msg", "") and any(route_no_method(a) for a in case["attrs"]):
            return None
        return "the attribute parser panics (%s) on %r" % (out.get("msg", "")[:80], case["attrs"])
    if out.get("r") not in ("none", "some", "err"):
        return "unexpected outcome %r" % (out,)
    if mut is None:
        return None  # hand-written corpus line: correspondence only
    if mut == "none" and second is None:
        if not legal(s):
            return None  # only reachable by panicking, handled above
        if out.get("r") != "some" or out.get("props") != meaning(s):
            return "macro arguments %r reach the compiler as %r, expected %r" % (s, out.get("props", out), meaning(s))
        return None
    if mut == "none" and second is not None:
        if second["spec"]["kind"] == "methods" or legal(second["spec"]):
            if legal(s) and out != {"r": "err", "kind": "multiple"}:
                return "two Pavex attributes on one item accepted: %r" % (out,)
        return None
    if mut.startswith("kind:") and second is None:
        form = int(mut.split(":")[1])
        want = {"r": "err", "kind": "unknown-attribute"} if form < 4 else {"r": "err", "kind": "invalid-params"}
        if out != want:
            return "attribute %r: got %r, expected %r" % (case["attrs"], out, want)
        return None
    if mut.startswith("rename:") and second is None and out.get("r") == "some":
        key = mut.split(":", 1)[1]
        if key in ("id", "lifecycle", "key", "path", "error_ref_input_index") or (key == "method" and s["kind"] == "shorthand"):
            return "required argument %s missing/renamed but attribute accepted: %r" % (key, out)
    return None


def nontrivial(case, out):
    s = case.get("spec") or {}
    optional = sum(1 for k, v in s.items() if k not in ("kind", "id", "lifecycle", "key", "path") and v not in (None, False))
    return optional >= 2 or out.get("r") in ("err", "panic")


def mutate(rng, c):
    return gen(rng)


# ---- source shape: the quote! templates of the macros ------------------------------------------------

TEMPLATES = {
    "runtime/pavex_macros/src/constructor/mod.rs": (["id", "lifecycle", "cloning_policy", "allow_unused", "allow_error_fallback"], "constructor"),
    "runtime/pavex_macros/src/prebuilt.rs": (["id", "cloning_policy", "allow_unused"], "prebuilt"),
    "runtime/pavex_macros/src/config.rs": (["id", "key", "cloning_policy", "default_if_missing", "include_if_unused"], "config"),
    "runtime/pavex_macros/src/middlewares/generic.rs": (["id", "allow_error_fallback"], None),
    "runtime/pavex_macros/src/error_observer.rs": (["id"], "error_observer"),
    "runtime/pavex_macros/src/error_handler.rs": (["id", "error_ref_input_index", "default"], "error_handler"),
    "runtime/pavex_macros/src/fallback.rs": (["id", "allow_error_fallback"], "fallback"),
    "runtime/pavex_macros/src/routes/route.rs": (["id", "path", "method", "allow_non_standard_methods", "allow_any_method", "allow_error_fallback"], "route"),
    "runtime/pavex_macros/src/routes/shorthands.rs": (["id", "method", "path", "error_handler", "allow_error_fallback"], "route"),
}


def srcshape(R):
    """The keys each macro writes, in order, as found in its `quote! { key = #value, }` templates."""
    bad = []
    for rel, (want, kind) in TEMPLATES.items():
        txt = pxvlib.src_text(rel)
        start = txt.find("let mut properties = quote!")
        if start < 0:
            start = txt.find("let properties = quote!")
        seg = txt[start:]
        end = seg.find("AnnotationCodegen {")
        seg = seg[:end if end > 0 else len(seg)]
        keys = re.findall(r"^\s*(\w+) = (?:#\w+|true),\s*\}?;?$", seg, flags=re.M)
        keys += []
        found = re.findall(r"(\w+) = (?:#\w+|true),", seg)
        if found != want:
            bad.append("%s: macro writes %r, model/oracle expect %r" % (rel, found, want))
        if kind and ("diagnostic::pavex::%s(#properties)" % kind) not in txt:
            bad.append("%s: does not emit #[diagnostic::pavex::%s(..)]" % (rel, kind))
    R.coverage["macro_templates_checked"] = len(TEMPLATES)
    return bad


# ---- rustdoc stage: real macros -> rustdoc JSON -> real parser ------------------------------------------

def rustdoc_stage(R):
    from checks import c19_rustdoc
    return c19_rustdoc.run(R)
