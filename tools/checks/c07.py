"""C07 — requests are routed to exactly the handler the blueprint designates.

L2  lean/Pxv/Thm/C07.lean over lean/Pxv/Model/Router.lean + Matchit.lean (+ Domain.lean).
L3  two layers, both on every run:
    (a) in-process (harness/crates/c07): the real `matchit` crate (insert verdicts incl. malformed
        patterns, order dependence, `at`) and the real `pavex::router::{MethodAllowList,
        default_fallback}` against the compiled Lean model, thousands of random tables x paths;
    (b) end to end: applications with rich route tables (tools/gen_routes.py) through the real pavexc
        (verdict, the `insert` sequence of the generated `router()` functions) and the generated
        servers over loopback (which handler / fallback logged, status, `Allow`), against the
        model's verdict, table and dispatch.
    Oracle (model-free): a direct Python reading of the routing documentation — which registered
    routes match a request (domain guard, path pattern with nesting prefixes, method guard), which
    fallback is the applicable one — evaluated on the implementation's answers alone.
"""
import json
import re

import pxvlib

STD = ["GET", "POST", "PUT", "DELETE", "PATCH", "HEAD", "OPTIONS", "CONNECT", "TRACE"]

# =================================================================================================
# The documentation, read independently of the model (docs/guide/routing, Blueprint::fallback docs)
# =================================================================================================


def lex(p):
    """`{{` / `}}` stand for literal braces: collapsed greedily, left to right (so `{x}}}` is the
    parameter `x}`); returns [(char, escaped)]."""
    out, i = [], 0
    while i < len(p):
        if i + 1 < len(p) and p[i] == p[i + 1] and p[i] in "{}":
            out.append((p[i], True))
            i += 2
        else:
            out.append((p[i], False))
            i += 1
    return out


def parse_pattern(p):
    """Tokens of a route path: ("c", ch) | ("par", suffix) | ("star",); None if the pattern breaks a
    documented rule (braces balanced, non-empty names without `*` or `/`, one parameter per segment,
    catch-all only at the very end)."""
    L = lex(p)
    toks, i, n = [], 0, len(L)
    seg_has_param = False
    while i < n:
        c, esc = L[i]
        if c == "}" and not esc:
            return None
        if c == "{" and not esc:
            j = i + 1
            while j < n and not (L[j][0] == "}" and not L[j][1]):
                j += 1
            if j >= n:
                return None
            name = "".join(ch for ch, _ in L[i + 1:j])
            star = name.startswith("*")
            if star:
                name = name[1:]
            if not name or any(ch in name for ch in "*/") or any(ch == "{" and not e for ch, e in L[i + 1:j]):
                return None
            if seg_has_param:
                return None
            seg_has_param = True
            if star:
                if j + 1 != n:
                    return None
                toks.append(("star",))
                i = j + 1
            else:
                k, suf = j + 1, ""
                while k < n and L[k][0] != "/":
                    if L[k][0] in "{}" and not L[k][1]:
                        return None
                    suf += L[k][0]
                    k += 1
                toks.append(("par", suf))
                i = k
        else:
            if c == "/":
                seg_has_param = False
            toks.append(("c", c))
            i += 1
    return toks


def toks_regex(toks, prefix_only=False):
    out = ""
    for t in toks:
        if t[0] == "c":
            out += re.escape(t[1])
        elif t[0] == "par":
            out += "[^/]+" + re.escape(t[1])
        else:
            out += ".+"
    return re.compile(out + (".*" if prefix_only else ""), re.S)


def path_matches(toks, path):
    return toks is not None and toks_regex(toks).fullmatch(path) is not None


def rank(t):
    if t[0] == "c":
        return (3, 0)
    if t[0] == "par":
        return (2, len(t[1]))
    return (1, 0)


def cmp_spec(a, b):
    """1: a strictly more specific than b; -1: b more specific; 0: same pattern (up to parameter
    names); None: they cannot match the same path / are not comparable."""
    for x, y in zip(a, b):
        if x == y:
            continue
        if x[0] == "c" and y[0] == "c":
            return None
        rx, ry = rank(x), rank(y)
        if rx == ry:
            return None
        return 1 if rx > ry else -1
    if len(a) == len(b):
        return 0
    return None


def guard_regex(g):
    labs = g.rstrip(".").split(".") if g.endswith(".") and not g.endswith("..") else g.split(".")
    parts = []
    for lab in labs:
        if lab.startswith("{*"):
            parts.append(".+" + re.escape(lab[lab.index("}") + 1:]))
        elif lab.startswith("{"):
            parts.append("[^.]+" + re.escape(lab[lab.index("}") + 1:]))
        else:
            parts.append(re.escape(lab))
    return re.compile(r"\.".join(parts), re.S)


def host_name(host):
    """what the Host header names: no port, one trailing dot ignored"""
    if host is None or host == "":
        return None
    h = host.split(":")[0]
    if h.endswith("."):
        h = h[:-1]
    return h


def guard_matches(g, host):
    h = host_name(host)
    return h is not None and guard_regex(g).fullmatch(h) is not None


def guard_rank(g):
    out = []
    for lab in reversed(g.rstrip(".").split(".")):
        if lab.startswith("{*"):
            out.append((1, len(lab) - lab.index("}")))
        elif lab.startswith("{"):
            out.append((2, len(lab) - lab.index("}")))
        else:
            out.append((3, 0))
    return out


def admits(guard, method):
    if "some" in guard:
        return method in guard["some"]
    if guard["any"] == "all":
        return True
    return method in STD


def listed(guard):
    if "some" in guard:
        return list(guard["some"])
    return [] if guard["any"] == "all" else list(STD)


class App:
    """The blueprint tree of spec["rt"], flattened (independently of the model)."""

    def __init__(self, rt):
        self.hs = {h["i"]: h for h in rt["handlers"]}
        self.routes, self.bps = [], []
        self._walk(rt["ops"], "", None, None)
        for r in self.routes:
            r["toks"] = parse_pattern(r["path"])
        self.domain_based = any(r["domain"] for r in self.routes)

    def _walk(self, ops, prefix, domain, parent):
        me = {"prefix": prefix, "domain": domain, "fallback": None, "has_fallback": False, "parent": parent,
              "depth": 0 if parent is None else parent["depth"] + 1, "idx": len(self.bps)}
        self.bps.append(me)
        for op in ops:
            if op[0] == "route":
                h = self.hs[op[1]]
                self.routes.append({"i": h["i"], "guard": h["guard"], "path": prefix + h["path"], "domain": domain, "bp": me})
            elif op[0] == "fallback":
                me["fallback"], me["has_fallback"] = op[1], True
            elif op[0] == "nest":
                nb = op[1]
                d = nb.get("domain")
                self._walk(nb["ops"], prefix + (nb.get("prefix") or ""), d.rstrip(".") if d else domain, me)

    def enclosing_fallback(self, bp):
        """fallback of the nearest enclosing blueprint that registered one; None = framework default"""
        while bp is not None:
            if bp["has_fallback"]:
                return bp["fallback"]
            bp = bp["parent"]
        return None

    @staticmethod
    def lca(bps):
        def chain(b):
            out = []
            while b is not None:
                out.append(b)
                b = b["parent"]
            return out[::-1]
        chains = [chain(b) for b in bps]
        out = None
        for level in zip(*chains):
            if all(x is level[0] for x in level):
                out = level[0]
            else:
                break
        return out

    def domain_of(self, host):
        """The domain guards (among those that guard a route or a fallback) the Host fits, most specific
        first; [] if none."""
        guards = sorted({r["domain"] for r in self.routes if r["domain"]} |
                        {b["domain"] for b in self.bps if b["domain"] and b["has_fallback"]})
        fit = [g for g in guards if guard_matches(g, host)]
        fit.sort(key=guard_rank, reverse=True)
        return fit

    def expect(self, req):
        """What the property demands for one request. Returns a dict:
        kind: "handler" (i) | "overlap" (candidates, best) | "fallback" (acceptable set, allowed set or None)."""
        method, path, host = req["method"], req["path"], req.get("host")
        dom = None
        if self.domain_based:
            fit = self.domain_of(host)
            if not fit:
                return {"kind": "fallback", "why": "no-domain", "fbs": [self.enclosing_fallback(self.bps[0])], "allowed": set()}
            dom = fit[0]
            if len(fit) > 1 and guard_rank(fit[0]) == guard_rank(fit[1]):
                return {"kind": "undecided", "why": "two domain guards of equal specificity fit"}
        scope = [r for r in self.routes if r["domain"] == dom]
        cands = [r for r in scope if path_matches(r["toks"], path)]
        ok = [r for r in cands if admits(r["guard"], method)]
        if len(ok) == 1 and len({tuple(r["toks"]) for r in cands}) == 1:
            return {"kind": "handler", "i": ok[0]["i"]}
        if cands:
            # several path patterns match (or several handlers): the most specific pattern decides
            pats = []
            for r in cands:
                if tuple(r["toks"]) not in pats:
                    pats.append(tuple(r["toks"]))
            best, strict = pats[0], True
            for q in pats[1:]:
                c = cmp_spec(list(q), list(best))
                if c == 1:
                    best = q
                elif c != -1:
                    strict = False
            for q in pats:
                if q != best and cmp_spec(list(best), list(q)) != 1:
                    strict = False
            group = [r for r in cands if tuple(r["toks"]) == best]
            gok = [r for r in group if admits(r["guard"], method)]
            overlap = len(pats) > 1
            if len(gok) > 1 or (overlap and not strict):
                return {"kind": "ambiguous", "why": "routes of equal specificity match the same request",
                        "cands": [r["i"] for r in (gok if len(gok) > 1 else cands)]}
            if gok:
                return {"kind": "handler", "i": gok[0]["i"], "overlap": overlap, "all_matching": [r["i"] for r in ok]}
            fbs = {self.enclosing_fallback(r["bp"]) for r in group}
            allowed = set()
            for r in group:
                allowed |= set(listed(r["guard"]))
            return {"kind": "fallback", "why": "method", "fbs": sorted(fbs, key=str), "allowed": allowed, "overlap": overlap,
                    "shadowed": [r["i"] for r in ok]}
        # nothing matches: innermost blueprint whose prefix (and domain) covers the request
        best, bestlen = [], -1
        for b in self.bps:
            if not b["has_fallback"] or not b["prefix"] or b["domain"] != dom:
                continue
            pt = parse_pattern(b["prefix"])
            if pt is None:
                continue
            m = toks_regex(pt, prefix_only=True).fullmatch(path)
            if m is None:
                continue
            ln = len(pt)
            if ln > bestlen:
                best, bestlen = [b], ln
            elif ln == bestlen:
                best.append(b)
        if best:
            exact = any(path_matches(parse_pattern(b["prefix"]), path) for b in best)
            return {"kind": "fallback", "why": "prefix", "fbs": sorted({b["fallback"] for b in best}, key=str), "allowed": set(),
                    "exact_prefix": exact, "bps": [b["idx"] for b in best]}
        if dom is not None:
            comps = [r["bp"] for r in scope] + [b for b in self.bps if b["domain"] == dom and b["has_fallback"]]
            anchor = self.lca(comps) if comps else self.bps[0]
            return {"kind": "fallback", "why": "domain-root", "fbs": [self.enclosing_fallback(anchor)], "allowed": set()}
        return {"kind": "fallback", "why": "root", "fbs": [self.enclosing_fallback(self.bps[0])], "allowed": set()}


# =================================================================================================
# (a) in-process: matchit + runtime/pavex/src/router
# =================================================================================================

LIT = "ab"
MALFORMED = ["{", "}", "{}", "{*}", "{x}{y}", "a{x}b{y}", "{*x}a", "{{", "}}", "{{x}}", "{x}}}", "{xy}}}a", "{a/b}",
             "{*a*}", "{x*}", "{/}", "{ab}", "{{{x}", "{x}}", "a}{"]


def _lit(rng, lo=0, hi=3):
    return "".join(rng.choice(LIT) for _ in range(rng.randrange(lo, hi)))


def _seg(rng, mal, last):
    r = rng.random()
    if mal and r < 0.12:
        return rng.choice(MALFORMED)
    if r < 0.4:
        return _lit(rng, 1, 3)
    if r < 0.9 or not (last or mal):
        return _lit(rng) + "{" + rng.choice(["x", "y", "id"]) + "}" + _lit(rng)
    return _lit(rng) + "{*" + rng.choice("xy") + "}"


def _route(rng, mal):
    n = rng.randrange(1, 4)
    s = "".join("/" + _seg(rng, mal, i == n - 1) for i in range(n))
    r = rng.random()
    if r < 0.12:
        s += "/"
    if mal and r > 0.97:
        s = s[1:]
    if mal and 0.95 < r <= 0.97:
        s = ""
    return s


def _inst(rng, r):
    out, i = "", 0
    while i < len(r):
        c = r[i]
        if c == "{" and i + 1 < len(r) and r[i + 1] == "{":
            out += "{"
            i += 2
            continue
        if c == "}" and i + 1 < len(r) and r[i + 1] == "}":
            out += "}"
            i += 2
            continue
        if c == "{":
            j = r.find("}", i)
            if j < 0:
                out += c
                i += 1
                continue
            name = r[i + 1:j]
            out += rng.choice(["a", "ab/b", "a/", "/"]) if name.startswith("*") else rng.choice(["a", "b", "ab", "ba", "aab", "z"])
            i = j + 1
            continue
        out += c
        i += 1
    return out


def _mutate_path(rng, p):
    r = rng.random()
    if not p:
        return "/"
    if r < 0.25:
        return p + "/"
    if r < 0.4:
        return p[:-1]
    if r < 0.6:
        i = rng.randrange(len(p))
        return p[:i] + rng.choice("ab/") + p[i:]
    if r < 0.8:
        i = rng.randrange(len(p))
        return p[:i] + p[i + 1:]
    return p + rng.choice("ab")


def gen(rng):
    if rng.random() < 0.04:
        k = rng.randrange(0, 5)
        return {"op": "allow", "methods": [rng.choice(STD + ["PURGE", "LOCK"]) for _ in range(k)]}
    mal = rng.random() < 0.2
    many = rng.random() < 0.01
    k = rng.randrange(1, 7)
    rs = [_route(rng, mal) for _ in range(k)]
    if many:
        rs.append("".join("/{p%d}" % i for i in range(rng.choice([25, 26, 27]))))
    if rng.random() < 0.2 and rs:
        rs.append(rng.choice(rs))
    ps = []
    for r in rs[:6]:
        p = _inst(rng, r)
        ps.append(p)
        ps.append(_mutate_path(rng, p))
        if rng.random() < 0.5:
            ps.append(_inst(rng, r))
    return {"op": "mi", "routes": rs, "paths": ps, "tolerate": rng.random() < 0.5}


def oracle_inproc(case, out):
    if case["op"] == "allow":
        ms = case["methods"]
        if out.get("r") != "allow":
            return "unexpected answer %r" % (out,)
        if ms:
            got = (out.get("allow") or "").split(",")
            if out.get("status") != 405 or set(got) != set(ms):
                return "default fallback with allowed methods %s answered %s / Allow: %s" % (ms, out.get("status"), out.get("allow"))
        elif out.get("status") != 404 or out.get("allow") is not None:
            return "default fallback without allowed methods answered %s / Allow: %s" % (out.get("status"), out.get("allow"))
        return None
    if out.get("r") != "mi":
        return "unexpected answer %r" % (out,)
    ins = out.get("ins", [])
    toks = [parse_pattern(p) for p in case["routes"]]
    for i, v in enumerate(ins):
        # (matchit does not look at the first character of a parameter name: `{/}` and `{/a{x}` are
        # parameters for it; the documentation is silent about names, so those are not judged)
        if v == "ok" and toks[i] is None and "{/" not in case["routes"][i]:
            return "malformed: pattern %r breaks the documented syntax but insert accepted it" % case["routes"][i]
    if out.get("at") is None:
        return None
    # every insert succeeded (or was a tolerated duplicate): `at` must return a matching route, the most
    # specific one, and must find one whenever a route matches
    live = [i for i, v in enumerate(ins) if v == "ok" and toks[i] is not None]
    if any(v == "ok" and toks[i] is None for i, v in enumerate(ins)):
        return None
    for p, got in zip(case["paths"], out["at"]):
        m = [i for i in live if path_matches(toks[i], p)]
        if got is None:
            if m:
                return "miss: at(%r) found nothing although route(s) %s match" % (p, [case["routes"][i] for i in m])
            continue
        if got not in m:
            return "wrong: at(%r) = route %r, which does not match it" % (p, case["routes"][got] if got < len(case["routes"]) else got)
        for i in m:
            if i != got and cmp_spec(toks[i], toks[got]) in (1, 0):
                return "order: at(%r) = %r although %r matches and is at least as specific" % (p, case["routes"][got], case["routes"][i])
    return None


def suffix_commit_witness(routes, path):
    """Precondition of matchit's committed suffix choice: two inserted routes share everything up to a
    `{param}`, their parameter suffixes are nested (one is a proper suffix of the other) and both fit
    the same segment of the path."""
    toks = [t for t in (parse_pattern(r) for r in routes) if t is not None]
    for a in toks:
        for b in toks:
            for k, (x, y) in enumerate(zip(a, b)):
                if x == y:
                    continue
                if x[0] == "par" and y[0] == "par" and len(x[1]) < len(y[1]) and y[1].endswith(x[1]) and a[:k] == b[:k]:
                    # the segment of `path` at that position
                    pre = toks_regex(a[:k]).match(path)
                    # cheap approximation: some segment of the path ends with the longer suffix (+ more text before it)
                    if any(seg.endswith(y[1]) and len(seg) > len(y[1]) for seg in path.split("/")):
                        return True
                break
    return False


def match_known_inproc(R):
    kf = {f["id"]: f for f in R.known_findings()}

    def mk(case, why):
        if case.get("op") != "mi":
            return None
        if why.startswith("miss: ") or why.startswith("order: "):
            m = re.search(r"at\('((?:[^'\\]|\\.)*)'\)", why)
            path = m.group(1) if m else None
            if path is not None and suffix_commit_witness(case["routes"], path):
                return kf.get("C07-matchit-suffix-commit")
        return None
    return mk


def nontrivial_inproc(case, out):
    if case["op"] != "mi" or out.get("at") is None:
        return False
    ok = [i for i, v in enumerate(out.get("ins", [])) if v == "ok"]
    if len(ok) < 2:
        return False
    return any(g is not None and ("{" in case["routes"][g]) for g in out["at"])


# =================================================================================================
# (b) end to end
# =================================================================================================

INSERT_RE = re.compile(r'router\.insert\("((?:[^"\\]|\\.)*)",\s*(\d+)u32\)\.unwrap\(\)')
FN_RE = re.compile(r"fn (router|domain_router|domain_(\d+)_router)\(\) -> matchit::Router<u32>")


def static_table(lib_rs):
    """The insert sequences of the generated `router()` functions."""
    out = {}
    pos = [(m.start(), m.group(1)) for m in FN_RE.finditer(lib_rs)]
    for k, (start, name) in enumerate(pos):
        end = pos[k + 1][0] if k + 1 < len(pos) else lib_rs.find("pub async fn route", start)
        body = lib_rs[start:end if end > 0 else len(lib_rs)]
        out[name] = [json.loads('"%s"' % m.group(1)) for m in INSERT_RE.finditer(body)]
    return out


def model_static(table):
    if table["kind"] == "agnostic":
        return {"router": [r["path"] for r in table["router"]["routes"]]}
    out = {"domain_router": [d["pattern"] for d in table["domains"]]}
    for i, d in enumerate(table["domains"]):
        out["domain_%d_router" % i] = [r["path"] for r in d["router"]["routes"]]
    return out


def observed(resp, m):
    """(kind, id, allowed) from the application trace and the response"""
    for l in resp.get("trace", []):
        parts = l.split()
        if len(parts) >= 2 and parts[0] == "handler" and parts[1].startswith(m + ".h"):
            return {"kind": "handler", "i": int(parts[1][len(m) + 2:])}
        if len(parts) >= 2 and parts[0] == "fallback" and parts[1].startswith(m + ".fb"):
            allowed = l.split(" : ", 1)[1] if " : " in l else ""
            return {"kind": "fallback", "f": int(parts[1][len(m) + 3:]), "allowed": [x for x in allowed.split(",") if x],
                    "status": resp.get("status")}
    allow = (resp.get("headers") or {}).get("allow")
    return {"kind": "fallback", "f": None, "status": resp.get("status"),
            "allowed": [x.strip() for x in allow.split(",")] if allow else []}


def predicted(out):
    if "handler" in out:
        return {"kind": "handler", "i": out["handler"]}
    return {"kind": "fallback", "f": out["fallback"], "allowed": out["allowed"],
            "status": out["default_status"] if out["fallback"] is None else 460 + out["fallback"]}


def same_outcome(a, b):
    if a["kind"] != b["kind"]:
        return False
    if a["kind"] == "handler":
        return a["i"] == b["i"]
    return a["f"] == b["f"] and sorted(a["allowed"]) == sorted(b["allowed"]) and a.get("status") == b.get("status")


def judge(app, req, obs):
    """The property on one observed answer. None = fine; otherwise (message, class)."""
    e = app.expect(req)
    if e["kind"] in ("undecided",):
        return None
    if e["kind"] == "ambiguous":
        return ("routes of equal specificity were accepted and match the same request %s %s [%s]: %s" % (
            req["method"], req["path"], req.get("host"), e["cands"]), "ambiguous")
    if e["kind"] == "handler":
        if obs["kind"] == "handler" and obs["i"] == e["i"]:
            if e.get("overlap"):
                return ("overlap: several registered routes match %s %s; dispatched to the most specific one (h%d)" % (
                    req["method"], req["path"], e["i"]), "overlap")
            return None
        return ("request %s %s [%s] must run handler h%d (the %sroute whose guards match), observed %s" % (
            req["method"], req["path"], req.get("host"), e["i"], "most specific " if e.get("overlap") else "only ", obs), "handler")
    # a fallback is due
    if obs["kind"] == "handler":
        return ("request %s %s [%s] matches no route (%s), yet handler h%d ran" % (req["method"], req["path"], req.get("host"), e["why"], obs["i"]), "spurious")
    if obs["f"] not in e["fbs"]:
        return ("request %s %s [%s]: applicable fallback is %s (%s), observed %s" % (
            req["method"], req["path"], req.get("host"), e["fbs"], e["why"], obs), "fallback:" + e["why"])
    if set(obs["allowed"]) != e["allowed"] or len(obs["allowed"]) != len(set(obs["allowed"])):
        return ("request %s %s [%s]: the fallback must see exactly the methods %s registered for that path, saw %s" % (
            req["method"], req["path"], req.get("host"), sorted(e["allowed"]), obs["allowed"]), "allowed")
    if obs["f"] is None:
        want = 405 if e["allowed"] else 404
        if obs.get("status") != want:
            return ("request %s %s [%s]: default fallback must answer %d, answered %s" % (req["method"], req["path"], req.get("host"), want, obs.get("status")), "status")
    if e.get("overlap") and e.get("shadowed"):
        return ("overlap: route(s) %s also match %s %s but a more specific path without that method decides" % (e["shadowed"], req["method"], req["path"]), "overlap")
    return None


def classify_known(R, app, spec, req, obs, msg, klass):
    """known_findings.json predicates for the end-to-end layer"""
    kf = {f["id"]: f for f in R.known_findings()}
    if klass == "overlap":
        return kf.get("C07-specificity-overlap")
    e = app.expect(req)
    path = req["path"]
    # the registered routes whose path pattern matches the request path (same domain)
    dom = None
    if app.domain_based:
        fit = app.domain_of(req.get("host"))
        dom = fit[0] if fit else None
    matching = [r for r in app.routes if r["domain"] == dom and path_matches(r["toks"], path)]
    if matching and klass in ("handler", "fallback:method", "allowed", "status"):
        # (i) matchit's committed suffix choice: a route matches, yet a less specific route or a fallback
        #     that was told "nothing matched" answered
        if suffix_commit_witness([r["path"] for r in app.routes if r["domain"] == dom], path):
            return kf.get("C07-matchit-suffix-commit")
    if matching and obs["kind"] == "fallback" and klass in ("handler", "fallback:method", "allowed"):
        # (ii) the catch-all of a prefix-based fallback is more specific than every matching route
        for b in app.bps:
            if b["has_fallback"] and b["prefix"] and b["fallback"] == obs["f"] and b["domain"] == dom and not obs["allowed"]:
                pt = parse_pattern(b["prefix"])
                if pt is None or not toks_regex(pt, prefix_only=True).fullmatch(path) or path_matches(pt, path):
                    continue
                if all(not _under(r["bp"], b) for r in matching) and \
                        all(cmp_spec(pt + [("star",)], r["toks"]) == 1 for r in matching):
                    return kf.get("C07-fallback-shadows-route")
    if klass == "fallback:prefix" and e.get("exact_prefix"):
        # the request path IS the prefix: `<prefix>{*catch_all}` needs at least one more character
        return kf.get("C07-prefix-exact-path")
    if klass == "fallback:prefix" and obs["kind"] == "fallback":
        # the prefix ends with a `{param}`: its catch-all conflicts with the blueprint's own routes and is dropped
        ends = [app.bps[i]["prefix"] for i in e.get("bps", [])]
        if ends and all((parse_pattern(p) or [("c", "x")])[-1] == ("par", "") for p in ends):
            return kf.get("C07-param-prefix-fallback-dropped")
    return None


def _under(bp, anc):
    while bp is not None:
        if bp is anc:
            return True
        bp = bp["parent"]
    return False


def e2e(R, lean_ok):
    import e2e_stage
    obs, info, rt = e2e_stage.get_runtime(R)
    R.coverage["e2e_stage"] = {k: v for k, v in info.items() if k != "batches"}
    progs = [o for o in obs.values() if o["klass"] == "routes"]
    lines = []
    scripts = {}
    for o in progs:
        spec = o["spec"]
        reqs = rt.get(o["name"], {}).get("requests") or []
        scripts[o["name"]] = reqs
        lines.append(json.dumps({"op": "bp", "handlers": spec["rt"]["handlers"], "ops": spec["rt"]["ops"],
                                 "reqs": [{"method": q["method"], "path": q["path"], "host": q["host"]} for q in reqs]}))
    mout = [json.loads(x) for x in pxvlib.run_model("router", lines)] if lines else []
    dis, fails, seen = [], [], set()
    hist = {"accepted": 0, "rejected": 0, "panic": 0, "servers": 0, "requests": 0}
    tags = {}
    for o, mo in zip(progs, mout):
        name, spec = o["name"], o["spec"]
        if o["rc"] != 0 and "Failed to invoke `cargo metadata`" in o["out"]:
            # not a verdict on the blueprint (cargo metadata failed under load): run the compiler once more
            r2 = e2e_stage.workspace_of(o, info).pavexc(name, dump=False)
            hist["retried"] = hist.get("retried", 0) + 1
            o = dict(o, rc=r2["rc"], out=r2["out"], panicked=r2["panicked"])
            if r2["rc"] == 0:
                o["lib_rs"] = e2e_stage.workspace_of(o, info).lib_rs(name)
            if "Failed to invoke `cargo metadata`" in o["out"]:
                continue
        real = "panic" if (o["panicked"] or o["rc"] in (101, 134, -6, -11)) else ("ok" if o["rc"] == 0 else "reject")
        hist["accepted" if real == "ok" else ("panic" if real == "panic" else "rejected")] += 1
        mv = mo.get("verdict", "?")
        mclass = "ok" if mv == "ok" else ("panic" if mv == "panic" else "reject")
        if real != mclass:
            dis.append({"program": name, "what": "verdict", "pavexc": real, "model": mv, "rt": spec["rt"],
                        "pavexc_output": [l for l in o["out"].split("\n") if "×" in l or "panicked" in l][:4]})
            if real == "panic":
                fails.append(({"program": name, "rt": spec["rt"], "pavexc_output_tail": o["out"][-1500:], "app_module_source": o["src"]},
                              "compiler panic on a route table: " + " / ".join(l.strip() for l in o["out"].split("\n") if "panicked" in l or "unreachable" in l)[:200], "panic"))
            if real != "ok":
                continue
        if real != "ok":
            continue
        hist["no_nested_suffix"] = hist.get("no_nested_suffix", 0) + (1 if mo.get("nns") else 0)
        st = static_table(o["lib_rs"])
        if mclass == "ok" and st != model_static(mo["table"]):
            dis.append({"program": name, "what": "generated insert sequence", "lib_rs": st, "model": model_static(mo["table"]), "rt": spec["rt"]})
        d = rt.get(name)
        if not d or not d.get("result"):
            continue
        res = d["result"]
        if "start_panic" in res:
            fails.append(({"program": name, "rt": spec["rt"], "start_panic": res["start_panic"], "generated_inserts": st, "app_module_source": o["src"]},
                          "accepted blueprint, but the generated server panics at start-up: %s" % res["start_panic"][:200], "start-panic"))
            continue
        if "responses" not in res:
            continue
        hist["servers"] += 1
        app = App(spec["rt"])
        outs = mo.get("out") or [None] * len(d["requests"])
        for req, resp, out in zip(d["requests"], res["responses"], outs):
            hist["requests"] += 1
            tags[req.get("tag", "?")] = tags.get(req.get("tag", "?"), 0) + 1
            ob = observed(resp, name)
            pr = predicted(out) if out is not None else ob
            if not same_outcome(ob, pr):
                dis.append({"program": name, "what": "dispatch", "request": req, "observed": ob, "model": pr, "rt": spec["rt"]})
            j = judge(app, req, ob)
            if ob["kind"] == "handler" or ob["f"] is not None or ob["allowed"]:
                seen.add((name, req["method"], req["path"], req.get("host")))
            if j:
                fails.append(({"program": name, "request": req, "observed": ob, "expected": _plain(app.expect(req)), "rt": spec["rt"],
                               "app_module_source": o["src"]}, j[0], j[1], (app, spec, req, ob)))
    return progs, dis, fails, seen, hist, tags


def replay_e2e(R, rp):
    """Re-runs one application of a replay file end to end: its own scratch workspace, the real pavexc,
    the generated server, the recorded request (plus the generic script)."""
    import os
    import e2e
    import gen_app
    import gen_routes
    e2e.ensure_toolchain(R)
    ok, out = e2e.build_pavexc(R)
    if not ok:
        R.violation("pavexc does not build (broken tie)", {"tail": out[-1500:]}, no_failing_input=True)
        return
    name = "z0"
    spec = gen_routes.from_corpus({"id": "replay", "handlers": rp["rt"]["handlers"], "ops": rp["rt"]["ops"],
                                   "reqs": [[rp["request"]["method"], rp["request"]["path"], rp["request"].get("host", "localhost")]] if rp.get("request") else []}, name)
    root = pxvlib.scratch_dir("c07-replay")
    ws = e2e.Workspace(root, {name: gen_app.render(spec)})
    ws.write()
    rc, out = ws.emit_blueprints()
    if rc != 0:
        R.violation("replay application does not compile", {"tail": out[-1500:]}, no_failing_input=True)
        return
    r = ws.pavexc(name, dump=False)
    reqs = gen_routes.request_script(spec)
    mo = json.loads(pxvlib.run_model("router", [json.dumps({"op": "bp", "handlers": spec["rt"]["handlers"], "ops": spec["rt"]["ops"],
                                                            "reqs": [{"method": q["method"], "path": q["path"], "host": q["host"]} for q in reqs]})])[0])
    real = "panic" if r["panicked"] else ("ok" if r["rc"] == 0 else "reject")
    R.log("replay: pavexc %s, model %s" % (real, mo.get("verdict")))
    fails = []
    if real == "panic":
        fails.append(("compiler panic on a route table", "panic", None))
    elif real == "ok":
        cc = ws.cargo_check([name])
        if cc[name][0]:
            e2e.write_runner(ws, [name])
            res = e2e.run_servers(ws, {name: reqs})[name]
            if "start_panic" in res:
                fails.append(("accepted blueprint, but the generated server panics at start-up: %s" % res["start_panic"][:200], "start-panic", None))
            else:
                app = App(spec["rt"])
                for req, resp in zip(reqs, res.get("responses", [])):
                    ob = observed(resp, name)
                    j = judge(app, req, ob)
                    if j:
                        fails.append((j[0], j[1], (app, spec, req, ob)))
    unknown = 0
    for msg, klass, ctx in fails:
        known = classify_known(R, *ctx, msg, klass) if ctx else None
        if known is not None:
            R.known_hit(known)
        else:
            unknown += 1
            if unknown <= 3:
                R.violation("implementation breaks the property: " + msg, {"rt": spec["rt"], "request": ctx[2] if ctx else None})
    R.coverage["evaluations"] = len(reqs) + 1
    R.coverage["distinct_nontrivial"] = len(reqs)
    R.coverage["rule"] = "replay of one application end to end"
    import shutil
    shutil.rmtree(root, ignore_errors=True)


def _plain(e):
    return {k: (sorted(v) if isinstance(v, set) else v) for k, v in e.items()}


def run(R):
    R.assumptions += [
        "routes and request paths are ASCII; request targets are paths without query; Host is a registered name with an optional port",
        "matchit 0.9.2 is modelled (insert: structural port of tree.rs; at: search over the route set), validated by the in-process run, not verified",
        "requests are sent one at a time over HTTP/1.1 by a raw TCP client",
        "toolchain shim: installed nightly (rustdoc JSON format 57) instead of pavexc's pinned nightly",
    ]
    R.coverage["trusted_base"] += [
        "application generator tools/gen_routes.py + gen_app.py (handlers and custom fallbacks log their identity) and the runner of tools/e2e.py",
        "hyper/http parsing of the request line and Host header",
    ]
    # the harness must link the matchit that pavex resolves
    lock = pxvlib.src_text("Cargo.lock")
    m = re.search(r'name = "pavex"\nversion[^\n]*\n(?:[^\n]*\n)*?dependencies = \[(.*?)\]', lock, re.S)
    want = re.search(r'"matchit ([0-9.]+)"', m.group(1)).group(1) if m and re.search(r'"matchit ([0-9.]+)"', m.group(1)) else None
    hlock = open(pxvlib.HARNESS + "/Cargo.lock").read() if __import__("os").path.exists(pxvlib.HARNESS + "/Cargo.lock") else ""
    have = re.findall(r'name = "matchit"\nversion = "([0-9.]+)"', hlock)
    if want and have and want not in have:
        R.violation("harness links matchit %s but /repo's Cargo.lock resolves pavex's matchit to %s (broken tie)" % (have, want),
                    {"harness": have, "repo": want}, no_failing_input=True)
        return
    R.coverage["matchit_version"] = want
    # source shape: the method list of `detect_method_conflicts` and the one the generated `match` uses
    # must be the same nine methods the model calls `wellKnown` (the `Allow` theorem needs them equal)
    m1 = re.search(r"static METHODS: \[&str; \d+\] = \[(.*?)\];", pxvlib.src_text("compiler/pavexc/src/compiler/analyses/user_components/router.rs"), re.S)
    m2 = re.search(r"static WELL_KNOWN_METHODS:.*?HashSet::from_iter\(\[(.*?)\]\)", pxvlib.src_text("compiler/pavexc/src/compiler/codegen/router.rs"), re.S)
    l1 = re.findall(r'"([A-Z]+)"', m1.group(1)) if m1 else None
    l2 = re.findall(r'"([A-Z]+)"', m2.group(1)) if m2 else None
    m3 = re.search(r"def wellKnown : List String := \[(.*?)\]", open(pxvlib.LEAN + "/Pxv/Model/Router.lean").read(), re.S)
    l3 = re.findall(r'"([A-Z]+)"', m3.group(1)) if m3 else None
    R.coverage["source_shape"] = {"METHODS": l1, "WELL_KNOWN_METHODS": l2, "model_wellKnown": l3}
    if l1 is None or l2 is None or l1 != STD or set(l2) != set(STD) or l3 != STD:
        R.violation("source shape: METHODS (router.rs) = %s, WELL_KNOWN_METHODS (codegen/router.rs) = %s, model wellKnown = %s (broken tie)" % (l1, l2, STD),
                    {"METHODS": l1, "WELL_KNOWN_METHODS": l2, "model": STD}, no_failing_input=True)
        return
    if R.replay:
        rp = json.load(open(R.replay))["replay"]
        if "rt" in rp:
            lean_ok, lrep = pxvlib.lean_obligations(R, ["Pxv.Thm.C07"])
            replay_e2e(R, rp)
            if not lean_ok:
                R.violation("proof obligations of Pxv.Thm.C07 no longer check", {"lean": lrep.get("errors")}, no_failing_input=True)
            return
        if "case" not in rp and "cases" not in rp:
            R.violation("replay file names no input (broken correspondence recorded earlier): re-run the full check",
                        {"replay_of": R.replay}, no_failing_input=True)
            return
    pxvlib.differential(
        R, modules=["Pxv.Thm.C07"], model="router", pkg="c07", gen=gen, oracle=oracle_inproc,
        nontrivial=nontrivial_inproc, match_known=match_known_inproc(R),
        n_quick=12000, n_thorough=250000,
        rule="", mutate=None)
    inproc = {k: R.coverage.get(k) for k in ("evaluations", "distinct_nontrivial", "outcome_histogram", "input_stats",
                                             "model_vs_impl_disagreements", "impl_vs_oracle_failures", "samples")}
    R.coverage["in_process"] = inproc
    lean_ok = R.coverage.get("discharged", 0) > 0
    if R.replay:
        return
    progs, dis, fails, seen, hist, tags = e2e(R, lean_ok)
    R.coverage["programs"] = len(progs)
    R.coverage["e2e"] = dict(hist, request_tags=tags)
    R.coverage["evaluations"] = (inproc["evaluations"] or 0) + hist["requests"] + len(progs)
    R.coverage["distinct_nontrivial"] = (inproc["distinct_nontrivial"] or 0) + len(seen)
    R.coverage["rule"] = (
        "in-process: one evaluation = one table (1-7 patterns over {a,b}, static / prefix{p}suffix / {*p} segments, duplicates, 20% malformed, "
        "26+ parameters) inserted in order into the real matchit router and 2-3 paths per pattern (instantiations + near misses) looked up, "
        "or one MethodAllowList through default_fallback; non-trivial = >= 2 routes accepted and a lookup resolving to a parametric route. "
        "end to end: one evaluation = one generated application through pavexc (verdict + generated insert sequence) or one request to its server "
        "(every route x {registered methods, another well-known method, a custom method}, near-miss paths, bare prefixes, unknown paths inside/outside "
        "prefixes, other hosts); non-trivial = a request that reached a handler, a custom fallback or a 405; distinct by (program, method, path, host)")
    R.coverage["model_vs_impl_disagreements"] = (inproc["model_vs_impl_disagreements"] or 0) + len(dis)
    R.coverage["impl_vs_oracle_failures"] = (inproc["impl_vs_oracle_failures"] or 0) + len(fails)
    R.log("e2e: programs=%d %s disagreements=%d oracle_failures=%d" % (len(progs), hist, len(dis), len(fails)))
    reported, unknown = 0, False
    classes = {}
    for f in fails:
        payload, msg, klass = f[0], f[1], f[2]
        known = classify_known(R, *f[3], msg, klass) if len(f) > 3 else None
        if known is None and klass == "panic":
            tail = (payload.get("pavexc_output_tail") or "") if isinstance(payload, dict) else ""
            if "on an `Err` value: Conflict { with:" in tail and "analyses/user_components/router.rs" in tail:
                known = next((x for x in R.known_findings() if x["id"] == "C07-router-template-lookup-panic"), None)
        classes[klass + (":known" if known else "")] = classes.get(klass + (":known" if known else ""), 0) + 1
        if known is not None:
            R.known_hit(known)
            continue
        unknown = True
        if reported < 3:
            R.violation("implementation breaks the property: " + msg, payload)
            reported += 1
    R.coverage["e2e"]["oracle_classes"] = classes
    if R.tier == "thorough" and not pxvlib.leanchecker(R, ["Pxv.Thm.C07"]):
        R.violation("leanchecker rejects Pxv.Thm.C07", {"theorem_modules": ["Pxv.Thm.C07"]}, no_failing_input=True)
    if dis and not unknown:
        d0 = dis[0]
        R.violation("correspondence `router` (end to end): %d disagreement(s) between pavexc / the generated server and the model, first: %s" % (
            len(dis), json.dumps(d0, default=str)[:600]), {"broken": "e2e correspondence", "cases": dis[:5]}, no_failing_input=True)
