"""C19 rustdoc stage (thorough tier, or PXV_C19_RUSTDOC=1): the REAL `pavex` attribute macros.

A crate of items annotated with every legal combination of macro arguments is generated, documented with
`cargo +nightly rustdoc … --output-format json` (offline; the installed nightly emits rustdoc JSON format 57, the one pavexc
reads), and for every item the attribute strings found in the JSON are
  (a) fed to the real `pavexc_attr_parser::parse` (harness c19) and compared with what the macro arguments mean
      (Python `meaning`, and the Lean model's `meaning`), and
  (b) lexed and compared, token by token, with the Lean model's `emitAttr` for the same arguments.
A second crate checks that `#[route]` without `method`/`allow(any_method)` does not compile any more.
"""
import itertools
import json
import os
import shutil
import time

import pxvlib
from checks import c19_attrs as A

STAGE = os.path.join(pxvlib.HARNESS, "target", "c19-rustdoc")


def items():
    """(rust source of the annotated item, item name in rustdoc, expected spec)"""
    out = []
    n = [0]

    def name(prefix):
        n[0] += 1
        return "%s_%d" % (prefix, n[0])

    def allow_args(flags):
        return None if flags is None else "allow(%s)" % ", ".join(flags)

    # constructors
    for lc, cl, allow, custom in itertools.product(
            ["singleton", "request_scoped", "transient"], [None, "clone_if_necessary", "never_clone"],
            [None, [], ["unused"], ["error_fallback"], ["unused", "error_fallback"]], [False, True]):
        f = name("ctor")
        args = ([] if not custom else ['id = "%s"' % ("ID_" + f.upper())]) + ([cl] if cl else []) + ([allow_args(allow)] if allow is not None else [])
        src = "#[pavex::%s%s]\npub fn %s() -> u64 { 0 }\n" % (lc, "(%s)" % ", ".join(args) if args else "", f)
        spec = {"kind": "constructor", "id": ("ID_" + f.upper()) if custom else f.upper(), "lifecycle": lc, "cloning_policy": cl,
                "allow_unused": None if allow is None else ("unused" in allow),
                "allow_error_fallback": None if allow is None else ("error_fallback" in allow)}
        out.append((src, f, spec))
    # prebuilt
    for cl, allow, custom in itertools.product([None, "clone_if_necessary", "never_clone"], [None, [], ["unused"]], [False, True]):
        t = name("Pre")
        args = ([] if not custom else ['id = "%s"' % ("ID_" + t.upper())]) + ([cl] if cl else []) + ([allow_args(allow)] if allow is not None else [])
        src = "#[pavex::prebuilt%s]\npub struct %s;\n" % ("(%s)" % ", ".join(args) if args else "", t)
        spec = {"kind": "prebuilt", "id": ("ID_" + t.upper()) if custom else t.upper(), "cloning_policy": cl,
                "allow_unused": None if allow is None else ("unused" in allow)}
        out.append((src, t, spec))
    # config
    for cl, dim, iiu, custom in itertools.product([None, "clone_if_necessary", "never_clone"], [False, True], [False, True], [False, True]):
        t = name("Cfg")
        key = "key_%d" % n[0]
        args = ['key = "%s"' % key] + ([] if not custom else ['id = "%s"' % ("ID_" + t.upper())]) + ([cl] if cl else []) + \
               (["default_if_missing"] if dim else []) + (["include_if_unused"] if iiu else [])
        src = "#[pavex::config(%s)]\n#[derive(Clone, Default)]\npub struct %s;\n" % (", ".join(args), t)
        spec = {"kind": "config", "id": ("ID_" + t.upper()) if custom else t.upper(), "key": key, "cloning_policy": cl,
                "default_if_missing": dim, "include_if_unused": iiu}
        out.append((src, t, spec))
    # middlewares, fallback
    for mac, kind in [("wrap", "wrap"), ("pre_process", "pre_process"), ("post_process", "post_process"), ("fallback", "fallback")]:
        for allow, custom in itertools.product([None, [], ["error_fallback"]], [False, True]):
            f = name(kind)
            args = ([] if not custom else ['id = "%s"' % ("ID_" + f.upper())]) + ([allow_args(allow)] if allow is not None else [])
            src = "#[pavex::%s%s]\npub fn %s() -> u64 { 0 }\n" % (mac, "(%s)" % ", ".join(args) if args else "", f)
            spec = {"kind": kind, "id": ("ID_" + f.upper()) if custom else f.upper(),
                    "allow_error_fallback": None if allow is None else ("error_fallback" in allow)}
            out.append((src, f, spec))
    # error observer
    for custom in [False, True]:
        f = name("obs")
        src = "#[pavex::error_observer%s]\npub fn %s(_e: &u64) {}\n" % ('(id = "ID_%s")' % f.upper() if custom else "", f)
        out.append((src, f, {"kind": "error_observer", "id": ("ID_" + f.upper()) if custom else f.upper()}))
    # error handlers
    for default, custom, idx in itertools.product([None, True, False], [False, True], [0, 1, 2]):
        f = name("eh")
        args = ([] if not custom else ['id = "%s"' % ("ID_" + f.upper())]) + ([] if default is None else ["default = %s" % ("true" if default else "false")])
        params = ["_e: &u64"] if idx == 0 else ["_a%d: u8" % j for j in range(idx)] + ["#[px(error_ref)] _e: &u64"] + ["_z: u8"]
        src = "#[pavex::error_handler%s]\npub fn %s(%s) -> u64 { 0 }\n" % ("(%s)" % ", ".join(args) if args else "", f, ", ".join(params))
        out.append((src, f, {"kind": "error_handler", "id": ("ID_" + f.upper()) if custom else f.upper(), "error_ref_input_index": idx,
                             "default": default}))
    # routes
    for (method, ns), any_, ef, custom in itertools.product(
            [("GET", False), (["GET"], False), (["POST", "GET", "POST"], False), ("QUERY", True), (["GET", "QUERY"], True), (None, False), (None, True)],
            [None], [None, False, True], [False, True]):
        any_ = method is None
        f = name("route")
        flags = (["non_standard_methods"] if ns else []) + (["any_method"] if any_ else []) + (["error_fallback"] if ef else [])
        allow = None if (ef is None and not ns and not any_) else flags
        path = "/r/%d/{id}" % n[0]
        args = ['path = "%s"' % path] + ([] if method is None else ["method = %s" % A.lit(method)]) + \
               ([] if not custom else ['id = "%s"' % ("ID_" + f.upper())]) + ([allow_args(allow)] if allow is not None else [])
        src = "#[pavex::route(%s)]\npub fn %s() -> u64 { 0 }\n" % (", ".join(args), f)
        spec = {"kind": "route", "id": ("ID_" + f.upper()) if custom else f.upper(), "path": path, "method": method,
                "allow_non_standard_methods": ns, "allow_any_method": any_,
                "allow_error_fallback": None if allow is None else bool(ef)}
        out.append((src, f, spec))
    for mac, ef, custom in itertools.product(["get", "post", "patch", "put", "delete", "head", "options"], [None, False, True], [False, True]):
        f = name(mac)
        path = "/s/%d" % n[0]
        allow = None if ef is None else (["error_fallback"] if ef else [])
        args = ['path = "%s"' % path] + ([] if not custom else ['id = "%s"' % ("ID_" + f.upper())]) + ([allow_args(allow)] if allow is not None else [])
        src = "#[pavex::%s(%s)]\npub fn %s() -> u64 { 0 }\n" % (mac, ", ".join(args), f)
        out.append((src, f, {"kind": "shorthand", "id": ("ID_" + f.upper()) if custom else f.upper(), "method": mac.upper(), "path": path,
                             "allow_error_fallback": ef}))
    return out


def cargo_toml(name):
    return ('[package]\nname = "%s"\nversion = "0.1.0"\nedition = "2021"\npublish = false\n\n[workspace]\n\n[lib]\npath = "src/lib.rs"\n\n'
            '[dependencies]\npavex = { path = "%s/runtime/pavex" }\n' % (name, os.path.realpath(pxvlib.REPO)))


def write_crate(d, name, lib_rs):
    os.makedirs(os.path.join(d, "src"), exist_ok=True)
    changed = False
    for rel, txt in (("Cargo.toml", cargo_toml(name)), ("src/lib.rs", lib_rs)):
        p = os.path.join(d, rel)
        if not os.path.exists(p) or open(p).read() != txt:
            open(p, "w").write(txt)
            changed = True
    lock = os.path.join(d, "Cargo.lock")
    if not os.path.exists(lock):
        shutil.copy(os.path.join(pxvlib.HARNESS, "Cargo.lock"), lock)
    return changed


def attr_strings(item):
    out = []
    for a in item.get("attrs", []):
        if isinstance(a, str):
            out.append(a)
        elif isinstance(a, dict) and "other" in a:
            out.append(a["other"])
    return out


def run(R):
    t0 = time.time()
    its = items()
    lib = "#![allow(dead_code, unused, non_camel_case_types)]\n//! Generated by tools/checks/c19_rustdoc.py\n\n" + "\n".join(s for s, _, _ in its)
    crate = os.path.join(STAGE, "annotated")
    write_crate(crate, "c19_annotated", lib)
    env = pxvlib.env_offline()
    env["CARGO_TARGET_DIR"] = os.path.join(STAGE, "target")
    env.pop("RUSTFLAGS", None)
    with pxvlib.BuildLock("cargo"):
        rc, out = pxvlib.sh(["cargo", "+nightly", "rustdoc", "--offline", "--lib", "--", "-Zunstable-options", "--output-format", "json",
                             "--document-private-items"], cwd=crate, env=env, timeout=3600)
    info = {"items": len(its), "cargo_rustdoc_rc": rc}
    R.coverage["rustdoc_stage"] = info
    if rc != 0:
        R.violation("rustdoc stage: the crate annotated with the real macros does not document (broken tie)",
                    {"tail": out[-3000:]}, no_failing_input=True)
        return False
    doc = json.load(open(os.path.join(STAGE, "target", "doc", "c19_annotated.json")))
    info["format_version"] = doc.get("format_version")
    by_name = {}
    for it in doc["index"].values():
        if it.get("name"):
            by_name.setdefault(it["name"], []).append(it)
    lines, meta = [], []
    for _, name, spec in its:
        cands = [i for i in by_name.get(name, []) if any("diagnostic::pavex" in a for a in attr_strings(i))]
        if len(cands) != 1:
            R.violation("rustdoc stage: item %s carries no (or several) diagnostic::pavex attribute in rustdoc JSON" % name,
                        {"item": name, "spec": spec, "attrs": [attr_strings(i) for i in by_name.get(name, [])]})
            return False
        attrs = attr_strings(cands[0])
        lines.append(json.dumps({"op": "attr", "attrs": attrs}))
        meta.append((name, spec, attrs))
    impl = pxvlib.run_impl("bp", lines, pkg="c19")
    model_parse = pxvlib.run_model("bp", lines)
    model_emit = pxvlib.run_model("bp", [json.dumps({"op": "emit", "spec": spec}) for _, spec, _ in meta])
    model_lex = pxvlib.run_model("bp", [json.dumps({"op": "lex", "s": " ".join(a for a in attrs if "diagnostic::pavex" in a)})
                                        for _, _, attrs in meta])
    bad = 0
    for (name, spec, attrs), io, mo, me, ml in zip(meta, impl, model_parse, model_emit, model_lex):
        io, mo, me, ml = json.loads(io), json.loads(mo), json.loads(me), json.loads(ml)
        want = {"r": "some", "props": A.meaning(spec)}
        why = None
        if io != want:
            why = "real macro + real parser: arguments %r reach the compiler as %r, expected %r" % (spec, io, want)
        elif mo != io:
            why = "model parse of the real attribute %r gives %r, real parser %r" % (attrs, mo, io)
        elif me.get("means") != want["props"]:
            why = "model `meaning` %r differs from the documented meaning %r" % (me.get("means"), want["props"])
        elif me.get("tokens") != ml.get("tokens"):
            why = "the real macro writes %r but the model's emitAttr gives %r" % (attrs, me.get("attr"))
        if why:
            bad += 1
            if bad <= 3:
                R.violation("rustdoc stage: " + why, {"item": name, "spec": spec, "attrs": attrs})
    info.update(checked=len(meta), failures=bad)
    # the combination the documentation forbids must not compile (fix 75c77be)
    crate2 = os.path.join(STAGE, "route_without_method")
    write_crate(crate2, "c19_route_without_method", '#[pavex::route(path = "/x")]\npub fn h() -> u64 { 0 }\n')
    with pxvlib.BuildLock("cargo"):
        rc2, out2 = pxvlib.sh(["cargo", "+nightly", "check", "--offline", "--lib"], cwd=crate2, env=env, timeout=3600)
    info["route_without_method_rejected"] = rc2 != 0 and "HTTP method" in out2
    if rc2 == 0:
        R.violation("rustdoc stage: `#[pavex::route(path = \"/x\")]` (no method, no allow(any_method)) compiles; pavexc_attr_parser "
                    "panics on the attribute it writes", {"crate": crate2})
        bad += 1
    # Observation (not a legal argument: the shorthand macros document only `path` and `id`): `error_handler = ".."` is accepted
    # by #[get]/#[post]/… and written into the attribute, where the compiler rejects it as an unknown field.
    crate3 = os.path.join(STAGE, "shorthand_error_handler")
    write_crate(crate3, "c19_shorthand_error_handler", '#[pavex::get(path = "/x", error_handler = "crate::h")]\npub fn h() -> u64 { 0 }\n')
    with pxvlib.BuildLock("cargo"):
        rc3, out3 = pxvlib.sh(["cargo", "+nightly", "rustdoc", "--offline", "--lib", "--", "-Zunstable-options", "--output-format", "json"],
                              cwd=crate3, env=env, timeout=3600)
    obs = {"macro_accepts": rc3 == 0}
    if rc3 == 0:
        d3 = json.load(open(os.path.join(STAGE, "target", "doc", "c19_shorthand_error_handler.json")))
        a3 = [a for it in d3["index"].values() if it.get("name") == "h" for a in attr_strings(it)]
        obs["attribute"] = [a for a in a3 if "pavex" in a]
        obs["compiler_reads"] = json.loads(pxvlib.run_impl("bp", [json.dumps({"op": "attr", "attrs": a3})], pkg="c19")[0])
    info["observation_shorthand_error_handler_argument"] = obs
    info["wall_s"] = round(time.time() - t0, 1)
    R.log("rustdoc stage: %d annotated items, %d failures, format %s, %.1fs" % (len(meta), bad, info["format_version"], info["wall_s"]))
    return bad == 0
