"""placeholder, filled in below"""


def run(R):
    return True
