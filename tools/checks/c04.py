"""C04 — injection is faithful: right constructor, right scope, no illicit copies.

L2  lean/Pxv/Thm/C04.lean over lean/Pxv/Model/Scope.lean (scope graph built from the blueprint, `ConstructibleDb::get`,
    last-registration-wins tables, the clone guard and clone insertion, the stage cloning pass) and
    lean/Pxv/Model/Lifecycle.lean (what the generated pipeline delivers to every consumer).
L3a runtime: generated servers (tools/gen_scopes.py family: same-type constructors at several nesting levels, plus
    every other family of the shared stage) answer scripted requests; every constructor stamps the values it builds,
    so the trace shows which constructor's value — built from which constructors' values — reached each handler and
    middleware input. Compared with the model (`get` for the consumer's scope; the provenance tree the modelled
    pipeline delivers) and with a model-free reading of the documented scoping rule (oracle).
    `clone` lines: only of clone-if-necessary constructors, taken from a live instance of the right type.
L3b compile time: every (input, borrow-checked) call-graph pair the hooked pavexc dumped: the nodes the passes
    added must be clone nodes of cloneable nodes whose only in-edge is a shared borrow of the original (oracle);
    the model's `applyReqs` on the input graph must reproduce the checked graph (correspondence).
"""
import json

import e2e_stage
import gen_scopes
import lifetrace
import pxvlib


def route_pipeline(spec, route):
    return [("h", route)] + [("m", mid) for _, mid in (gen_scopes.chain_of(spec["bp"], route) or [])]


def import_then_explicit(spec, observed, designated):
    """known finding C04-import-beats-later-registration: in one blueprint (one op list) the OBSERVED constructor is brought in
    by `bp.import` and the DESIGNATED one is registered explicitly at a later position of the same list"""
    imports = {int(k) for k in (spec.get("ctor_imports") or {})}

    def lists(ops, acc):
        acc.append(ops)
        for op in ops:
            if op[0] == "nest":
                lists(op[1]["ops"], acc)
        return acc
    for ops in lists(spec["bp"], []):
        first_import = None
        for pos, op in enumerate(ops):
            n = gen_scopes.op_ctor_name(op)
            if n is None:
                continue
            if n == observed and op[0] == "ctor" and op[1] in imports and first_import is None:
                first_import = pos
            if n == designated and first_import is not None and pos > first_import and not (op[0] == "ctor" and op[1] in imports):
                return True
    return False


def key_of(comp):
    return (comp[0], int(comp[1:]))


def ambiguous_for(des, comps, ty, defs, seen=None):
    """the components `comps` of one pipeline do not agree on the constructor of `ty`, or of a type that
    constructor (transitively) needs"""
    seen = seen if seen is not None else set()
    if ty in seen:
        return False
    seen.add(ty)
    names = {des[c].get(ty) for c in comps if c in des}
    if len(names) > 1:
        return True
    for n in names:
        if n is not None:
            for j, _ in defs[n]["ins"]:
                if ambiguous_for(des, comps, j, defs, seen):
                    return True
    return False


def clone_graphs(obs):
    """(program, input graph, checked graph) for every call graph the borrow checker accepted."""
    out = []
    for o in obs.values():
        if o["rc"] != 0:
            continue
        cur = None
        for r in o["dump"]:
            if r["ev"] == "input":
                cur = r["g"]
            elif r["ev"] == "checked" and cur is not None:
                out.append((o["name"], cur, r["g"]))
                cur = None
            elif r["ev"] == "rejected":
                cur = None
    return out


def check_clone_graph(gin, gck):
    """oracle on pavexc's own output + the request list for the model. Returns (why | None, model request | None)."""
    ids_in = [n["i"] for n in gin["nodes"]]
    ren = {old: new for new, old in enumerate(ids_in)}
    byid = {n["i"]: n for n in gck["nodes"]}
    new_nodes = [n for n in gck["nodes"] if n["i"] not in ren]
    if set(ren) - set(byid):
        return "the borrow checker removed nodes", None
    reqs, triples = [], []
    for n in new_nodes:
        ins = [(s, k) for s, d, k in gck["edges"] if d == n["i"]]
        outs = [(d, k) for s, d, k in gck["edges"] if s == n["i"]]
        if "clone::Clone>::clone" not in n["label"]:
            return "a node added by the borrow checker is not a clone: %s" % n["label"], None
        if len(ins) != 1 or ins[0][1] != "shared":
            return "clone node %s: its incoming edges are %s, expected one shared borrow" % (n["label"], ins), None
        d = ins[0][0]
        if d not in ren:
            return "clone node %s copies another node added by the passes" % n["label"], None
        if not byid[d]["cloneable"]:
            return "clone of `%s`, whose constructor is never-clone (or which is not a constructor)" % byid[d]["label"], None
        if byid[d]["out"] != n["out"]:
            return "clone node of type %s attached to a value of type %s" % (n["out"], byid[d]["out"]), None
        if len(outs) != 1 or outs[0][1] != "move":
            return "clone node %s feeds %s, expected exactly one by-value consumer" % (n["label"], outs), None
        reqs.append([ren[d], ren.get(outs[0][0], -1)])
        triples.append((ren[d], ren.get(outs[0][0], -1)))
    nodes = [{"kind": n["kind"], "copy": n["copy"], "ref": n["ref"], "cloneable": n["cloneable"], "tied": [], "direct": []} for n in gin["nodes"]]
    edges = [[ren[s], ren[d], k] for s, d, k in gin["edges"]]
    name = dict(ren)
    for n, t in zip(new_nodes, triples):
        name[n["i"]] = "clone%s" % (t,)
    real = sorted((str(name[s]), str(name[d]), k) for s, d, k in gck["edges"])
    return None, {"op": "clone", "g": {"nodes": nodes, "edges": edges}, "reqs": reqs, "_real": real, "_n": len(nodes), "_triples": triples}


def corpus_model_lines():
    """corpus/C04/*.jsonl lines that are plain protocol lines of the `scope` driver with the expected answer"""
    out = []
    for l in pxvlib.corpus_lines("C04"):
        j = json.loads(l)
        if "op" in j and "expect" in j:
            out.append(j)
    return out


def run(R):
    R.assumptions += [
        "generic constructors (`fn g<T>() -> G<T>`): the Lean model takes the set of instantiations a template can be bound to as given (is_a_template_for is C17's subject); `getT` mirrors get_or_try_bind's walk (concrete entry, then templates, scope by scope) and is compared with the traces of the family `generic`",
        "scoping rule used by the oracle (runtime/pavex/src/blueprint/nesting.rs, 'Precedence'): a handler or middleware sees the constructors of the blueprint "
        "it is registered in (latest registration per type) and of the enclosing blueprints; the inputs of a constructor are resolved for the component on whose behalf it runs",
        "constructors stamp what they build (tools/gen_app.py instrumentation): the trace is trusted to tell which constructor produced an instance",
        "rustc's move semantics are not re-checked here (C01): 'no illicit copies' is about `Clone::clone` calls, which the instrumented `Clone` impls log",
        "error handlers and error observers of the generated applications take no injected inputs",
        "toolchain shim: installed nightly (rustdoc JSON format 57) instead of pavexc's pinned nightly",
    ]
    R.coverage["trusted_base"] += [
        "cfg(pavex_verif) hook borrow_checker/verif_dump.rs (prints the call graphs before/after borrow checking; read-only)",
        "tools/gen_app.py + tools/gen_scopes.py application generators, tools/e2e.py runner (loopback HTTP, one request at a time)",
    ]
    lean_ok, lrep = pxvlib.lean_obligations(R, ["Pxv.Thm.C04"])
    obs, info, rt = e2e_stage.get_runtime(R)
    R.coverage["e2e_stage"] = {k: v for k, v in info.items()}
    known = {f["id"]: f for f in R.known_findings()}
    fails, dis, known_hits, clone_bad, import_hits = [], [], [], [], []

    # ---- corpus: protocol lines with pinned answers (model regression) -----------------------------------
    cl = corpus_model_lines()
    if cl:
        outs = pxvlib.run_model("scope", [json.dumps({k: v for k, v in c.items() if k not in ("expect", "note")}) for c in cl])
        for c, o in zip(cl, outs):
            got = json.loads(o)
            for k, v in c["expect"].items():
                if got.get(k) != v:
                    dis.append({"what": "corpus line: model answer changed", "line": c, "got": got.get(k), "field": k})

    # ---- L3a: which constructor's value reaches each consumer -------------------------------------------
    progs = [n for n, d in rt.items() if lifetrace.usable(obs[n]["spec"]) and d["result"] and "responses" in d["result"]]
    slines = [json.dumps({"op": "scope", "bp": gen_scopes.lean_bp(obs[n]["spec"]), "ntypes": len(obs[n]["spec"]["types"])}) for n in progs]
    souts = [json.loads(x) for x in pxvlib.run_model("scope", slines)] if slines else []
    llines = [json.dumps(gen_scopes.life_request(obs[n]["spec"])) for n in progs]
    louts = [json.loads(x) for x in pxvlib.run_model("life", llines)] if llines else []
    n_evals = n_nontrivial = n_clones = n_deep = 0
    seen = set()
    hist = {"by-family": {}, "consumers": {}, "requests": {}}
    samples = []
    for name, mo, lo in zip(progs, souts, louts):
        spec = obs[name]["spec"]
        defs = gen_scopes.ctor_defs(spec)
        by_uid = {d["uid"]: n for n, d in defs.items()}
        des = gen_scopes.designations(spec)
        nty = len(spec["types"])
        fam = obs[name]["klass"]
        if mo.get("r") != "ok" or lo.get("r") != "ok":
            dis.append({"program": name, "what": "model rejected the blueprint", "model": [mo.get("r"), lo.get("r")]})
            continue
        model_get = {}
        for r in mo["routes"]:
            model_get[("h", r["route"])] = {t: by_uid.get(r["get"][t]) for t in range(nty)}
        for m in mo["mws"]:
            model_get[("m", m["mw"])] = {t: by_uid.get(m["get"][t]) for t in range(nty)}
        # the documented rule vs the model's `get`, statically, on every component and type
        for key, env in des.items():
            for t in range(nty):
                if env.get(t) != model_get.get(key, {}).get(t):
                    dis.append({"program": name, "what": "model `get` differs from the documented rule", "component": "%s%d" % key, "ty": t,
                                "rule": env.get(t), "model": model_get.get(key, {}).get(t)})
        multi = {t for t in range(nty) if len({n for n, d in defs.items() if d["out"] == t}) > 1}
        single_of = {}
        for n, d in defs.items():
            if d["life"] == "singleton":
                single_of.setdefault(d["out"], n)
        routes = {r["route"]: lifetrace.ModelRoute(r, by_uid, defs, single_of) for r in lo["routes"]}
        res = rt[name]["result"]
        init = lifetrace.Observed(spec, defs, res.get("init_trace", []))
        singles = {i: v[0] for i, v in init.ctors.items() if defs[v[0]]["life"] == "singleton"}
        # singletons are built by ApplicationState::new from the application-state scope
        app_get = {t: by_uid.get(mo["appget"][t]) for t in range(nty)}
        for iid, (cname, ins) in init.ctors.items():
            for (ty, mode), x in zip(defs[cname]["ins"], ins):
                n_evals += 1
                regs = {n for n, d in defs.items() if d["out"] == ty}
                rule = next(iter(regs)) if len(regs) == 1 else app_get.get(ty)
                got = init.producer(x)
                if got != rule:
                    fails.append({"program": name, "where": "ApplicationState::new", "consumer": cname, "ty": ty, "observed": got, "rule": rule,
                                  "why": "`%s` (built by ApplicationState::new) received a T%d built by `%s`, the blueprint designates `%s`" % (cname, ty, got, rule),
                                  "app_module_source": obs[name]["src"]})
                if got != app_get.get(ty):
                    dis.append({"program": name, "what": "model `get` at the application-state scope differs from ApplicationState::new", "consumer": cname,
                                "ty": ty, "observed": got, "model": app_get.get(ty)})
        for req, resp in zip(rt[name]["requests"], res["responses"]):
            tag = req.get("tag", "?")
            hist["requests"][tag] = hist["requests"].get(tag, 0) + 1
            ob = lifetrace.Observed(spec, defs, resp.get("trace", []), singles, base=init)
            where = "%s %s script=%s" % (req.get("method"), req.get("path"), req.get("script"))
            if ob.unparsed:
                dis.append({"program": name, "what": "trace lines the check cannot interpret", "lines": ob.unparsed[:5]})
            mr = routes.get("fallback") if tag in ("unknown-path", "wrong-method") else (routes.get(req.get("route")) if req.get("route") is not None else None)
            for comp, ids, _built in ob.consumers:
                key = key_of(comp)
                env = des.get(key, {})
                pipe_routes = [h["i"] for h in spec["handlers"] if key in route_pipeline(spec, h["i"])]
                comps = sorted({c for r in pipe_routes for c in route_pipeline(spec, r)})
                mcomp = next((c for c in mr.comps if c["comp"] == comp), None) if mr else None
                for j, ((ty, mode), iid) in enumerate(zip(lifetrace.comp_inputs(spec, comp), ids)):
                    n_evals += 1
                    hist["consumers"][comp[0]] = hist["consumers"].get(comp[0], 0) + 1
                    hist["by-family"][fam] = hist["by-family"].get(fam, 0) + 1
                    otree = ob.tree(iid)
                    rtree = lifetrace.expected_tree(defs, env, ty)
                    mtree = mr.tree(mcomp["args"][j]) if mcomp is not None else None
                    if rtree[1] not in ("singleton", "unknown") and len(rtree[1]) > 0:
                        n_deep += 1
                    if ty in multi:
                        k = (name, comp, ty)
                        if k not in seen:
                            seen.add(k)
                            n_nontrivial += 1
                    if len(samples) < 4 and ty in multi and fam == "scopes":
                        samples.append({"program": name, "request": where, "component": comp, "type": "T%d" % ty, "observed": repr(otree), "designated": repr(rtree)})
                    imp_known = ("C04-import-beats-later-registration" in known and otree != rtree and
                                 isinstance(otree[0], str) and isinstance(rtree[0], str) and import_then_explicit(spec, otree[0], rtree[0]))
                    if otree[0] != model_get.get(key, {}).get(ty) or (mtree is not None and otree != mtree):
                        amb = ambiguous_for(des, comps, ty, defs)
                        if not (amb and mtree is not None and otree == mtree) and not imp_known:
                            dis.append({"program": name, "what": "the generated server delivered a value the model does not predict", "request": where, "component": comp,
                                        "ty": ty, "observed": repr(otree), "model_pipeline": repr(mtree), "model_get": model_get.get(key, {}).get(ty)})
                    if otree != rtree:
                        item = {"program": name, "request": where, "component": comp, "ty": ty, "observed": repr(otree), "designated": repr(rtree),
                                "why": "`%s` received a T%d built as %s; the blueprint designates %s there" % (comp, ty, otree, rtree),
                                "bp": spec["bp"], "app_module_source": obs[name]["src"]}
                        if ("C04-type-keyed-next-state" in known and mtree is not None and otree == mtree and ambiguous_for(des, comps, ty, defs)):
                            known_hits.append(item)
                        elif imp_known:
                            import_hits.append(item)
                        else:
                            fails.append(item)
            for ty, old, new, line in ob.clones:
                n_clones += 1
                src = ob.producer(old)
                why = None
                if src is None:
                    why = "clone of an instance that does not exist in this request"
                elif not defs[src]["cloning"]:
                    why = "clone of a value whose constructor `%s` is never-clone" % src
                elif defs[src]["out"] != ty:
                    why = "clone of type T%s taken from a value built by `%s`" % (ty, src)
                if why:
                    clone_bad.append({"program": name, "request": where, "line": line, "why": why, "app_module_source": obs[name]["src"]})

    # ---- generic constructors (family `generic`, tools/gen_generic.py): model-free. The Lean lookup is by type identity;
    # binding a generic constructor to an instantiation is outside it, so this part of the property is tested, not proved.
    import gen_generic
    n_generic = n_generic_vals = n_generic_shadow = 0
    for name, d in rt.items():
        sp = obs[name]["spec"] if name in obs else None
        if not sp or sp.get("klass") != "generic" or not d["result"] or "responses" not in d["result"]:
            continue
        n_generic += 1
        scopes = sp["generic"]["scopes"]
        for req, resp in zip(d["requests"], d["result"]["responses"]):
            sc = scopes[req["scope"]]
            h = sc["handler"]
            want = [gen_generic.resolve(scopes, req["scope"], pp) for pp in h["wants"]]
            lines = [l for l in resp.get("trace", []) if l.startswith("handler %s.%s :" % (name, h["fn"]))]
            got = [x.split("/")[0] for x in lines[0].split(":", 1)[1].split()] if len(lines) == 1 else None
            built = [l.split()[1].split(".", 1)[1] for l in resp.get("trace", []) if l.startswith("ctor %s." % name)]
            n_generic_vals += len(want)
            # non-trivial: the nearest registration differs from what a walk that prefers concrete constructors would pick
            for pp, w in zip(h["wants"], want):
                x, conc = req["scope"], None
                while x is not None and conc is None:
                    conc = next((r["fn"] for r in scopes[x]["regs"] if r["produces"] == pp), None)
                    x = scopes[x]["parent"]
                if conc is not None and conc != w:
                    n_generic_shadow += 1
            if resp.get("status") != 200 or got != want or sorted(built) != sorted(want):
                fails.append({"program": name, "request": "GET %s" % req["path"], "consumer": h["fn"],
                              "why": "`%s` asked for %s and received values built by %s (constructors that ran: %s); the nearest enclosing registrations are %s" % (
                                  h["fn"], ["G<%s>" % x for x in h["wants"]], got, built, want),
                              "status": resp.get("status"), "trace": resp.get("trace"), "generic": sp["generic"], "app_module_source": obs[name]["src"]})
    # correspondence for the same family: the Lean `getT` (Pxv.Scope.getT_nearest) on the scope tree of the application vs the
    # constructors that really fed the handlers
    glines, gkeys = [], []
    for name, d in rt.items():
        sp = obs[name]["spec"] if name in obs else None
        if not sp or sp.get("klass") != "generic" or not d["result"] or "responses" not in d["result"]:
            continue
        scopes, params = sp["generic"]["scopes"], sp["generic"]["params"]
        fns = sorted({r["fn"] for sc in scopes for r in sc["regs"]})
        fid = {f: i for i, f in enumerate(fns)}
        regs = [[k, fid[r["fn"]], params.index(r["produces"])] for k, sc in enumerate(scopes) for r in sc["regs"] if r["produces"] != "*"]
        tmpls = [[k, fid[r["fn"]], list(range(len(params)))] for k, sc in enumerate(scopes) for r in sc["regs"] if r["produces"] == "*"]
        edges = [[sc["parent"], k] for k, sc in enumerate(scopes) if sc["parent"] is not None]
        for req, resp in zip(d["requests"], d["result"]["responses"]):
            h = scopes[req["scope"]]["handler"]
            lines_h = [l for l in resp.get("trace", []) if l.startswith("handler %s.%s :" % (name, h["fn"]))]
            if len(lines_h) != 1:
                continue
            got = [x.split("/")[0] for x in lines_h[0].split(":", 1)[1].split()]
            glines.append(json.dumps({"op": "generic", "edges": edges, "app": len(scopes), "regs": regs, "tmpls": tmpls,
                                      "queries": [[req["scope"], params.index(pp)] for pp in h["wants"]]}))
            gkeys.append((name, req, got, fns))
    gouts = [json.loads(x) for x in pxvlib.run_model("scope", glines)] if glines else []
    for (name, req, got, fns), mo in zip(gkeys, gouts):
        want = [fns[a] if a is not None else None for a in mo.get("ans", [])]
        if mo.get("r") != "ok" or want != got:
            dis.append({"program": name, "what": "generic constructors: the model's get_or_try_bind designates %s, the handler received values built by %s" % (want, got),
                        "request": req.get("path")})
    hist_generic = {"servers": n_generic, "injected_values": n_generic_vals, "generic_or_concrete_shadows_the_other": n_generic_shadow,
                    "model_queries": len(glines)}

    # ---- recorded witnesses that must be REJECTED for this property's sake (a never-clone value that could only be served
    # by a clone): accepted = the value was duplicated
    for o in obs.values():
        if o["klass"] == "corpus" and (o.get("meta") or {}).get("must_reject_for") == "C04" and o["rc"] == 0:
            fails.append({"program": o["name"], "corpus": o.get("corpus"), "why": "the blueprint of witness `%s` was accepted although it can only be served by cloning a never-clone value: %s" % (
                o.get("corpus"), [l.strip() for l in o["lib_rs"].split("\n") if "Clone>::clone" in l][:3]), "app_module_source": o["src"]})

    # ---- L3b: clone nodes in the dumped call graphs ------------------------------------------------------
    graphs = clone_graphs(obs)
    greqs, gown, graph_fails = [], [], []
    n_graph_clones = 0
    for pname, gin, gck in graphs:
        why, req = check_clone_graph(gin, gck)
        if why:
            graph_fails.append({"program": pname, "why": why, "input": gin, "checked": gck})
            continue
        n_graph_clones += len(req["reqs"])
        greqs.append(req)
        gown.append(pname)
    glines = [json.dumps({k: v for k, v in q.items() if not k.startswith("_")}) for q in greqs]
    gouts = [json.loads(x) for x in pxvlib.run_model("scope", glines)] if glines else []
    for pname, q, mo in zip(gown, greqs, gouts):
        if mo.get("r") != "ok":
            dis.append({"program": pname, "what": "model `applyReqs` failed", "model": mo})
            continue
        nm = {i: i for i in range(q["_n"])}
        if len(mo["clones"]) != len(q["_triples"]):
            dis.append({"program": pname, "what": "model refused a clone request pavexc performed", "request": q["reqs"], "model_clones": mo["clones"]})
            continue
        for (k, d), t in zip(mo["clones"], q["_triples"]):
            nm[k] = "clone%s" % (t,)
        model_edges = sorted((str(nm.get(s, s)), str(nm.get(d, d)), k) for s, d, k in mo["edges"])
        if model_edges != q["_real"]:
            dis.append({"program": pname, "what": "model `applyReqs` result differs from pavexc's borrow-checked graph", "model": model_edges, "real": q["_real"]})

    # ---- L3c: the cross-middleware cloning analysis of every stage (pipeline.rs step 4) vs `stageCloning` ---------
    # hook: {"ev":"stage4","mws":[[[type, by_ref, cloneable, copy],..],..],"result":[[type,[index,..]],..]} | "error":[type,index]
    slines4, smeta4, stage_fails = [], [], []
    stage_patterns = {}
    for pname, o in obs.items():
        for rec in o.get("dump", []):
            if rec.get("ev") != "stage4":
                continue
            names = sorted({i[0] for mw in rec["mws"] for i in mw})
            tid = {n: k for k, n in enumerate(names)}
            mws = [[{"ty": tid[i[0]], "byRef": i[1], "cloneable": i[2], "copy": i[3]} for i in mw] for mw in rec["mws"]]
            slines4.append(json.dumps({"op": "stage", "mws": mws}))
            smeta4.append((pname, rec, names))
            # model-free oracle (what C01 needs from this pass): once a non-Copy value has been handed over by value
            # WITHOUT `.clone()`, no later middleware of the stage touches it; a clone is only taken of a cloneable value
            if "result" in rec:
                cl = {t: set(ix) for t, ix in rec["result"]}
                for t in names:
                    acc = [next((("ref" if i[1] else "val", i[2], i[3]) for i in mw if i[0] == t), None) for mw in rec["mws"]]
                    pat = "".join("-" if a is None else ("b" if a[0] == "ref" else "m") for a in acc)
                    stage_patterns[pat] = stage_patterns.get(pat, 0) + 1
                    for k, a in enumerate(acc):
                        if a is None or a[0] != "val" or a[2]:
                            continue
                        if k in cl.get(t, set()):
                            if not a[1]:
                                stage_fails.append({"program": pname, "why": "stage analysis clones `%s` for middleware %d whose constructor is never-clone" % (t, k), "record": rec})
                        elif any(x is not None for x in acc[k + 1:]):
                            stage_fails.append({"program": pname, "why": "stage analysis lets middleware %d take `%s` by value without a clone although a later middleware of the stage uses it (pattern %s)" % (k, t, pat),
                                                "record": rec, "app_module_source": o.get("src")})
    souts4 = [json.loads(x) for x in pxvlib.run_model("scope", slines4)] if slines4 else []
    n_stage_dis = 0
    for (pname, rec, names), mo in zip(smeta4, souts4):
        per = {names[t]: v for t, v in mo.get("per_type", [])}
        if "result" in rec:
            real = {t: sorted(ix) for t, ix in rec["result"]}
            model = {names[t]: sorted(ix) for t, ix in mo.get("cloning", [])} if mo.get("r") == "ok" else None
            if model != real:
                n_stage_dis += 1
                dis.append({"program": pname, "what": "model `stageCloning` differs from pipeline.rs step 4", "real": real, "model": mo, "mws": rec["mws"]})
        else:
            t, ix = rec["error"]
            pm = per.get(t)
            if mo.get("r") != "rejected" or not isinstance(pm, dict) or pm.get("error") != ix:
                n_stage_dis += 1
                dis.append({"program": pname, "what": "model `stageCloning` differs from pipeline.rs step 4 (rejection)", "real": rec["error"], "model": mo, "mws": rec["mws"]})
    R.coverage["stage_cloning"] = {"stages": len(slines4), "distinct_access_patterns": len(stage_patterns), "disagreements": n_stage_dis,
                                   "oracle_failures": len(stage_fails),
                                   "patterns_sample": dict(sorted(stage_patterns.items(), key=lambda kv: -kv[1])[:12])}
    for f in stage_fails[:2]:
        R.violation("cross-middleware cloning analysis: " + f["why"], f)

    n_scopes = sum(1 for o in obs.values() if o["klass"] == "scopes")
    R.coverage["programs"] = len(progs)
    R.coverage["evaluations"] = n_evals + len(graphs)
    R.coverage["distinct_nontrivial"] = n_nontrivial
    R.coverage["rule"] = ("one evaluation = one injected value observed at run time (input of a handler / middleware per request, with the provenance tree of the constructors "
                          "behind it; inputs of singletons in ApplicationState::new) or one borrow-checked call graph; "
                          "non-trivial = the injected type has at least two constructors registered in the application; distinct by (program, component, type)")
    R.coverage["input_stats"] = dict(hist, runtime_clone_events=n_clones, call_graphs=len(graphs), clone_nodes_in_call_graphs=n_graph_clones,
                                     values_with_constructor_inputs=n_deep, known_finding_hits=len(known_hits),
                                     scopes_programs_generated=n_scopes,
                                     scopes_programs_accepted=sum(1 for o in obs.values() if o["klass"] == "scopes" and o["rc"] == 0),
                                     scopes_programs_with_ambiguous_pipeline=sum(1 for o in obs.values() if o["klass"] == "scopes" and o["spec"].get("ambiguous_pipeline")),
                                     scopes_programs_observed=sum(1 for n in progs if obs[n]["klass"] == "scopes"))
    R.coverage["generic_family"] = hist_generic
    R.coverage["samples"] = samples
    R.coverage["model_vs_impl_disagreements"] = len(dis)
    R.coverage["impl_vs_oracle_failures"] = len(fails) + len(clone_bad) + len(graph_fails) + len(known_hits) + len(import_hits) + len(stage_fails)
    R.log("servers=%d injected-values=%d nontrivial=%d clones(rt)=%d graphs=%d clone-nodes=%d oracle_failures=%d known=%d disagreements=%d" % (
        len(progs), n_evals, n_nontrivial, n_clones, len(graphs), n_graph_clones, len(fails) + len(clone_bad) + len(graph_fails), len(known_hits), len(dis)))
    if known_hits:
        k = known_hits[0]
        R.known_hit(known["C04-type-keyed-next-state"], "%d injected value(s) in %d program(s), e.g. %s, %s: %s" % (
            len(known_hits), len({x["program"] for x in known_hits}), k["program"], k["request"], k["why"][:300]))
    if import_hits:
        k = import_hits[0]
        R.known_hit(known["C04-import-beats-later-registration"], "%d injected value(s) in %d program(s), e.g. %s, %s: %s" % (
            len(import_hits), len({x["program"] for x in import_hits}), k["program"], k["request"], k["why"][:300]))
    for f in fails[:3]:
        R.violation("injection is not faithful: " + f["why"], f)
    for c in clone_bad[:2]:
        R.violation("illicit copy at run time: %s (%s)" % (c["why"], c["line"]), c)
    for g in graph_fails[:2]:
        R.violation("illicit clone node in a borrow-checked call graph: " + g["why"], g)
    real_fail = fails or clone_bad or graph_fails or stage_fails
    if R.tier == "thorough" and not R.replay and lean_ok and not pxvlib.leanchecker(R, ["Pxv.Thm.C04"]):
        lean_ok = False
        lrep["errors"] = ["leanchecker rejects Pxv.Thm.C04"]
    broken = []
    if not lean_ok:
        broken.append("proof obligations of Pxv.Thm.C04 no longer check: %s" % (lrep.get("errors") or lrep.get("bad_axioms") or lrep.get("forbidden_tokens")))
    if dis and not real_fail:
        broken.append("correspondence `scope`/`life`: %d disagreement(s) between the model and pavexc / the generated servers, first: %s" % (len(dis), json.dumps(dis[0], default=str)[:700]))
    if not progs:
        broken.append("no generated server could be observed (empty runtime stage)")
    if n_scopes and not any(obs[n]["klass"] == "scopes" for n in progs):
        broken.append("none of the applications with same-type constructors at several nesting levels could be observed")
    if broken and not real_fail:
        R.violation(" | ".join(broken), {"broken": broken, "theorem_module": "Pxv.Thm.C04", "cases": dis[:3]}, no_failing_input=True)
