"""C20 — domain guards accept exactly the hosts the documentation says.

L2: Pxv/Thm/C20.lean over Pxv/Model/Domain.lean.
L3: harness/crates/c20 drives, in-process, the real `DomainGuard::new` / `matchit_pattern` (cfg hook in
pavexc), the `BTreeMap<DomainGuard,_>` order, the real `matchit` 0.9 router, and the host-normalisation
statement lifted verbatim (build.rs) out of the `quote!` block of pavexc's codegen/router.rs.
The oracle below re-implements the *documentation* (docs/guide/routing/domain_guards.md + the property
text) in Python, independently of the Lean model.
"""
import os
import re
import string

import pxvlib

KEYWORDS = set("""_ abstract as async await become box break const continue crate do dyn else enum extern false final fn
for if impl in let loop macro match mod move mut override priv pub ref return Self self static struct super trait true
try type typeof unsafe unsized use virtual where while yield""".split())
IDENT_RE = re.compile(r"[A-Za-z_][A-Za-z0-9_]*\Z")
LIT_RE = re.compile(r"[A-Za-z0-9](?:[A-Za-z0-9-]*[A-Za-z0-9])?\Z")
REST_RE = re.compile(r"(?:[A-Za-z0-9-]*[A-Za-z0-9])?\Z")
TPL_RE = re.compile(r"\{(\*?)([^{}]*)\}([^{}]*)\Z", re.S)


# ---- the documentation, in Python ---------------------------------------------------------------

def is_ident(n):
    return bool(IDENT_RE.match(n)) and n not in KEYWORDS


def parse_label(l, first):
    """('lit', s) | ('param', name, rest) | ('catch', name, rest) | None"""
    if LIT_RE.match(l):
        return ("lit", l) if len(l) <= 63 else None
    m = TPL_RE.match(l)
    if not m:
        return None
    star, name, rest = m.groups()
    if star and not first:
        return None
    if not is_ident(name) or not REST_RE.match(rest) or 1 + len(rest) > 63:
        return None
    return ("catch" if star else "param", name, rest)


def grammar(s):
    """Parsed labels (left to right) if `s` is a valid guard under the documented rules, else None."""
    if s.endswith("."):
        s = s[:-1]
    if s == "":
        return None
    out = []
    for i, l in enumerate(s.split(".")):
        p = parse_label(l, i == 0)
        if p is None:
            return None
        out.append(p)
    total = sum(len(p[1]) if p[0] == "lit" else 1 + len(p[2]) for p in out) + len(out) - 1
    return out if total <= 253 else None


def strip_one_dot(s):
    return s[:-1] if s.endswith(".") else s


def expected_pattern(labels):
    def rev(p):
        if p[0] == "lit":
            return p[1][::-1]
        return p[2][::-1] + "{" + ("*" if p[0] == "catch" else "") + p[1] + "}"
    return "/".join(rev(p) for p in reversed(labels))


def fits(labels, host):
    """Documented meaning, label by label from the right; one trailing dot of the host ignored."""
    hl = strip_one_dot(host).split(".")
    gl = list(labels)
    while gl:
        g = gl.pop()
        if not hl:
            return False
        if g[0] == "catch":
            h = hl.pop()
            rest = g[2]
            if not h.endswith(rest):
                return False
            x = h[:len(h) - len(rest)]
            return not gl and (x != "" or len(hl) > 0)
        h = hl.pop()
        if g[0] == "lit":
            if h != g[1]:
                return False
        else:
            if not (h.endswith(g[2]) and len(h) > len(g[2])):
                return False
    return not hl


def cmp_specificity(a, b):
    """1 if a is strictly more specific than b, -1 if less, 0 if neither (equal specificity / incomparable)."""
    ra, rb = list(reversed(a)), list(reversed(b))
    for x, y in zip(ra, rb):
        kx = None if x[0] == "lit" else len(x[2])
        ky = None if y[0] == "lit" else len(y[2])
        if kx is None and ky is None:
            if x[1] != y[1]:
                return 0
            continue
        if kx is None:
            return 1
        if ky is None:
            return -1
        if kx != ky:
            return 1 if kx > ky else -1
        if x[0] == "catch" or y[0] == "catch":
            return 0
    return 0


def instance(labels, rng=None):
    """A host that fits the guard."""
    out = []
    for p in labels:
        if p[0] == "lit":
            out.append(p[1])
        elif p[0] == "param":
            out.append((rng.choice(["a", "api", "x", "admin", "p9"]) if rng else "p") + p[2])
        else:
            k = rng.choice([1, 1, 2, 3]) if rng else 1
            out += [rng.choice(["a", "b", "zz"]) if rng else "q" for _ in range(k - 1)]
            out.append((rng.choice(["a", "c", "www"]) if rng else "p") + p[2])
    return ".".join(out)


def n_params(labels):
    return sum(1 for p in labels if p[0] == "param")


# ---- generators ---------------------------------------------------------------------------------

ALPHA = "ab1-{}*._!Aé"
NAMES = ["a", "sub", "p1", "any", "_x", "fn", "self", "_", "9a", "a-b", "A", "Self", "x_y", "", "*z", "type"]
RESTS = ["", "", "", "x", "ab", "-x", "x-", "0"]
LITS = ["a", "b", "ab", "x", "com", "example", "admin", "a-b", "x1", "9", "a--b", "-a", "a-", "A"]


def sanitize(s):
    """No non-ASCII character inside an open `{` of a label (syn accepts XID identifiers; outside the
    modelled alphabet)."""
    out, inside = [], False
    for c in s:
        if c == ".":
            inside = False
        elif c == "{":
            inside = True
        elif c == "}":
            inside = False
        elif inside and ord(c) > 127:
            c = "e"
        out.append(c)
    return "".join(out)


def gen_label(rng, first):
    r = rng.random()
    if r < 0.5:
        return rng.choice(LITS)
    if r < 0.85:
        return "{" + rng.choice(NAMES) + "}" + rng.choice(RESTS)
    if r < 0.95:
        return "{*" + rng.choice(NAMES) + "}" + rng.choice(RESTS)
    return rng.choice(["{a}{b}", "x{a}", "{a", "a}", "{}", "{*}", "{{a}}", "{a}b{c}", "{a*}", "{*a}{b}"])


def mutate_str(rng, s, k=1):
    for _ in range(k):
        op = rng.random()
        pos = rng.randrange(len(s) + 1)
        if op < 0.4:
            s = s[:pos] + rng.choice(ALPHA) + s[pos:]
        elif op < 0.7 and s:
            pos = min(pos, len(s) - 1)
            s = s[:pos] + s[pos + 1:]
        elif s:
            pos = min(pos, len(s) - 1)
            s = s[:pos] + rng.choice(ALPHA) + s[pos + 1:]
    return s


def gen_guard_string(rng):
    m = rng.random()
    if m < 0.62:
        n = rng.choice([1, 1, 2, 2, 3, 3, 4, 5])
        labels = [gen_label(rng, i == 0) for i in range(n)]
        s = ".".join(labels)
        if rng.random() < 0.3:
            s = mutate_str(rng, s, rng.choice([1, 1, 2]))
    elif m < 0.80:
        # length boundaries: 63/64 per label, 253/254 in total, a parameter counting 1
        k = rng.random()
        if k < 0.4:
            n = rng.choice([61, 62, 63, 64, 65])
            head = rng.choice(["", "", "{p}", "{*p}", "{long_parameter_name}"])
            lab = head + "a" * (n - (1 if head else 0))
            s = ".".join([lab] + [rng.choice(LITS) for _ in range(rng.choice([0, 1, 2]))])
        else:
            target = rng.choice([251, 252, 253, 254, 255])
            labels, total = [], -1
            while total < target:
                room = target - total - 1
                n = min(room, rng.choice([63, 63, 40, 17, 5, 1]))
                if n <= 0:
                    break
                if rng.random() < 0.25:
                    labels.append("{" + rng.choice(["p", "sub", "a_long_name"]) + "}" + "a" * (n - 1))
                else:
                    labels.append("a" * n)
                total += n + 1
            s = ".".join(labels)
    elif m < 0.86:
        # many parameters
        n = rng.choice([24, 25, 26, 27, 30])
        s = ".".join("{p%d}" % i for i in range(n)) + rng.choice(["", ".com"])
    else:
        s = "".join(rng.choice(ALPHA) for _ in range(rng.choice([0, 1, 1, 2, 3, 4, 6, 9, 12])))
    t = rng.random()
    if t < 0.12:
        s += "."
    elif t < 0.15:
        s += ".."
    return sanitize(s)


BASES = [["x", "com"], ["example", "dev"], ["x", "com"], ["com"]]
LEFT = ["admin", "api", "a", "ab", "b", "{sub}", "{s}", "{p}b", "{q}ab", "{*any}", "{*r}b", "{*any}", "{sub}", "www"]
HOST_CHARS = "ab1-._xA~"


LEFT_DENSE = ["a", "ab", "abc", "b", "cab", "{p}", "{p}", "{p}b", "{p}ab", "{p}cab", "{*r}", "{*r}b", "{*r}ab"]


def gen_route(rng):
    base = rng.choice(BASES)
    guards = []
    dense = rng.random() < 0.4
    if dense:
        base = rng.choice([["c"], ["c"], ["b", "c"]])
    for _ in range(rng.choice([2, 3, 4, 5, 6]) if dense else rng.choice([1, 2, 2, 3, 3, 4])):
        left = [rng.choice(LEFT_DENSE if dense else LEFT) for _ in range(rng.choice([0, 1, 1, 1, 2, 2, 3, 4] if dense else [0, 1, 1, 1, 2, 2, 3]))]
        g = ".".join(left + (base if rng.random() < 0.9 else rng.choice(BASES)))
        r = rng.random()
        if r < 0.1:
            g += "."
        elif r < 0.16:
            g = mutate_str(rng, g)
        elif r < 0.18:
            g = ".".join("{p%d}" % i for i in range(rng.choice([25, 26]))) + "." + g
        guards.append(sanitize(g))
    valid = [grammar(g) for g in guards]
    valid = [v for v in valid if v]
    r = rng.random()
    if valid and r < 0.8:
        host = instance(rng.choice(valid), rng)
        m = rng.random()
        if m < 0.25:
            pass
        elif m < 0.45:
            host += rng.choice([".", ".", "..", "..."])
        elif m < 0.6:
            hl = host.split(".")
            i = rng.randrange(len(hl))
            op = rng.random()
            if op < 0.35:
                del hl[i]
            elif op < 0.7:
                hl.insert(i, rng.choice(["a", "b", "admin", ""]))
            else:
                hl[i] = rng.choice(["admin", "api", "a", "ab", "b", "xb", "www", ""])
            host = ".".join(hl)
        elif m < 0.8:
            host = mutate_host(rng, host)
        else:
            host = rng.choice(["admin", "api", "a", "ab", "b", "cab", "www", "a.b", "a.b.c"]) + "." + ".".join(base)
    else:
        host = "".join(rng.choice(HOST_CHARS) for _ in range(rng.choice([0, 1, 3, 5, 8])))
    case = {"op": "route", "guards": guards, "host": host}
    # a third of the Host headers carry a port (`pavex.dev:8080`, `pavex.dev.:443`): the trailing dot then is not the last
    # byte of the header (seeded change C20-4 stripped the dot from the raw header). Only for hosts made of host
    # characters, so that the header stays a valid authority and `host` is what Authority::host() returns.
    if host and all(ch.isalnum() or ch in "-." for ch in host) and rng.random() < 0.33:
        case["header"] = host + ":" + rng.choice(["80", "443", "8080", "1"])
    return case


def mutate_host(rng, h):
    pos = rng.randrange(len(h) + 1)
    op = rng.random()
    if op < 0.5:
        return h[:pos] + rng.choice(HOST_CHARS) + h[pos:]
    if h:
        pos = min(pos, len(h) - 1)
        return h[:pos] + h[pos + 1:]
    return h


def gen(rng):
    if rng.random() < 0.75:
        return {"op": "guard", "s": gen_guard_string(rng)}
    return gen_route(rng)


def mutate(rng, c):
    c = dict(c)
    if c["op"] == "guard":
        c["s"] = sanitize(mutate_str(rng, c["s"]))
    else:
        if rng.random() < 0.5:
            c.pop("header", None)
            c["host"] = c["host"] + rng.choice([".", "..", ""]) if rng.random() < 0.5 else mutate_host(rng, c["host"])
        else:
            gs = list(c["guards"])
            i = rng.randrange(len(gs))
            gs[i] = sanitize(mutate_str(rng, gs[i]))
            c["guards"] = gs
    return c


# ---- implementation-side oracle (needs no model) ---------------------------------------------------

OVERLAP = "overlap: "
PANIC = "compiler panic: "
SPURIOUS = "spurious-conflict: "


def oracle_guard(s, out):
    g = grammar(s)
    if out.get("r") == "ok":
        if g is None:
            return "guard %r accepted although it violates the documented rules" % s
        if out.get("norm") != strip_one_dot(s):
            return "guard %r stored as %r (expected: one trailing dot dropped)" % (s, out.get("norm"))
        if out.get("pattern") != expected_pattern(g):
            return "guard %r gives router pattern %r, expected %r" % (s, out.get("pattern"), expected_pattern(g))
        return None
    if out.get("r") == "err":
        if g is not None:
            return "guard %r rejected (%s) although valid under the documented rules" % (s, out.get("kind"))
        return None
    return "unexpected outcome %r" % (out,)


def oracle_route(case, out):
    guards, host = case["guards"], case["host"]
    parsed = [grammar(g) for g in guards]
    if out.get("r") == "panic":
        many = [g for g, p in zip(guards, parsed) if p and n_params(p) >= 26]
        return PANIC + "%s on accepted guard(s) %r" % (out.get("msg"), many or guards)
    if out.get("r") != "route":
        return "unexpected outcome %r" % (out,)
    for g, p, v in zip(guards, parsed, out["verdicts"]):
        if (v == "ok") != (p is not None):
            return "guard %r: verdict %s but the documented rules say %s" % (g, v, "valid" if p else "invalid")
    exp_order = sorted({strip_one_dot(g) for g, p in zip(guards, parsed) if p})
    if out["order"] != exp_order:
        return "router order %r, expected %r" % (out["order"], exp_order)
    labels = [grammar(g) for g in exp_order]
    exp_pats = [expected_pattern(l) for l in labels]
    if out["patterns"] != exp_pats:
        return "router patterns %r, expected %r" % (out["patterns"], exp_pats)
    if out.get("emitted") is False:
        return "the code generated for domain_router() registers other patterns than %r (what conflict detection checked): hosts that fit a guard would not reach its routes" % (exp_pats,)
    has_host = out["host"] is not None
    if (host != "") != has_host:
        return "Host %r: %s by the generated code" % (host, "accepted" if has_host else "rejected")
    fit = [has_host and fits(l, host) for l in labels]
    for g, f, e in zip(exp_order, fit, out["each"]):
        if f != e:
            return "guard %r %s Host %r, but by the documented meaning it %s" % (
                g, "matches" if e else "does not match", host, "fits" if f else "does not fit")
    ok_idx = []
    for j, ins in enumerate(out["ins"]):
        if ins == "ok":
            ok_idx.append(j)
            continue
        if not isinstance(ins, dict) or not ins.get("conflict"):
            return "pattern of accepted guard %r refused by matchit: %r" % (exp_order[j], ins)
        if not ins.get("with_known"):
            return "conflict for %r names a route that is no registered guard (pavexc indexes pattern2guard[&with]: panic)" % exp_order[j]
        # rejected as conflicting => some earlier accepted guard shares a host with it
        shared = False
        for i in ok_idx:
            for w in (instance(labels[i]), instance(labels[j])):
                if fits(labels[i], w) and fits(labels[j], w):
                    shared = True
        if not shared:
            return SPURIOUS + "guard %r rejected as conflicting with %r although it shares no host with any of them" % (
                exp_order[j], [exp_order[i] for i in ok_idx])
    all_ok = len(ok_idx) == len(exp_order)
    if not all_ok:
        if out["at"] is not None:
            return "routing result reported for a rejected guard set"
        return None
    hits = [i for i, f in enumerate(fit) if f]
    if not hits:
        return None if out["at"] is None else "Host %r routed to %r although no guard fits" % (host, exp_order[out["at"]])
    if out["at"] is None or out["at"] not in hits:
        return "Host %r fits %r but is routed to %r" % (host, [exp_order[i] for i in hits],
                                                       None if out["at"] is None else exp_order[out["at"]])
    if len(hits) >= 2:
        for a in hits:
            for b in hits:
                if a < b and cmp_specificity(labels[a], labels[b]) == 0:
                    return "two accepted guards of EQUAL specificity, %r and %r, both fit Host %r" % (exp_order[a], exp_order[b], host)
        best = [a for a in hits if all(a == b or cmp_specificity(labels[a], labels[b]) == 1 for b in hits)]
        if best != [out["at"]]:
            return "Host %r fits %r; most specific is %r but it is routed to %r" % (
                host, [exp_order[i] for i in hits], [exp_order[i] for i in best], exp_order[out["at"]])
        return OVERLAP + "accepted guards %r all fit Host %r (strictly ordered by specificity, routed to %r)" % (
            [exp_order[i] for i in hits], host, exp_order[out["at"]])
    return None


def oracle(case, out):
    if case.get("op") == "guard":
        return oracle_guard(case["s"], out)
    return oracle_route(case, out)


def nontrivial(case, out):
    if case.get("op") == "guard":
        s = case["s"]
        return "{" in s or len(s) >= 60 or out.get("r") == "err"
    if out.get("r") != "route":
        return True
    return len(out["order"]) >= 2 and any(out["each"])


def matchit_versions():
    """matchit version pavexc resolves to in the repository's lock file and in the harness' lock file."""
    out = []
    for path in (pxvlib.REPO + "/Cargo.lock", pxvlib.HARNESS + "/Cargo.lock"):
        txt = open(path).read()
        m = re.search(r'name = "pavexc"\nversion = "[^"]*"\ndependencies = \[(.*?)\]', txt, re.S)
        dep = re.search(r'"matchit(?: ([0-9.]+))?"', m.group(1)) if m else None
        if dep is None:
            out.append(None)
        elif dep.group(1):
            out.append(dep.group(1))
        else:
            out.append(re.search(r'name = "matchit"\nversion = "([^"]*)"', txt).group(1))
    return out


def run(R):
    mv = matchit_versions()
    R.coverage["matchit_version"] = {"repo_lock": mv[0], "harness_lock": mv[1]}
    if mv[0] is None or mv[0] != mv[1]:
        R.violation("harness links matchit %s but /repo's Cargo.lock resolves pavexc's matchit to %s (broken tie: "
                    "update harness/Cargo.lock)" % (mv[1], mv[0]), {"matchit": mv}, no_failing_input=True)
    R.assumptions += [
        "parameter names and hosts range over ASCII: syn's acceptance of non-ASCII XID identifiers (and of white space / raw-identifier "
        "syntax around a name, e.g. `{ a}`, `{r#fn}`) is outside the modelled alphabet (the property's alphabet: DNS characters, braces, star, dots)",
        "http::uri::Authority::try_from + host() is the identity on header values over [A-Za-z0-9-._~] and rejects the empty value "
        "(checked on every generated case); port / userinfo stripping by the http crate is not modelled; a host never contains '/'",
        "matchit 0.9 (Node::insert / Node::at) is modelled semantically for the pattern family matchit_pattern can emit; validated by this run, not verified",
        "the host normalisation runs as the text of the `let host: Option<String> = …;` statement lifted from the quote! block of "
        "codegen/router.rs by harness/crates/c20/build.rs (interpolations #request/#pavex replaced), not inside a generated server",
    ]
    R.coverage["trusted_base"].append(
        "cfg(pavex_verif) hook pavexc::verif::{domain_guard, domain_guard_patterns_in_router_order}: plain forwarders to "
        "DomainGuard::new / Display / matchit_pattern and to BTreeSet<DomainGuard> iteration")
    known = {f["id"]: f for f in R.known_findings()}

    def match_known(case, why):
        if why.startswith(OVERLAP) and "C20-specificity-overlap" in known:
            return known["C20-specificity-overlap"]
        if why.startswith(SPURIOUS) and "C20-spurious-conflict" in known and case.get("op") == "route":
            labels = [grammar(g) for g in sorted({strip_one_dot(g) for g in case["guards"] if grammar(g)})]
            # the guard whose insert failed is the first one for which the oracle found no shared host:
            # precondition of matchit's prefix/suffix check, re-derived here
            inner_param = any(any(p[0] == "param" for p in l[1:]) for l in labels)
            prefixed = any(any(p[0] != "lit" and p[2] != "" for p in l) for l in labels)
            if inner_param and prefixed:
                return known["C20-spurious-conflict"]
        if why.startswith(PANIC) and "Too many route parameters" in why and "C20-too-many-parameters" in known:
            parsed = [grammar(g) for g in case.get("guards", [])]
            if any(p and n_params(p) >= 26 for p in parsed):
                return known["C20-too-many-parameters"]
        return None

    extra_ok = True
    if os.environ.get("PXV_C20_E2E", "1") != "0" and not R.replay:
        # accepted guards, nested ones included, through the real compiler and the generated server (family gen_routes)
        import checks.domains_e2e as domains_e2e
        extra_ok = domains_e2e.domain_stage(R, "C20")
    pxvlib.differential(
        R, modules=["Pxv.Thm.C20"], model="domain", pkg="c20", gen=gen, oracle=oracle, nontrivial=nontrivial,
        mutate=mutate, match_known=match_known, n_quick=24000, n_thorough=1000000, extra_lean_ok=extra_ok,
        rule="75% single guard strings (valid-biased label lists with 0-2 character mutations over `ab1-{}*._!A\\u00e9`, length boundaries "
             "63/64 and 253/254 with parameters counting 1, 24-30 parameters, short random strings; 0/1/2 trailing dots) -> verdict, "
             "error kind, stored form, matchit pattern; 25% guard sets (1-4 guards over a shared base domain, literal / {p} / {p}rest / "
             "{*p} / {*p}rest labels, so that overlaps and conflicts happen) x Host (instance of one guard, then +0..3 trailing dots, "
             "label dropped/added/replaced, character edits; or random) -> per-guard verdicts, BTreeMap order, patterns, per-insert "
             "result, normalised host, per-guard match, routing result. Non-trivial = templated / near a length limit / rejected "
             "guard string, or a guard set with >= 2 valid guards of which the host fits at least one; distinct by full input",
    )
