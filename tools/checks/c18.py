"""C18 — configuration sources merge with the documented precedence (env > profile file > base file).

L2: Pxv/Thm/C18.lean over Pxv/Model/Config.lean.
L3: harness/crates/config runs the real `pavex::config::ConfigLoader::load` in-process on a scratch
directory tree (relative / default / absolute configuration directories, files at several ancestors)
with a controlled `PX_*` environment (cleared and re-set per case, single-threaded).

The oracle is an independent Python reading of the documented behaviour; it never looks at the model.
"""
import json
import os
import re
import shutil

import pxvlib

KNOWN = ["dev", "prod", "local_development", "staging2", "prodEU"]
# a hand-written ConfigProfile (harness `Manual`): free-form names, dots included
KNOWN_MANUAL = ["prod", "prod.eu", "v1.2"]
SCHEMAS = {
    "S1": [("server.host", "string", True), ("server.port", "u16", True), ("server.tls", "bool", False),
           ("db.url", "string", True), ("db.pool.max_size", "u32", True), ("db.pool.timeout", "i64", False),
           ("debug", "bool", True), ("name", "string", False), ("workers", "i64", True)],
    "S2": [("app_name", "string", True), ("level", "u8", True), ("tag", "string", False)],
}
STRICT = {"S1": False, "S2": True}
OBS = {"selected_profile_file_absent_treated_as_empty": 0, "base_and_profile_file_from_different_directories": 0,
       "base_file_absent_treated_as_empty": 0}


def int_range(ty):
    bits = int(ty[1:])
    return (0, 2 ** bits - 1) if ty[0] == "u" else (-2 ** (bits - 1), 2 ** (bits - 1) - 1)


# ---- independent reading of the documented behaviour ------------------------------------------------

def py_env_path(name):
    n = name.strip()
    if not n.upper().startswith("PX_"):
        return None
    k = n[3:].replace("__", ".")
    if k.upper() == "PROFILE":
        return None
    k = k.strip().lower()
    segs = k.split(".")
    if any(x == "" for x in segs):
        return None
    return tuple(segs)


def flatten(tree, pre=()):
    out = {}
    for k, v in tree.items():
        if isinstance(v, dict):
            out.update(flatten(v, pre + (k,)))
        else:
            out[pre + (k,)] = v
    return out


def related(p, q):
    n = min(len(p), len(q))
    return p[:n] == q[:n]


ANY = "any"


def env_candidates(ty, raw):
    """Canonical values an env string may legitimately stand for, for a field of type `ty`.
    Returns ANY when the documentation does not say how the text is typed (a string field fed
    with text that figment's value syntax reads as a number / boolean / quoted / bracketed value)."""
    out = []
    for v in {raw, raw.strip()}:
        if ty == "string":
            t = v.strip()
            looks_typed = t in ("true", "false") or re.fullmatch(r"[+-]?[0-9]+", t) or re.fullmatch(r"[+-]?[0-9]*\.[0-9]*([eE][+-]?[0-9]+)?", t) \
                or any(c in t for c in ",{}[]\"'") or t.lower().lstrip("+-") in ("inf", "infinity", "nan")
            if looks_typed:
                return ANY
            out.append(list(v.encode()))
        elif ty == "bool":
            if v.strip() in ("true", "false"):
                out.append(v.strip() == "true")
        else:
            if re.fullmatch(r"[+-]?[0-9]+", v.strip()):
                z = int(v.strip())
                lo, hi = int_range(ty)
                if lo <= z <= hi and -2 ** 63 <= z < 2 ** 64:
                    out.append(str(z))
    return out


def file_value(ty, v):
    if ty == "string":
        return list(v.encode()) if isinstance(v, str) else None
    if ty == "bool":
        return v if isinstance(v, bool) else None
    if isinstance(v, bool) or not isinstance(v, int):
        return None
    lo, hi = int_range(ty)
    return str(v) if lo <= v <= hi else None


def pick_file(case, name):
    cands = [f for f in case["files"] if f["name"] == name]
    if case["absolute"]:
        cands = [f for f in cands if f["dist"] == 0]
    if not cands:
        return None
    return min(cands, key=lambda f: f["dist"])


def oracle(case, out):
    r = out.get("r")
    if r not in ("ok", "err") or (r == "err" and out.get("kind") not in ("profile-unset", "profile-invalid", "extract")):
        return "unexpected outcome %s" % json.dumps(out)[:300]
    env = case["env"]
    # -- profile selection: PX_PROFILE (exact name) selects; a missing / unknown profile is an error
    if case.get("explicit") is None:
        vals = [v for k, v in env if k == "PX_PROFILE"]
        if not vals:
            return None if out.get("kind") == "profile-unset" else "no profile selected, yet outcome is %s" % json.dumps(out)[:200]
        if vals[-1] not in (KNOWN_MANUAL if case.get("manual") else KNOWN):
            return None if out.get("kind") == "profile-invalid" else "unknown profile %r, yet outcome is %s" % (vals[-1], json.dumps(out)[:200])
        profile = vals[-1]
    else:
        profile = case["explicit"]
    if r == "err" and out["kind"] != "extract":
        return "profile %r is valid, yet outcome is %s" % (profile, json.dumps(out))
    bf, pf = pick_file(case, "base"), pick_file(case, profile)
    if pf is None:
        OBS["selected_profile_file_absent_treated_as_empty"] += 1
    if bf is None:
        OBS["base_file_absent_treated_as_empty"] += 1
    if bf is not None and pf is not None and bf["dist"] != pf["dist"]:
        OBS["base_and_profile_file_from_different_directories"] += 1
    B = flatten(bf["tree"]) if bf else {}
    P = flatten(pf["tree"]) if pf else {}
    E = {}
    for k, v in env:
        p = py_env_path(k)
        if p is not None:
            if p in E or any(related(p, q) for q in E):
                return None  # two variables for one key / clashing shapes: iteration-order territory, not judged
            E[p] = v
    schema = SCHEMAS[case["schema"]]
    paths = {tuple(k.split(".")) for k, _, _ in schema}
    allp = set(B) | set(P) | set(E)
    # shape clashes between sources or against the schema: not covered by the documented law
    for p in allp:
        for q in allp | paths:
            if p != q and related(p, q):
                return None if r in ("ok", "err") else "?"
    reasons, maybe = [], []
    if STRICT[case["schema"]] and any(p not in paths for p in allp):
        reasons.append("unknown key with deny_unknown_fields")
    expected = {}
    for k, ty, req in schema:
        p = tuple(k.split("."))
        if p in E:
            c = env_candidates(ty, E[p])
            if c == ANY:
                maybe.append(k)
            elif not c:
                reasons.append("env value %r does not fit %s at %s" % (E[p], ty, k))
            expected[k] = ("env", c)
        elif p in P or p in B:
            src, v = ("profile", P[p]) if p in P else ("base", B[p])
            fv = file_value(ty, v)
            if fv is None:
                reasons.append("%s value %r does not fit %s at %s" % (src, v, ty, k))
            expected[k] = (src, [fv])
        else:
            if req:
                reasons.append("required key %s has no source" % k)
            expected[k] = ("none", [None])
    if r == "err":
        return None if reasons or maybe else "rejected a configuration in which every required key has a well-typed source"
    if reasons:
        return "accepted although: %s -> %s" % ("; ".join(reasons)[:200], json.dumps(out.get("v"))[:200])
    for k, (src, cands) in expected.items():
        if cands != ANY and out["v"].get(k) not in cands:
            return "key %s should come from %s (one of %s) but is %s" % (k, src, json.dumps(cands)[:120], json.dumps(out["v"].get(k))[:120])
    if set(out["v"]) != set(expected):
        return "unexpected key set %s" % sorted(out["v"])
    return None


# ---- generator ------------------------------------------------------------------------------------------
STR_TAIL = ["", "", "", " x", "-é", "_1", "/p", ":5432", " a b", "ü", "@h", "=v", "#1", "%41"]
TYPED_LOOKING = ["12", "true", "false", "1.5", "-7", " 3 ", "", "a,b", "a]b", "x{y}", "truex", " truex ", "falsey", "0x10", "+5", "1e3", "nan", "-0", "v1.2", "1.2.3"]


def gen_value(rng, src, key, ty, other_vals):
    if ty == "string":
        v = "%s-%s%s" % (src, key.split(".")[-1], rng.choice(STR_TAIL))
        if rng.random() < 0.03:
            v = rng.choice(TYPED_LOOKING)
        return v
    if ty == "bool":
        return rng.random() < 0.5
    lo, hi = int_range(ty)
    for _ in range(20):
        v = rng.choice([lo, hi, 0, 1, hi - 1, rng.randrange(lo, hi + 1), rng.randrange(max(lo, -500), min(hi, 500) + 1)])
        if rng.random() < 0.012:
            v = rng.choice([hi + 1, lo - 1])
        if v not in other_vals:
            return v
    return v


def put(tree, path, v):
    d = tree
    for s in path[:-1]:
        d = d.setdefault(s, {})
        if not isinstance(d, dict):
            return
    if isinstance(d, dict):
        d[path[-1]] = v


def env_name(rng, key):
    n = "PX_" + key.upper().replace(".", "__")
    m = rng.random()
    if m < 0.08:
        n = n.lower()
    elif m < 0.12:
        n = "Px_" + n[3:].capitalize()
    return n


def env_text(rng, ty, v):
    if ty == "bool":
        s = "true" if v else "false"
        if rng.random() < 0.02:
            s = rng.choice(["True", "1", "yes", "TRUE"])
    elif ty == "string":
        s = v
    else:
        s = str(v)
        if rng.random() < 0.05 and v >= 0:
            s = "+" + s
    if rng.random() < 0.08:
        s = " " * rng.randrange(0, 3) + s + " " * rng.randrange(0, 3)
    return s


def gen(rng):
    schema_name = "S1" if rng.random() < 0.85 else "S2"
    schema = SCHEMAS[schema_name]
    env, explicit = [], None
    manual = rng.random() < 0.15
    known = KNOWN_MANUAL if manual else KNOWN
    m = rng.random()
    if m < 0.55:
        selected = rng.choice(known)
        env.append(["PX_PROFILE", selected])
    elif m < 0.76:
        selected = explicit = rng.choice(known)
        if rng.random() < 0.5:
            env.append(["PX_PROFILE", rng.choice(known + ["staging", "", "DEV", "staging_2", "prod_eu", "prodeu"])])
    elif m < 0.79:
        selected = None
    elif m < 0.86:
        selected = None
        env.append(["PX_PROFILE", rng.choice(["staging", "Dev", "DEV", " dev", "dev ", "", "production", "local-development", "LocalDevelopment"])])
    elif m < 0.9:
        selected = None
        env.append([rng.choice(["px_profile", "Px_Profile", "PX_profile", "PX__PROFILE", "PX_PROFILE_", "PXPROFILE"]), rng.choice(known)])
    else:
        selected = rng.choice(known)
        env.append(["PX_PROFILE", selected])
    depth = rng.choice([1, 2, 3, 4])
    mode = rng.random()
    absolute, dirname = False, rng.choice(["cfgx", "conf/app", "configuration"])
    if mode < 0.25:
        dirname = None
    elif mode < 0.45:
        absolute = True
    base_tree, prof_tree = {}, {}
    base_absent = rng.random() < 0.05
    prof_absent = rng.random() < 0.12
    for key, ty, req in schema:
        p_any = 0.99 if req else 0.6
        avail = [s for s in ("b", "p", "e") if not (s == "b" and base_absent) and not (s == "p" and prof_absent)]
        srcs = [s for s in avail if rng.random() < 0.5]
        if not srcs and rng.random() < p_any:
            srcs = [rng.choice(avail)]
        vals = []
        for s in srcs:
            v = gen_value(rng, {"b": "base", "p": "prof", "e": "env"}[s], key, ty, vals)
            vals.append(v)
            if s == "b":
                put(base_tree, key.split("."), v if rng.random() > 0.01 else rng.choice(["wrong-type", 5, True]))
            elif s == "p":
                put(prof_tree, key.split("."), v if rng.random() > 0.01 else rng.choice(["wrong-type", 5, True]))
            else:
                env.append([env_name(rng, key), env_text(rng, ty, v)])
    x = rng.random()
    if x < 0.12:
        put(rng.choice([base_tree, prof_tree]), ["extra", "k"], 1)
    elif x < 0.2:
        env.append(["PX_UNKNOWN__X", "1"])
    elif x < 0.24:
        env.append([rng.choice(["PX_PROFILE__X", "PX_ PROFILE", "PX_", "PX___A", "PX_A____B", "PXSERVER__PORT", "SERVER__PORT", "PX_SERVER_PORT"]), "77"])
    elif x < 0.28:
        # shape clash between sources (not judged by the oracle, still compared with the model)
        put(rng.choice([base_tree, prof_tree]), ["server"], "flat")
    elif x < 0.31:
        env.append([rng.choice(["PX_SERVER", "PX_SERVER__PORT__X", "PX_DB__POOL"]), "9"])
    files = []
    other = [p for p in known if p != selected]
    bd = rng.randrange(depth)
    pd = bd if rng.random() < 0.7 else rng.randrange(depth)
    if not base_absent:
        files.append({"dist": bd, "name": "base", "tree": base_tree})
        if bd + 1 < depth and rng.random() < 0.3:
            files.append({"dist": rng.randrange(bd + 1, depth), "name": "base", "tree": {"server": {"host": "decoy", "port": 1}, "workers": 99, "app_name": "decoy"}})
    sel_name = selected or rng.choice(known)
    if not prof_absent:
        files.append({"dist": pd, "name": sel_name, "tree": prof_tree})
        if pd + 1 < depth and rng.random() < 0.3:
            files.append({"dist": rng.randrange(pd + 1, depth), "name": sel_name, "tree": {"server": {"host": "decoy2"}, "debug": True, "level": 9}})
    if rng.random() < 0.4:
        files.append({"dist": rng.randrange(depth), "name": rng.choice(other), "tree": {"server": {"host": "other-profile", "port": 2}, "name": "other", "level": 3, "app_name": "other"}})
    if absolute and rng.random() < 0.5:
        for f in files:
            if rng.random() < 0.5:
                f["dist"] = 0
    # unique variable names (an environment has one value per name); unique (dist, name)
    seen, uenv = set(), []
    for k, v in env:
        if k not in seen:
            seen.add(k)
            uenv.append([k, v])
    rng.shuffle(uenv)
    seenf, ufiles = set(), []
    for f in files:
        if (f["dist"], f["name"]) not in seenf:
            seenf.add((f["dist"], f["name"]))
            ufiles.append(f)
    return {"schema": schema_name, "manual": manual, "explicit": explicit, "env": uenv, "absolute": absolute, "dir": dirname, "depth": depth, "files": ufiles}


def nontrivial(case, out):
    """At least one key is defined by two or more sources, or the outcome is a documented error."""
    if out.get("r") == "err":
        return True
    E = {py_env_path(k) for k, _ in case["env"]} - {None}
    trees = [set(flatten(f["tree"])) for f in case["files"]]
    allp = list(E) + [p for t in trees for p in t]
    return len(allp) != len(set(allp))


def mutate(rng, c):
    c = json.loads(json.dumps(c))
    if c["env"] and rng.random() < 0.5:
        c["env"].pop(rng.randrange(len(c["env"])))
    elif c["files"]:
        c["files"].pop(rng.randrange(len(c["files"])))
    return c


def run(R):
    R.assumptions += [
        "figment 0.10.19 (`Figment::merge`, `Env`, `Data::file`, strict `extract`), serde_yaml and the derived `Deserialize` impls: modelled as leaf-path maps, validated by this correspondence only",
        "environment variable names/values are valid UTF-8 without NUL/'='; values start with none of quote, '[' or '{' (figment's array/dict/quoted-string value syntax is outside the model; such values are generated only where they end up as plain strings)",
        "YAML leaves are booleans, 64-bit integers and strings; no empty dictionaries, sequences, nulls or floats in files",
        "POSIX `environ` order = order of `setenv` calls in a process that first removed every PX_* variable (needed only when two variables clash)",
    ]
    R.coverage["trusted_base"].append("the YAML emitter, the env/cwd handling and the error classifier of harness/crates/config/src/main.rs")
    root = pxvlib.scratch_dir("c18")
    env = pxvlib.env_offline()
    env["PXV_C18_ROOT"] = root
    for k in list(env):
        if k.strip().upper().startswith("PX_"):
            del env[k]
    try:
        pxvlib.differential(
            R, modules=["Pxv.Thm.C18"], model="config", pkg="config", gen=gen, oracle=oracle, nontrivial=nontrivial, mutate=mutate,
            impl_env=env, n_quick=4000, n_thorough=150000,
            rule="2 config structs (nested 3 deep, Option fields, one deny_unknown_fields) x every key assigned to a random subset of {base file, profile file, env} with distinct values x "
                 "profile selection {PX_PROFILE valid/invalid/unset/wrong-case, explicit} x configuration dir {default, relative, nested relative, absolute} x files at 0-3 ancestors "
                 "(nearest-wins decoys, other profiles' files, absent base/profile file) x env name casing / value padding / typed-looking strings / unknown and clashing keys; "
                 "non-trivial = some key defined by >= 2 sources or a documented error; distinct by full input",
        )
        if R.tier == "thorough" and not R.replay and not pxvlib.leanchecker(R, ["Pxv.Thm.C18"]):
            R.violation("leanchecker rejects Pxv.Thm.C18", {"theorem_modules": ["Pxv.Thm.C18"]}, no_failing_input=True)
    finally:
        shutil.rmtree(root, ignore_errors=True)
    R.coverage["observations"] = dict(OBS)
    R.notes.append("`Figment` treats a configuration file that does not exist as an empty source: a selected profile whose <profile>.yml is absent loads "
                   "like an empty profile (observed %d times in this run); 'a missing profile is an error' holds for the profile *selection* (PX_PROFILE unset/unknown), "
                   "which is what the documentation specifies. base.yml and <profile>.yml are searched independently in the ancestors of the working directory, so they "
                   "may come from different directories (observed %d times) although the guide says the search stops at the first matching *directory*."
                   % (OBS["selected_profile_file_absent_treated_as_empty"], OBS["base_and_profile_file_from_different_directories"]))
