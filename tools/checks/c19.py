"""C19 — what you register is what the compiler sees.

L2: Pxv/Thm/C19.lean over Pxv/Model/Bp.lean (builder -> schema) and Pxv/Model/Attr.lean (attribute emit/parse).
L3: harness/crates/c19 drives the real public `Blueprint` API (three distinct call sites per #[track_caller] entry point),
`Blueprint::persist`, `ron::de::from_reader` into `pavex_bp_schema::Blueprint` as `pavexc_cli::generate` does, and the real
`pavexc_attr_parser::parse`; the thorough tier additionally compiles a crate of items annotated with the real `pavex` macros and
feeds the attributes found in its rustdoc JSON to the parser.
The oracle below states the property directly in Python (every statement yields one component, in order; each property is the
one set by the last call that sets it; nested blueprints embedded unchanged; locations = call sites), independently of the model.
"""
import json
import os
import re
import subprocess

import pxvlib

# ---- generator: blueprint-building programs -----------------------------------------------------------

IDS = ["A", "B", "HANDLER_1", "my_ctor", "x", "É", "a\"b", "back\\slash", "new\nline", "(paren)", "#hash", "r#type", "", "😀"]
PKGS = ["app", "dep-x", "my_crate", "weird \"pkg\""]
VERS = ["0.1.0", "1.2.3-beta.1+build", "0.2.10"]
PREFIXES = ["/a", "/api/v1", "/{id}", "", "/", "/a\"b", "/späti", "/a\\b", "/tab\there", "/x/"]
DOMAINS = ["x.com", "{sub}.x.com", "{*any}.example.dev", "admin.x.com.", "not a domain", "", "日本.jp"]
MODULES = ["crate", "crate::routes", "super::handlers", "self", "dep_x", "dep_x::a::b", "weird \"mod\""]
MACROS = {"constructor": ["singleton", "request_scoped", "transient", "constructor"], "route": ["route", "get", "post"],
          "fallback": ["fallback"], "wrap": ["wrap"], "pre": ["pre_process"], "post": ["post_process"],
          "error_observer": ["error_observer"], "error_handler": ["error_handler"], "prebuilt": ["prebuilt"], "config": ["config"]}
LIFECYCLES = ["singleton", "request_scoped", "transient"]
CLONING = ["never_clone", "clone_if_necessary"]
LINTS = ["unused", "error_fallback"]


def coords(rng, kind):
    return [rng.choice(IDS), rng.choice(PKGS), rng.choice(VERS), rng.choice(MACROS[kind])]


def site(rng):
    return rng.randrange(3)


def gen_import(rng):
    src = None if rng.random() < 0.4 else [rng.choice(MODULES) for _ in range(rng.choice([0, 1, 2, 3]))]
    return {"sources": src, "rel": rng.choice(MODULES), "pkg": rng.choice(PKGS), "ver": rng.choice(VERS)}


def gen_rmods(rng, at_least_one=False):
    n = rng.choice([1, 1, 2, 2, 3, 4, 5] if at_least_one else [0, 0, 1, 1, 2, 2, 3, 5])
    out = []
    for _ in range(n):
        if rng.random() < 0.55:
            out.append(["prefix", rng.choice(PREFIXES), site(rng)])
        else:
            out.append(["domain", rng.choice(DOMAINS), site(rng)])
    return out


def gen_op(rng, depth, budget):
    r = rng.random()
    if r < 0.22:
        mods = []
        for _ in range(rng.choice([0, 0, 1, 2, 3, 5, 8])):
            m = rng.random()
            if m < 0.2:
                mods.append(["lifecycle", rng.choice(LIFECYCLES)])
            elif m < 0.35:
                mods.append(["cloning", rng.choice(CLONING)])
            elif m < 0.45:
                mods.append(["clone_if_necessary"])
            elif m < 0.55:
                mods.append(["never_clone"])
            elif m < 0.85:
                mods.append([rng.choice(["allow", "warn", "deny"]), rng.choice(LINTS)])
            else:
                mods.append(["error_handler", coords(rng, "error_handler"), site(rng)])
        return {"k": "constructor", "c": coords(rng, "constructor"), "s": site(rng), "mods": mods}
    if r < 0.42:
        k = rng.choice(["route", "route", "fallback", "wrap", "pre", "post"])
        ehs = [[coords(rng, "error_handler"), site(rng)] for _ in range(rng.choice([0, 0, 0, 1, 1, 2, 3]))]
        return {"k": k, "c": coords(rng, k), "s": site(rng), "ehs": ehs}
    if r < 0.50:
        k = rng.choice(["error_observer", "error_handler"])
        return {"k": k, "c": coords(rng, k), "s": site(rng)}
    if r < 0.58:
        mods = [rng.choice([["cloning", rng.choice(CLONING)], ["clone_if_necessary"], ["never_clone"]])
                for _ in range(rng.choice([0, 1, 2, 3]))]
        return {"k": "prebuilt", "c": coords(rng, "prebuilt"), "s": site(rng), "mods": mods}
    if r < 0.68:
        mods = [rng.choice([["cloning", rng.choice(CLONING)], ["clone_if_necessary"], ["never_clone"], ["default_if_missing"],
                            ["required"], ["include_if_unused"]]) for _ in range(rng.choice([0, 1, 2, 3, 5]))]
        return {"k": "config", "c": coords(rng, "config"), "s": site(rng), "mods": mods}
    if r < 0.76:
        return {"k": rng.choice(["import", "routes"]), "i": gen_import(rng), "s": site(rng)}
    if r < 0.82:
        return {"k": "nest_routes", "rmods": gen_rmods(rng, True), "i": gen_import(rng), "s": site(rng)}
    if depth >= 5 or budget[0] <= 0:
        return {"k": "error_observer", "c": coords(rng, "error_observer"), "s": site(rng)}
    return {"k": "nest", "rmods": gen_rmods(rng), "s": site(rng), "bp": gen_bp(rng, depth + 1, budget)}


def gen_bp(rng, depth=0, budget=None):
    if budget is None:
        budget = [rng.choice([3, 8, 15, 25, 40])]
    ops = []
    n = rng.choice([0, 1, 2, 3, 4, 6, 9]) if depth else rng.choice([1, 2, 4, 7, 12, 20])
    for _ in range(n):
        if budget[0] <= 0:
            break
        budget[0] -= 1
        ops.append(gen_op(rng, depth, budget))
    return {"s": site(rng), "ops": ops}


# ---- the property, in Python ------------------------------------------------------------------------

def L(name, s):
    return {"@loc": "%s#%d" % (name, min(s, 2))}


def coords_j(c):
    return {"id": c[0], "created_at": {"package_name": c[1], "package_version": c[2]}, "macro_name": c[3]}


def last(items, pred):
    out = None
    for it in items:
        v = pred(it)
        if v is not None:
            out = v
    return out


def cloning_of(m):
    if m[0] == "cloning":
        return m[1]
    if m[0] in ("clone_if_necessary", "never_clone"):
        return m[0]
    return None


def imp_j(i, loc):
    return {"sources": "all" if i["sources"] is None else {"some": list(i["sources"])}, "relative_to": i["rel"],
            "created_at": {"package_name": i["pkg"], "package_version": i["ver"]}, "registered_at": loc}


TAGS = {"route": "route", "fallback": "fallback_request_handler", "wrap": "wrapping_middleware",
        "pre": "pre_processing_middleware", "post": "post_processing_middleware"}


def expected_component(op):
    k, s = op["k"], op["s"]
    if k == "constructor":
        mods = op.get("mods", [])
        eh = last(mods, lambda m: {"coordinates": coords_j(m[1]), "registered_at": L("ctor_eh", m[2])} if m[0] == "error_handler" else None)
        lints = {}
        for lint in ("unused", "error_fallback"):
            v = last(mods, lambda m: m[0] if m[0] in ("allow", "warn", "deny") and m[1] == lint else None)
            if v is not None:
                lints[lint] = v
        return {"constructor": {"coordinates": coords_j(op["c"]),
                                "lifecycle": last(mods, lambda m: m[1] if m[0] == "lifecycle" else None),
                                "cloning_policy": last(mods, cloning_of), "error_handler": eh, "lints": lints,
                                "registered_at": L("constructor", s)}}
    if k in TAGS:
        eh = last(op.get("ehs", []), lambda e: {"coordinates": coords_j(e[0]), "registered_at": L(k + "_eh", e[1])})
        return {TAGS[k]: {"coordinates": coords_j(op["c"]), "registered_at": L(k, s), "error_handler": eh}}
    if k in ("error_observer", "error_handler"):
        return {k: {"coordinates": coords_j(op["c"]), "registered_at": L(k, s)}}
    if k == "prebuilt":
        return {"prebuilt_type": {"coordinates": coords_j(op["c"]), "cloning_policy": last(op.get("mods", []), cloning_of),
                                  "registered_at": L(k, s)}}
    if k == "config":
        mods = op.get("mods", [])
        return {"config_type": {"coordinates": coords_j(op["c"]), "cloning_policy": last(mods, cloning_of),
                                "default_if_missing": last(mods, lambda m: {"default_if_missing": True, "required": False}.get(m[0])),
                                "include_if_unused": last(mods, lambda m: True if m[0] == "include_if_unused" else None),
                                "registered_at": L(k, s)}}
    if k == "import":
        return {"import": imp_j(op["i"], L("import", s))}
    if k == "routes":
        return {"routes_import": imp_j(op["i"], L("routes", s))}
    rm = op.get("rmods", [])

    def rm_loc(idx, what):
        return L(what if idx == 0 else "rm_" + what, rm[idx][2])
    pidx = last(range(len(rm)), lambda i: i if rm[i][0] == "prefix" else None)
    didx = last(range(len(rm)), lambda i: i if rm[i][0] == "domain" else None)
    prefix = None if pidx is None else {"path_prefix": rm[pidx][1], "registered_at": rm_loc(pidx, "prefix")}
    domain = None if didx is None else {"domain": rm[didx][1], "registered_at": rm_loc(didx, "domain")}
    if k == "nest":
        return {"nested_blueprint": {"blueprint": expected_schema(op["bp"]), "path_prefix": prefix, "domain": domain,
                                     "nested_at": L("rm_nest" if rm else "nest", s)}}
    if k == "nest_routes":
        loc = L("rm_routes", s)
        return {"nested_blueprint": {"blueprint": {"creation_location": loc, "components": [{"routes_import": imp_j(op["i"], loc)}]},
                                     "path_prefix": prefix, "domain": domain, "nested_at": loc}}
    raise ValueError(k)


def expected_schema(bp):
    return {"creation_location": L("new", bp["s"]), "components": [expected_component(op) for op in bp["ops"]]}


def renumber(v, seen):
    if isinstance(v, dict):
        if list(v.keys()) == ["@loc"]:
            if v["@loc"] not in seen:
                seen.append(v["@loc"])
            return {"loc": seen.index(v["@loc"])}
        return {k: renumber(v[k], seen) for k in sorted(v.keys())}
    if isinstance(v, list):
        return [renumber(x, seen) for x in v]
    return v


def first_diff(a, b, path="$"):
    if type(a) != type(b):
        return "%s: %r vs %r" % (path, a, b)
    if isinstance(a, dict):
        for k in sorted(set(a) | set(b)):
            if k not in a or k not in b:
                return "%s.%s: only on one side" % (path, k)
            d = first_diff(a[k], b[k], path + "." + k)
            if d:
                return d
        return None
    if isinstance(a, list):
        if len(a) != len(b):
            return "%s: %d vs %d entries" % (path, len(a), len(b))
        for i, (x, y) in enumerate(zip(a, b)):
            d = first_diff(x, y, "%s[%d]" % (path, i))
            if d:
                return d
        return None
    return None if a == b else "%s: %r vs %r" % (path, a, b)


def depth_of(bp):
    return 1 + max([depth_of(op["bp"]) for op in bp["ops"] if op["k"] == "nest"] or [0])


def overrides(bp):
    n = 0
    for op in bp["ops"]:
        mods = op.get("mods", [])
        heads = [("cloning" if cloning_of(m) else m[0], m[1] if m[0] in ("allow", "warn", "deny") else None) for m in mods]
        n += len(heads) - len(set(map(str, heads)))
        n += max(0, len(op.get("ehs", [])) - 1)
        rm = op.get("rmods", [])
        n += max(0, len([m for m in rm if m[0] == "prefix"]) - 1) + max(0, len([m for m in rm if m[0] == "domain"]) - 1)
        if op["k"] == "nest":
            n += overrides(op["bp"])
    return n


# ---- attributes ------------------------------------------------------------------------------------

import checks.c19_attrs as attrs  # noqa: E402


def gen(rng):
    if rng.random() < 0.55:
        return {"op": "bp", "bp": gen_bp(rng)}
    return attrs.gen(rng)


def oracle(case, out):
    if case.get("op") == "attr":
        return attrs.oracle(case, out)
    if out.get("r") != "ok":
        return "blueprint did not survive persist + ron::de: %r" % (out,)
    exp = renumber(expected_schema(case["bp"]), [])
    d = first_diff(exp, out["schema"])
    if d:
        return "schema read back by the compiler differs from what was registered at " + d
    if not out.get("stable"):
        return "Blueprint::load + persist does not reproduce the persisted bytes"
    if out.get("overwrites_stale") is False:
        return "Blueprint::persist left a stale file of the same length in place: the compiler would read the old registrations"
    return None


def nontrivial(case, out):
    if case.get("op") == "attr":
        return attrs.nontrivial(case, out)
    return depth_of(case["bp"]) >= 2 or overrides(case["bp"]) >= 1


def mutate(rng, c):
    if c.get("op") == "attr":
        return attrs.mutate(rng, c)
    c = json.loads(json.dumps(c))
    ops = c["bp"]["ops"]
    if ops and rng.random() < 0.7:
        i = rng.randrange(len(ops))
        ops[i] = gen_op(rng, 1, [5])
    else:
        ops.append(gen_op(rng, 1, [5]))
    return c


def config_stage(R):
    """Configuration types through the real compiler (family tools/gen_config.py of the shared e2e stage): the generated
    `ApplicationConfig` must have a field for exactly the configuration types that are used or kept, and
    `#[serde(default)]` on exactly those that may be missing - where the registration (`bp.config(X).required()` ..)
    overrides the `#[pavex::config(..)]` attribute. Model-free oracle; a failing program is the replay."""
    import re
    import e2e_stage
    obs, info = e2e_stage.get_stage(R)
    n = nf = 0
    combos = {}
    ok = True
    for name, o in sorted(obs.items()):
        if o["klass"] != "config" or not o.get("spec"):
            continue
        n += 1
        if o["rc"] != 0:
            R.violation("a blueprint that only registers configuration types and one route was rejected by pavexc: %s" % o["out"][-300:],
                        {"program": name, "app_module_source": o["src"], "out": o["out"][-2000:]})
            ok = False
            continue
        m = re.search(r"pub struct ApplicationConfig\s*\{(.*?)\n\}", o["lib_rs"], re.S)
        body = m.group(1) if m else ""
        fields = {}
        pending_default = False
        for line in body.split("\n"):
            line = line.strip()
            if line.startswith("#[serde(default)]"):
                pending_default = True
            mm = re.match(r"pub (\w+):", line)
            if mm:
                fields[mm.group(1)] = pending_default
                pending_default = False
        for c in o["spec"]["configs"]:
            combos[(c["attr_default"], c["attr_include"], tuple(c["reg"]), c["used"])] = 1
            present = c["key"] in fields
            why = None
            if present != c["expect_present"]:
                why = "configuration key `%s` is %s the generated ApplicationConfig, expected %s (used=%s, attribute include_if_unused=%s, registration %s)" % (
                    c["key"], "in" if present else "missing from", "present" if c["expect_present"] else "absent", c["used"], c["attr_include"], c["reg"])
            elif present and fields[c["key"]] != c["expect_default"]:
                why = "configuration key `%s`: #[serde(default)] is %s, but the blueprint says %s (attribute default_if_missing=%s, registration %s: the registration wins)" % (
                    c["key"], "present" if fields[c["key"]] else "absent", "it may be missing" if c["expect_default"] else "it is required", c["attr_default"], c["reg"])
            if why:
                nf += 1
                ok = False
                if nf <= 2:
                    R.violation("what was registered is not what the compiler used: " + why,
                                {"program": name, "config": c, "application_config": body, "app_module_source": o["src"], "klass": "config"})
    R.coverage["config_types_e2e"] = {"programs": n, "distinct (attribute, registration, used) combinations": len(combos), "oracle_failures": nf}
    R.log("config family: %d programs, %d combinations, %d oracle failures" % (n, len(combos), nf))
    return ok


def run(R):
    R.assumptions += [
        "RON serialisation by Blueprint::persist and ron::de::from_reader (ron 0.12) + the serde derives of pavex_bp_schema are not "
        "modelled: they are assumed to be the identity on schema values and exercised by every `bp` case (strings with quotes, "
        "backslashes, newlines, non-ASCII, RON-significant characters)",
        "source locations are abstract call sites: the harness offers three textually distinct call sites per #[track_caller] entry "
        "point of the API; what is compared is which registrations share a location and in which order distinct locations appear",
        "proc-macro expansion (pavex_macros) is not executed in-process: the strings the macros emit are reconstructed from their "
        "quote! templates (model `emitAttr`); the thorough tier compiles a crate with the real macros and reads the attributes back "
        "from rustdoc JSON (format 57, installed nightly)",
        "attribute string values range over characters other than `\"` and `\\` (no escape sequences modelled)",
    ]
    extra_ok = True
    if os.environ.get("PXV_C19_E2E", "1") != "0" and not R.replay:
        extra_ok = config_stage(R) and extra_ok
        # nesting and domain guards reach the compiler intact: the guard an inner blueprint registers decides, in the
        # generated server, which Host reaches its routes (family gen_routes)
        import checks.domains_e2e as domains_e2e
        extra_ok = domains_e2e.domain_stage(R, "C19") and extra_ok
    bad = attrs.srcshape(R)
    if bad:
        R.violation("the macros' quote! templates no longer match the modelled attribute layout: " + "; ".join(bad)[:600],
                    {"srcshape": bad}, no_failing_input=True)
        extra_ok = False
    if os.environ.get("PXV_C19_RUSTDOC", "1") != "0":
        pxvlib.lean_build(["pxmodel"])      # the rustdoc stage drives both drivers before `differential` builds them
        hok, _ = pxvlib.build_harness(R, "c19")
        extra_ok = attrs.rustdoc_stage(R) if hok else False
    pxvlib.differential(
        R, modules=["Pxv.Thm.C19"], model="bp", pkg="c19", gen=gen, oracle=oracle, nontrivial=nontrivial, mutate=mutate,
        n_quick=6000, n_thorough=150000, extra_lean_ok=extra_ok,
        rule="55% blueprint-building programs (<= 40 statements, nesting depth <= 5; every registration kind with 0-8 chained modifier "
             "calls incl. repeated/overriding ones; prefix/domain chains of 0-5 calls ended by nest or routes; 3 call sites per API "
             "entry point; ids, prefixes, domains, module paths with quotes, backslashes, newlines, non-ASCII) -> schema after "
             "persist + ron::de, canonical JSON with locations numbered by first appearance; 45% attribute strings (every component "
             "kind x legal argument combinations as the macros emit them, plus mutated/malformed ones and multi-attribute items) -> "
             "parsed properties / error class. Non-trivial = program with nesting depth >= 2 or an overriding call; attribute case "
             "with >= 2 optional arguments or a rejected input; distinct by full input",
    )
