"""C02 — rule-abiding blueprints are accepted.

L2  lean/Pxv/Thm/C02.lean: canPlace_mono, exists_placeable_of_run, order_never_stuck_of_run — whenever the
    borrow-checked call graph admits some complete legal order, greedy placement never gets stuck
    (`unreachable!("stuck")` is dead), for every traversal strategy; order_never_stuck — in particular on
    every acyclic graph in which no non-Copy value is both taken by value and borrowed. PARTIAL: that the
    clone-insertion passes emit no diagnostic on in-class graphs and leave a graph with a legal order
    is not proved in Lean; it is checked on every in-class program of the run.
L3  oracle: every generated in-class application (and every corpus application marked accept) must be
    accepted by the real pavexc (exit 0, no error diagnostic).
"""
import json

import e2e_stage
import pxvlib
from checks import c01


def run(R):
    R.assumptions += [
        "in-class membership is by construction of the generator (tools/gen_app.py, klass='inclass'): every type is only borrowed, or moved by a single request-scoped constructor / by route handlers and never borrowed, or Copy, or Clone + clone-if-necessary; no cycles; singletons depend on singletons; routes distinct",
        "toolchain shim: installed nightly (rustdoc JSON format 57) instead of pavexc's pinned nightly",
    ]
    lean_ok, lrep = pxvlib.lean_obligations(R, ["Pxv.Thm.C02"])
    obs, info = e2e_stage.get_stage(R)
    R.coverage["e2e_stage"] = info
    must = [o for o in obs.values() if o["klass"] == "inclass" or (o["klass"] == "corpus" and (o.get("meta") or {}).get("expect") == "accept")]
    n_viol = 0
    lines, owner = [], []
    for o in must:
        if o["rc"] != 0:
            R.coverage["impl_vs_oracle_failures"] += 1
            n_viol += 1
            if n_viol <= 3:
                diag = [l for l in o["out"].split("\n") if "×" in l or "panicked" in l or "unreachable" in l][:4]
                R.violation("in-class application rejected by pavexc (rc=%s%s): %s" % (o["rc"], ", PANIC" if o["panicked"] else "", " / ".join(d.strip() for d in diag)[:300]),
                            {"program": o["name"], "klass": o["klass"], "corpus": o.get("corpus"), "spec": o["spec"],
                             "app_module_source": o["src"], "pavexc_output_tail": o["out"][-3000:]})
            continue
        for gi, (gin, gck, sigma) in enumerate(c01.graphs_of(o["dump"])):
            g, ren = c01.densify(gck)
            lines.append(json.dumps({"op": "check", "g": g, "sigma": [ren[x] for x in sigma]}))
            owner.append((o["name"], gi))
    outs = [json.loads(x) for x in pxvlib.run_model("cg", lines)] if lines else []
    hyp_fail, model_stuck, nontrivial = [], [], set()
    for (name, gi), ln, mo in zip(owner, lines, outs):
        req = json.loads(ln)
        if len(req["g"]["edges"]) >= 3 and any(k != "move" for _, _, k in req["g"]["edges"]):
            nontrivial.add(ln)
        if not (mo["isRun"] and mo["complete"] and mo["wf"]):
            model_stuck.append({"program": name, "graph": gi, "request": req, "why": "pavexc's order is not a complete run of the model"})
        if not (mo["noConflict"] and mo["wf"] and mo["isTopo"]):
            hyp_fail.append({"program": name, "graph": gi, "noConflict": mo["noConflict"], "isTopo": mo["isTopo"], "request": req})
        if not mo["modelOrderOk"]:
            model_stuck.append({"program": name, "graph": gi, "request": req})
    R.coverage["programs"] = len(must)
    R.coverage["evaluations"] = len(must) + len(lines)
    R.coverage["distinct_nontrivial"] = len(nontrivial)
    R.coverage["rule"] = ("in-class generated applications through the real pavexc (verdict), plus every ordered call graph of the accepted ones "
                          "evaluated by the model (hypotheses of order_never_stuck); non-trivial = distinct graph with >=3 edges and at least one borrow/happens-before edge")
    R.coverage["samples"] = [{"program": o["name"], "rc": o["rc"], "spec": o["spec"]} for o in must[:2]]
    R.coverage["graphs_outside_theorem_hypotheses"] = len(hyp_fail)
    R.log("in-class programs=%d rejected=%d graphs=%d outside-hypotheses=%d model-stuck=%d" % (len(must), n_viol, len(lines), len(hyp_fail), len(model_stuck)))
    broken = []
    if not lean_ok:
        broken.append("proof obligations of Pxv.Thm.C02 no longer check: %s" % (lrep.get("errors") or lrep.get("bad_axioms") or lrep.get("forbidden_tokens")))
    # graphs with a (consumed and borrowed) value are covered by order_never_stuck_of_run (a legal order
    # exists: pavexc's own, checked to be a run by C01); the count is reported, it is not an alarm
    if model_stuck:
        broken.append("correspondence `order`: the model's ordering is stuck on a graph pavexc ordered: %s" % json.dumps(model_stuck[0])[:400])
    R.coverage["model_vs_impl_disagreements"] = len(model_stuck)
    if broken and n_viol == 0:
        R.violation(" | ".join(broken), {"broken": broken, "theorem_module": "Pxv.Thm.C02"}, no_failing_input=True)
