"""C16 — graceful shutdown drains in-flight requests and stops accepting new ones.

L1/L2: Pxv/Model/Server.lean (transition system: acceptor, n workers, any number of connections),
       Pxv/Thm/C16.lean (invariants for ALL schedules).
L3:    the REAL `pavex::server::Server` is run in-process (harness/crates/c16) under a generated loopback
       load; `cfg(pavex_verif)` trace points record a totally ordered event trace. Each trace must be a
       run of the Lean `step` (trace conformance, decided by the compiled Lean driver) and what the
       model says happened must match what the clients saw. An independent client-side oracle checks
       the property itself. Structural facts the theorems rely on are re-extracted from the source.
       Interleavings that timing alone (almost) never produces are FORCED: the hook has one-shot failpoints
       (`verif_trace::gate`) at every point of Worker::run where another thread's action can overtake the
       worker's next step; a scenario can park a worker (or the acceptor) there, issue the shutdown, wait until
       the command sits in the parked worker's inbox, and only then let it go on (`gen_park`).
"""
import json
import os
import re
import subprocess

import pxvlib

MODULES = ["Pxv.Thm.C16"]
PKG = "c16"
PAR = 4                # harness processes run side by side
EPS_MS = 300           # scheduling noise allowance for every time bound
MARGIN_MS = 150        # a handler must finish this long before the timeout for an answer to be demanded


# ---- source-shape extraction (DESIGN 3.2) -----------------------------------------------------------

def _order(text, *needles):
    """All needles occur, in this order (first occurrences after the previous one)."""
    pos = 0
    for n in needles:
        i = text.find(n, pos)
        if i < 0:
            return False
        pos = i + len(n)
    return True


def _fn_body(text, header):
    i = text.find(header)
    if i < 0:
        return ""
    j = text.find("{", i)
    depth, k = 0, j
    while k < len(text):
        if text[k] == "{":
            depth += 1
        elif text[k] == "}":
            depth -= 1
            if depth == 0:
                return text[j:k + 1]
        k += 1
    return ""


def _strip_rust_comments(t):
    t = re.sub(r"/\*.*?\*/", "", t, flags=re.S)
    return "\n".join(l.split("//")[0] for l in t.split("\n"))


def source_shape():
    """Structural facts the model/theorems rely on, read off the Rust text. Returns (facts, problems)."""
    worker = _strip_rust_comments(pxvlib.src_text("runtime/pavex/src/server/worker.rs"))
    handle = _strip_rust_comments(pxvlib.src_text("runtime/pavex/src/server/server_handle.rs"))
    facts, bad = {}, []

    def fact(name, ok):
        facts[name] = bool(ok)
        if not ok:
            bad.append(name)

    wp = _fn_body(worker, "fn poll_inboxes(")
    fact("worker.poll_inboxes: shutdown inbox polled before connection inbox",
         wp and _order(wp, "shutdown_inbox.poll_recv(cx)", "connection_inbox.poll_recv(cx)")
         and wp.count("poll_recv(cx)") == 2)
    ap = _fn_body(handle, "fn poll_inboxes(")
    fact("acceptor.poll_inboxes: command inbox polled before accept join set",
         ap and _order(ap, "server_command_inbox.poll_recv(cx)", "incoming_join_set.poll_join_next(cx)"))
    run = _fn_body(worker, "async fn run(self)")
    g = run[run.find("ShutdownMode::Graceful"):run.find("ShutdownMode::Forced")] if run else ""
    fact("worker.run Graceful: close() precedes the drain loop, which precedes GracefulShutdown::shutdown()",
         g and _order(g, "connection_inbox.close();", "while let Some(connection) = connection_inbox.recv().await",
                      "handle_connection(", "shutdown_coordinator.shutdown()"))
    yields = bool(g) and _order(g, "while let Some(connection) = connection_inbox.recv().await",
                                "tokio::task::yield_now().await;", "shutdown_coordinator.shutdown()")
    facts["worker.run Graceful: yields to the LocalSet between the drain loop and the shutdown signal"] = yields
    if yields:
        # ... as a statement of the Graceful arm itself (same nesting depth as the drain loop), not inside a
        # conditional / loop / closure: the model's `YieldPolicy.always`
        i_loop = g.find("while let Some(connection) = connection_inbox.recv().await")
        i_yield = g.find("tokio::task::yield_now().await;", i_loop)
        depth = lambda i: g.count("{", 0, i) - g.count("}", 0, i)
        fact("worker.run Graceful: that yield is unconditional (a statement at the nesting depth of the drain loop)",
             depth(i_yield) == depth(i_loop) and g[:i_yield].rstrip(" ").endswith("\n"))
    forced = run[run.find("ShutdownMode::Forced"):] if run else ""
    fact("worker.run Forced: no wait before the completion notification",
         forced and re.match(r"ShutdownMode::Forced\s*=>\s*\{\s*\}", forced) is not None)
    fact("worker.run: notification is sent after the mode-specific work, then the loop is left",
         run and _order(run, "ShutdownMode::Forced", "completion_notifier.send(())", "break 'event_loop"))
    sh = _fn_body(handle, "async fn shutdown(\n        completion_notifier")
    fact("acceptor.shutdown: listeners dropped, then a command to every worker, then (Graceful only) a bounded wait, then notify",
         sh and _order(sh, "drop(incoming_join_set);", "for worker_handle in worker_handles",
                       "worker_handle.shutdown(mode2)", "if let ShutdownMode::Graceful { timeout } = mode",
                       "tokio::time::timeout(timeout,", "completion_notifier.send(())"))
    arun = _fn_body(handle, "async fn run(self)")
    fact("acceptor.run: returns right after Acceptor::shutdown (command inbox dropped => handle future resolves)",
         arun and re.search(r"Self::shutdown\([^;]*\)\s*\.await;\s*(#\[cfg\(pavex_verif\)\]\s*[^;]*;\s*)?return;", arun, flags=re.S) is not None)
    fact("acceptor.run: next_worker advances only when try_send fails",
         arun and arun.count("next_worker = (next_worker + 1) % n_workers;") == 1
         and _order(arun, "Err(e) =>", "next_worker = (next_worker + 1) % n_workers;", "has_been_handled = true;"))
    m = re.search(r"let max_queue_length = (\d+);", handle)
    cap = int(m.group(1)) if m else None
    fact("acceptor: max_queue_length is a literal", cap is not None)
    into = handle[handle.find("impl IntoFuture for ServerHandle"):]
    fact("ServerHandle::into_future awaits command_outbox.closed()", "self.command_outbox.closed().await" in into[:600])
    return facts, bad, cap, yields


# ---- generator ----------------------------------------------------------------------------------------

def gen(rng):
    n = rng.choice([1, 1, 2, 2, 3, 4, 8])
    mode = "graceful" if rng.random() < 0.72 else "forced"
    T = rng.choice([250, 400, 700])
    style = rng.choice(["plain", "plain", "blocked", "blocked", "blocked", "overflow", "lateack"])
    conns, gates = [], []
    if style == "lateack":
        # one worker never becomes idle, another one does so late (a long handler that still finishes before the
        # timeout): the shutdown future is due at the timeout, counted from the call and not from the last acknowledgement
        n, mode, T = max(n, 2), "graceful", 700

    def pre_plain():
        d = rng.choice([20, 60, 120, T + 300])
        return rng.choice([[], [["f"]], [["s", d]], [["f"], ["s", d]], [["f"], ["f"]], [["s", d]]])

    if style == "plain":
        for _ in range(rng.randrange(0, 7)):
            conns.append({"pre": pre_plain(), "post": rng.choice([[], [], [["f"]]])})
    else:
        # connection 0 parks worker 0's thread inside a blocking handler: everything dispatched
        # afterwards queues up behind it (and overflows to the next worker past the capacity)
        for _ in range(rng.randrange(0, 3)):
            conns.append({"pre": rng.choice([[["f"]], [["s", rng.choice([20, 60, T + 300])]], []]), "post": []})
        gates.append(rng.choice([-2, -2, 0, 30, 80, 80, T + 200, -1]) if style != "lateack" else rng.choice([-1, T + 400]))
        conns.append({"pre": [["b", 0]], "post": []})
        q = rng.randrange(1, 8) if style == "blocked" else rng.randrange(14, 22) if style == "overflow" else 16
        for _ in range(q):
            conns.append({"pre": rng.choice([[["f"]], [["f"]], [["s", rng.choice([20, 60])]], []]), "post": []})
        if style == "lateack":
            for _ in range(rng.randrange(1, 3)):
                conns.append({"pre": [["s", rng.choice([350, 450, 500])]], "post": []})
        if style == "overflow" and n >= 2 and rng.random() < 0.5:
            # park the second worker too
            gates.append(rng.choice([-2, 30, -1]))
            conns.append({"pre": [["b", 1]], "post": []})
            for _ in range(rng.randrange(1, 5)):
                conns.append({"pre": [["f"]], "post": []})
    for _ in range(rng.choice([0, 0, 1, 2, 3])):
        conns.append({"pre": rng.choice([[["f"]], [["s", 30]], []]), "post": [], "race": True})
    case = {"workers": n, "mode": mode, "timeout_ms": T, "conns": conns, "gates": gates,
            "call_delay_us": rng.choice([0, 0, 0, 200, 1000, 5000])}
    if rng.random() < 0.12:
        case["second_call"] = {"mode": rng.choice(["graceful", "forced"]), "timeout_ms": 100,
                               "delay_ms": rng.choice([0, 5, T + 400])}
    return case


CONN_POINTS = ["after_recv", "after_spawn", "acc_after_accept"]
CALL_POINTS = ["after_shutdown", "after_close", "after_drain", "after_drain_end", "before_signal", "before_notify"]


def gen_park(rng):
    """Scenarios with scheduling control: a worker (or the acceptor) is parked at a failpoint while the shutdown
    command overtakes what it holds."""
    n = rng.choice([1, 1, 1, 2, 3])
    mode = "graceful" if rng.random() < 0.85 else "forced"
    T = rng.choice([250, 400, 700])
    kind = rng.choice(["held", "held", "held", "held", "held+queued", "held+queued", "blocked+held", "path", "path"])
    conns, gates, parks = [], [], []
    small = lambda: rng.choice([[["f"]], [["f"]], [["s", rng.choice([20, 60])]], []])

    def path_parks(k):
        for _ in range(k):
            parks.append({"point": rng.choice(CALL_POINTS), "conn": None, "worker": rng.choice([0, 0, 0, None]),
                          "after": "parked", "ms": rng.choice([0, 0, 5, 30, 80])})

    if kind in ("held", "held+queued"):
        for _ in range(rng.choice([0, 0, 1, 2])):
            conns.append({"pre": rng.choice([[["f"]], [["s", rng.choice([20, 60, T + 300])]], [], [["f"], ["f"]]]),
                          "post": rng.choice([[], [], [["f"]]])})
        point = rng.choice(["after_recv", "after_recv", "after_spawn", "after_spawn", "after_spawn", "acc_after_accept"])
        after = rng.choice(["cmd", "cmd", "cmd", "cmd", "cmd", "call", "before_call"])
        ms = rng.choice([0, 0, 0, 3, 20, 60]) if after != "call" else rng.choice([0, 30, 30, T + 200])
        parks.append({"point": point, "conn": len(conns), "after": after, "ms": ms})
        conns.append({"pre": rng.choice([[["f"]], [["f"]], [["f"]], [["s", rng.choice([20, 60])]], []]), "post": []})
        if point == "acc_after_accept" and rng.random() < 0.5:
            conns[-1]["pre"] = []
        if kind == "held+queued" and point != "acc_after_accept":
            for _ in range(rng.choice([1, 1, 2, 4])):
                conns.append({"pre": small(), "post": []})
        if rng.random() < 0.25:
            path_parks(1)
    elif kind == "blocked+held":
        # connection 0 parks the worker inside a blocking handler, the others queue behind it; once the handler is
        # released the regular loop takes the next one and is parked right after spawning it, the rest still queued
        gates.append(rng.choice([-2, -2, 0, 30]))
        conns.append({"pre": [["b", 0]], "post": []})
        parks.append({"point": rng.choice(["after_recv", "after_spawn"]), "conn": 1,
                      "after": rng.choice(["cmd", "cmd", "call"]), "ms": rng.choice([0, 0, 10, 40])})
        for _ in range(rng.randrange(1, 5)):
            conns.append({"pre": small(), "post": []})
    else:
        if rng.random() < 0.5:
            gates.append(rng.choice([-2, 0, 30]))
            conns.append({"pre": [["b", 0]], "post": []})
        for _ in range(rng.randrange(1, 5)):
            conns.append({"pre": rng.choice([[["f"]], [["s", rng.choice([20, 60, T + 300])]], [], [["f"], ["f"]]]),
                          "post": rng.choice([[], [], [["f"]]])})
        path_parks(rng.choice([1, 1, 2]))
    for _ in range(rng.choice([0, 0, 0, 1, 2])):
        conns.append({"pre": rng.choice([[["f"]], [["s", 30]], []]), "post": [], "race": True})
    return {"workers": n, "mode": mode, "timeout_ms": T, "conns": conns, "gates": gates, "parks": parks,
            "call_delay_us": rng.choice([0, 0, 0, 200, 1000])}


# ---- oracle (needs no model) --------------------------------------------------------------------------

def _idx(trace, pred, start=0):
    for i in range(start, len(trace)):
        if pred(trace[i]):
            return i
    return None


def _held_as(tr, ci, w):
    """Where connection `ci` was when worker `w` took its shutdown command (read off the raw trace)."""
    i_ws = _idx(tr, lambda e: e[0] == "wShutdown" and e[1] == w)
    if i_ws is None:
        return "worker %d never took the command" % w
    before = tr[:i_ws]
    if _idx(before, lambda e: e[0] == "cPoll" and e[1] == ci) is not None:
        return "already polled when worker %d took the command" % w
    if _idx(before, lambda e: e[0] == "wRecv" and e[2] == ci) is not None:
        return "taken off the queue by worker %d's regular loop (spawned, or about to be) but not yet polled when it took the command" % w
    return "still queued in worker %d's inbox when it took the command" % w


def oracle(case, out):
    """The property, checked on what the clients saw, on the clock and on the raw trace."""
    if out.get("r") != "ok":
        return None
    tr, obs, tm = out["trace"], out["obs"], out["timing"]
    tus = tm["tus"]
    T = case["timeout_ms"] if case["mode"] == "graceful" else 0
    graceful = case["mode"] == "graceful"
    if obs["stall"]:
        return None  # the load could not be set up as scripted: nothing to judge
    i_call = _idx(tr, lambda e: e[0] == "call")
    i_ret = _idx(tr, lambda e: e[0] == "returned" and e[1] == 0)
    if i_call is None:
        return "the shutdown call was never recorded"
    # (5) both futures resolve
    if not obs["returned"] or i_ret is None:
        return "ServerHandle::shutdown(%s) did not resolve within timeout + 3 s" % case["mode"]
    if not obs["handle_done"]:
        return "awaiting the ServerHandle did not resolve within 2 s after shutdown returned"
    if case.get("second_call") and not obs["second_returned"]:
        return "a second shutdown call never resolved"
    ret_ms = tm["returned_us"] / 1000.0
    # (3) resolution time: timeout + eps; Forced: eps
    if ret_ms > T + EPS_MS:
        return "shutdown(%s) resolved after %.0f ms > timeout %d ms + %d ms" % (case["mode"], ret_ms, T, EPS_MS)
    if tm["handle_us"] / 1000.0 > ret_ms + EPS_MS:
        return "the ServerHandle future resolved %.0f ms after shutdown returned" % (tm["handle_us"] / 1000.0 - ret_ms)
    # (1) no new connection is accepted once the acceptor took the command / after shutdown returned
    i_acc = _idx(tr, lambda e: e[0] == "accShutdown")
    if i_acc is not None and _idx(tr, lambda e: e[0] in ("accept", "dispatch"), i_acc) is not None:
        return "a connection was accepted/dispatched after the acceptor took the shutdown command"
    if obs["probes"] and obs["probes"][0] == "answered":
        return "a connection made after shutdown returned was served"
    if len(obs["probes"]) > 1 and obs["probes"][1] != "refused":
        return "connect() 100 ms after shutdown returned: %s" % obs["probes"][1]
    if i_acc is not None and tr[i_acc][1] != case["mode"]:
        return None  # a concurrent second call won the race for the command inbox: the rest judges the first call's mode
    # which worker got which connection, which workers are parked by a blocking handler at the call
    worker_of = {e[1]: e[2] for e in tr[:i_call] if e[0] == "dispatch" and e[3] == "ok"}
    gate_rel = []
    for g in case["gates"]:
        gate_rel.append(0 if g == -2 else (None if g == -1 else g))  # ms after the call; None = never
    blocked_until = {}  # worker -> ms after call until which its thread may be parked (None = forever)
    for ci, c in enumerate(case["conns"]):
        if ci in worker_of:
            for rq in c.get("pre", []):
                if rq[0] == "b":
                    w = worker_of[ci]
                    r = gate_rel[rq[1]]
                    if w in blocked_until and (blocked_until[w] is None or r is None):
                        blocked_until[w] = None
                    else:
                        blocked_until[w] = max(blocked_until.get(w, 0), r) if r is not None else None
    # a thread parked at a failpoint: like a blocking handler, until the (measured) moment of its release;
    # the acceptor's thread also runs the I/O driver of every connection: parked, nothing is read or written
    for pk in obs.get("parks", []):
        if not pk["hit"] or pk["released_us"] is None:
            continue
        r = pk["released_us"] / 1000.0
        for w in (range(case["workers"]) if pk["worker"] < 0 else [pk["worker"]]):
            if blocked_until.get(w, 0) is not None:
                blocked_until[w] = max(blocked_until.get(w, 0), r)
    # A connection the ACCEPTOR was parked with: its request reaches the socket while the thread that runs the
    # I/O driver of every connection is parked, so whether the connection's first poll already sees the request
    # is decided by a race the failpoint created (readiness is delivered only when the acceptor thread next
    # turns its driver). "Received before the call" cannot be established from outside: nothing is demanded.
    acc_held = {p.get("conn") for p in case.get("parks", []) if p["point"] == "acc_after_accept"}
    # (2) every request received before the call is answered in full if its handler finishes in time
    all_idle = max([0.0] + [pk["released_us"] / 1000.0 for pk in obs.get("parks", []) if pk["hit"] and pk["released_us"] is not None])
    for ci, c in enumerate(case["conns"]):
        o = obs["conns"][ci]
        if c.get("race") or ci not in worker_of or ci in acc_held:
            continue
        w = worker_of[ci]
        for k, rq in enumerate(c.get("pre", [])):
            if k >= o["written_at_call"]:
                break
            if k < o["responses_at_call"]:
                continue
            start = blocked_until.get(w, 0)
            dur = 0 if rq[0] == "f" else (rq[1] if rq[0] == "s" else gate_rel[rq[1]])
            fin = None if (start is None or dur is None) else (max(start, dur) if rq[0] == "b" else start + dur)
            if fin is None:
                all_idle = None
            elif all_idle is not None:
                all_idle = max(all_idle, fin)
            if graceful and fin is not None and fin <= T - MARGIN_MS and o["responses"] <= k:
                began = _idx(tr, lambda e: e[0] == "hBegin" and e[1] == ci and e[2] == k) is not None
                return ("graceful shutdown (timeout %d ms): request %d on connection %d was sent before the call "
                        "(connection %s), its handler needs until ~%d ms after the call, "
                        "but the client never got the response (handler %s)" % (
                            T, k, ci, _held_as(tr, ci, w), fin, "ran" if began else "never invoked"))
    # (4) it resolves ONCE all workers are idle: not later ...
    racing_work = any(c.get("race") and c.get("pre") for c in case["conns"]) or any(c.get("post") for c in case["conns"])
    if graceful and all_idle is not None and not racing_work and ret_ms > min(T, all_idle) + EPS_MS:
        return "all work was done ~%d ms after the call but graceful shutdown resolved only after %.0f ms" % (all_idle, ret_ms)
    # ... and not earlier (unless the timeout fired)
    if graceful and ret_ms < T - 50:
        for i in range(i_ret):
            e = tr[i]
            if e[0] == "hBegin" and _idx(tr[:i_ret], lambda x: x[0] in ("hEnd",) and x[1] == e[1] and x[2] == e[2]) is None \
                    and _idx(tr[:i_ret], lambda x: x[0] == "cEnd" and x[1] == e[1]) is None:
                return "graceful shutdown resolved after %.0f ms (< timeout %d ms) while the handler of request %d on connection %d was still running" % (ret_ms, T, e[2], e[1])
    if not obs["teardown"]:
        return "a worker/acceptor thread or a connection task was still alive 4 s after everything was released"
    return None


HARNESS_EVENTS = ("gate", "park", "unpark")   # recorded by the harness / the failpoints, not part of the model's alphabet


def worker_met(mo):
    """What each worker held at the moment it took its Graceful command (from the model's replay)."""
    out = []
    for m in mo.get("at_wshutdown") or []:
        if m["mode"] != "graceful":
            continue
        held = [k for k in ("queued", "spawned", "idle", "inflight") if m[k] > 0]
        out.append("+".join(held) if held else "nothing")
    return out


def classify(case, mout):
    """What the shutdown command met (from the model's snapshot when the acceptor took it)."""
    snap = mout.get("at_shutdown") or []
    return sorted({c["phase"] for c in snap})


# ---- running -------------------------------------------------------------------------------------------

def run_impl_parallel(lines):
    chunks = [lines[i::PAR] for i in range(PAR)]
    procs = []
    for ch in chunks:
        if not ch:
            procs.append(None)
            continue
        p = subprocess.Popen([pxvlib.harness_exe(PKG), "server"], stdin=subprocess.PIPE, stdout=subprocess.PIPE,
                             stderr=subprocess.PIPE, text=True, env=pxvlib.env_offline())
        procs.append(p)
    outs = []
    import threading
    res = [None] * PAR

    def feed(i):
        p = procs[i]
        if p is None:
            res[i] = []
            return
        o, e = p.communicate("\n".join(chunks[i]) + "\n", timeout=3600)
        if p.returncode != 0:
            raise RuntimeError("c16 harness failed rc=%d: %s" % (p.returncode, e[-2000:]))
        res[i] = o.split("\n")[:-1]
    ths = [threading.Thread(target=feed, args=(i,)) for i in range(PAR)]
    [t.start() for t in ths]
    [t.join() for t in ths]
    outs = [None] * len(lines)
    for i in range(PAR):
        for k, o in enumerate(res[i] or []):
            outs[i + k * PAR] = o
    return outs


def evaluate(R, cases, cap, yields):
    """Runs the cases on the real server and the traces through the Lean model."""
    lines = [json.dumps(c, sort_keys=True) for c in cases]
    impl = run_impl_parallel(lines)
    mlines, iouts = [], []
    for c, o in zip(cases, impl):
        try:
            io = json.loads(o)
        except Exception:
            io = {"r": "unparseable", "raw": o}
        iouts.append(io)
        tr = [e for e in io.get("trace", []) if e[0] not in HARNESS_EVENTS]
        mlines.append(json.dumps({"cfg": {"n": c["workers"], "cap": cap, "yield": "always" if yields else "never"},
                                  "conns": len(c["conns"]), "trace": tr}))
    try:
        mouts = [json.loads(x) for x in pxvlib.run_model("server", mlines)]
    except Exception as e:
        R.log("model driver failed:", e)
        mouts = [{"r": "model-unavailable"}] * len(cases)
    return iouts, mouts


def disagreement(case, io, mo):
    """model vs implementation: the recorded trace must be a run of `step` and the model's account of it
    must match what the clients saw."""
    if io.get("r") != "ok":
        return None
    if mo.get("r") != "ok":
        return "model driver: %s" % mo.get("r")
    tr = [e for e in io["trace"] if e[0] not in HARNESS_EVENTS]
    if not mo["conforms"]:
        i = mo["bad_at"]
        return "trace is not a run of the model: event #%d %s impossible after %s" % (
            i, json.dumps(tr[i]), json.dumps(tr[max(0, i - 6):i]))
    full, tus = io["trace"], io["timing"]["tus"]
    t_exit = [t for e, t in zip(full, tus) if e[0] == "accExit"]
    for ci, (m, o) in enumerate(zip(mo["conns"], io["obs"]["conns"])):
        # a handler finishing within 5 ms of the acceptor's exit races with the drop of its runtime (which owns
        # the sockets' I/O registration): either outcome is a run of the real code, do not compare
        if t_exit and any(e[0] == "hEnd" and e[1] == ci and abs(t - t_exit[0]) < 5000 for e, t in zip(full, tus)):
            continue
        if m["served"] != o["responses"] + o["bad"]:
            return "connection %d: model says %d requests were served, the client got %d responses" % (ci, m["served"], o["responses"])
    if mo["resolved"] != io["obs"]["returned"] or mo["handle_done"] != io["obs"]["handle_done"]:
        return "model resolved=%s handle_done=%s, implementation returned=%s handle_done=%s" % (
            mo["resolved"], mo["handle_done"], io["obs"]["returned"], io["obs"]["handle_done"])
    return None


def nontrivial(case, io, mo):
    """The shutdown command met at least one connection that was queued at a worker, spawned but unpolled,
    mid-handler or idle keep-alive."""
    if io.get("r") != "ok" or mo.get("r") != "ok" or not mo.get("at_shutdown"):
        return False
    return any(c["phase"] in ("queued", "spawned", "inflight", "idle", "accepted") for c in mo["at_shutdown"])


def match_known(R, case, why):
    for f in R.known_findings():
        m = f.get("match", {})
        if m.get("mode") == case["mode"] and m.get("why_contains", "\0") in why:
            return f
    return None


def run(R):
    R.assumptions += [
        "tokio mpsc/oneshot/watch channels, LocalSet scheduling (one `yield_now` lets every task spawned before it run once) and timers behave as the guards of Pxv.Server.step say",
        "hyper / hyper-util: a watched connection first polled after GracefulShutdown's signal is dropped unread; one polled before it with a complete request on its socket invokes the handler in that poll; an in-flight response is completed before the connection closes; an idle connection starts no request after the signal",
        "the recorder lock makes try_send/close/poll_recv/oneshot-send atomic with their trace record; the trace points themselves are add-only cfg(pavex_verif) code",
        "loopback TCP on this machine; every time bound carries a %d ms allowance" % EPS_MS,
    ]
    R.coverage["trusted_base"] += [
        "cfg(pavex_verif) trace points and failpoints (verif_trace::gate) in runtime/pavex/src/server/{server_handle,worker,verif_trace}.rs (hook commits); trace conformance is testing, not proof; "
        "a failpoint only blocks a thread (std Condvar, 5 s cap) between two statements: every execution with a failpoint is an execution the unmodified code can exhibit with an unlucky scheduler",
        "tools/checks/c16.py source_shape(): regex extraction of the structural facts (poll order, close-before-drain, yield-before-signal, queue capacity)",
    ]
    facts, bad_facts, cap, yields = source_shape()
    R.coverage["source_shape"] = facts
    R.coverage["explanation"] = ("PARTIAL claim: the theorems are about the transition-system model of pavex's acceptor/worker code for all "
                                 "schedules; tokio and hyper behaviour is assumed (see assumptions) and validated by trace conformance only")
    lean_ok, lrep = pxvlib.lean_obligations(R, MODULES)
    hok, hout = pxvlib.build_harness(R, PKG)
    if not hok:
        R.violation("harness does not build against the current tree (broken tie)", {"cargo_output_tail": hout[-3000:]}, no_failing_input=True)
        return
    if cap is None:
        cap = 15
    n = 110 if R.tier == "quick" else 1500
    n_park = 70 if R.tier == "quick" else 800
    if R.replay:
        rp = json.load(open(R.replay))["replay"]
        base = rp.get("cases") or ([rp["case"]] if "case" in rp else [])
        cases = [c for c in base for _ in range(5)]
        n_corpus = 0
    else:
        cases = [json.loads(l) for l in pxvlib.corpus_lines(R.prop)]
        n_corpus = len(cases)
        cases += [gen(R.rng) for _ in range(n)]
        cases += [gen_park(R.rng) for _ in range(n_park)]
    iouts, mouts = evaluate(R, cases, cap, yields)
    failures, disagreements, seen, hist, met = [], [], set(), {}, {}
    wmet, park_hits, park_armed = {}, {}, {}
    skipped = 0
    for i, (c, io, mo) in enumerate(zip(cases, iouts, mouts)):
        kind = io.get("r", "?")
        if kind == "ok" and io["obs"]["stall"]:
            kind = "stall"
        hist[kind] = hist.get(kind, 0) + 1
        if kind != "ok":
            skipped += 1
            if kind not in ("stall", "port-reuse"):
                failures.append((i, "harness answer %r" % (io,)))
            continue
        why = oracle(c, io)
        if why:
            failures.append((i, why))
        d = disagreement(c, io, mo)
        if d:
            disagreements.append((i, d))
        for pk in io["obs"].get("parks", []):
            park_armed[pk["point"]] = park_armed.get(pk["point"], 0) + 1
            if pk["hit"]:
                park_hits[pk["point"]] = park_hits.get(pk["point"], 0) + 1
        if mo.get("r") == "ok":
            for h in worker_met(mo):
                wmet[h] = wmet.get(h, 0) + 1
        if nontrivial(c, io, mo):
            key = json.dumps([c["workers"], c["mode"], sorted((x["phase"], x["worker"]) for x in mo["at_shutdown"]),
                              sorted(worker_met(mo))])
            seen.add(key)
            for ph in classify(c, mo):
                met[ph] = met.get(ph, 0) + 1
    R.coverage.update({
        "evaluations": len(cases), "distinct_nontrivial": len(seen),
        "traces_validated_against_impl": sum(1 for io in iouts if io.get("r") == "ok"),
        "rule": "generated loopback scenarios on the real server: 1-8 workers x {graceful(250/400/700 ms), forced} x {plain load, worker thread parked by a blocking handler "
                "with connections queued behind it, queue overflow onto the next worker} x connections {no request, fast, async sleep shorter/longer than the timeout, keep-alive "
                "with a second request, request sent after the call, connection opened while shutting down} x gate release {before the call, 0-80 ms after, after the timeout, never} "
                "x optional second shutdown call; PLUS scheduling control (gen_park): a worker parked at a failpoint right after it took a connection off its queue / right after it "
                "spawned it (the acceptor: right after accept) with {nothing, more connections} queued behind it, released {once the shutdown command sits in its inbox (+0-60 ms), "
                "k ms after the call, after the timeout, before the call}, and workers parked on the shutdown path (after taking the command, after close(), inside and after the "
                "drain loop, between the yield and the signal, before the notification); non-trivial = the shutdown command met at least one connection that was queued, spawned-unpolled, mid-handler or idle; "
                "distinct by (workers, mode, multiset of (connection phase, worker) at the moment the acceptor took the command)",
        "outcome_histogram": hist, "input_stats": {"corpus": n_corpus, "generated": len(cases) - n_corpus, "skipped_inconclusive": skipped},
        "connection_phases_met_by_the_command": met,
        "held_by_a_worker_when_it_took_the_graceful_command": wmet,
        "failpoints": {"armed": park_armed, "a_thread_was_parked_there": park_hits},
        "model_vs_impl_disagreements": len(disagreements), "impl_vs_oracle_failures": len(failures),
    })
    step = max(1, len(cases) // 4)
    R.coverage["samples"] = [{"in": cases[i], "trace": iouts[i].get("trace"), "clients": iouts[i].get("obs")}
                             for i in range(0, len(cases), step)][:4]
    R.log("cases=%d nontrivial=%d disagreements=%d oracle_failures=%d hist=%s met=%s" % (
        len(cases), len(seen), len(disagreements), len(failures), hist, met))
    R.log("worker took Graceful holding: %s; failpoints hit: %s" % (wmet, park_hits))
    # the scheduling control must be effective: the interleavings it exists for were actually produced
    have = {"spawned, empty queue": sum(v for k, v in wmet.items() if "spawned" in k and "queued" not in k),
            "spawned and queued": sum(v for k, v in wmet.items() if "spawned" in k and "queued" in k)}
    R.coverage["forced_interleavings"] = have
    if not R.replay and not failures and not disagreements:
        need = {"spawned, empty queue": 5, "spawned and queued": 2}
        missing = {k: have[k] for k, v in need.items() if have[k] < (v if R.tier == "quick" else 10 * v)}
        if missing:
            R.violation("scheduling control is ineffective: too few scenarios in which a worker took the Graceful command while holding "
                        "only spawned-but-unpolled connections / those plus queued ones: %s (failpoints hit: %s)" % (missing, park_hits),
                        {"held_by_worker": wmet, "failpoints": park_hits}, no_failing_input=True)
    if skipped > max(3, len(cases) // 5):
        R.violation("too many inconclusive scenarios (%d of %d): the tie is not exercising the code" % (skipped, len(cases)),
                    {"histogram": hist}, no_failing_input=True)

    reported, unknown_failure = 0, False
    for i, why in failures:
        f = match_known(R, cases[i], why)
        if f is not None:
            R.known_hit(f)
            continue
        unknown_failure = True
        if reported < 3:
            R.violation("implementation breaks the property: " + why,
                        {"case": cases[i], "trace": iouts[i].get("trace"), "clients": iouts[i].get("obs"), "timing_ms": {
                            k: (v / 1000.0 if isinstance(v, (int, float)) else v) for k, v in (iouts[i].get("timing") or {}).items() if k != "tus"}})
            reported += 1
    broken = []
    if not lean_ok:
        broken.append("proof obligations of %s no longer check (%s)" % (",".join(MODULES), "; ".join(lrep.get("errors", [])[:3]) or lrep.get("bad_axioms") or lrep.get("forbidden_tokens") or str(lrep.get("audit_error", ""))[:200]))
    if bad_facts:
        broken.append("source shape changed: " + "; ".join(bad_facts))
    if not yields:
        broken.append("source shape changed: the worker no longer yields between the drain loop and the shutdown signal (theorems assume cfg.yieldBeforeSignal = true)")
    failed_idx = {i for i, _ in failures}
    pure = [(i, d) for i, d in disagreements if i not in failed_idx]
    if pure:
        broken.append("trace conformance fails on %d/%d scenarios, first: %s" % (len(pure), len(cases), pure[0][1][:400]))
    if broken and not unknown_failure:
        # search mode (DESIGN 3.3): the property is no longer shown to hold; look for a failing input
        R.log("search mode:", " | ".join(broken)[:300])
        extra = [(gen if k % 3 else gen_park)(R.rng) for k in range(150 if R.tier == "quick" else 600)]
        xi, _ = evaluate(R, extra, cap, yields)
        found = None
        for c, io in zip(extra, xi):
            why = oracle(c, io)
            if why and not match_known(R, c, why):
                found = (c, io, why)
                break
        R.coverage["search_mode"] = {"extra_cases": len(extra), "found": bool(found)}
        if found:
            R.violation("implementation breaks the property: " + found[2] + " (found in search mode after: " + " | ".join(broken)[:300] + ")",
                        {"case": found[0], "trace": found[1].get("trace"), "clients": found[1].get("obs")})
        else:
            R.violation(" | ".join(broken), {"broken": broken, "theorem_modules": MODULES, "correspondence": "server",
                                             "cases": [cases[i] for i, _ in pure[:3]], "source_shape": facts}, no_failing_input=True)
    if R.tier == "thorough" and lean_ok:
        if not pxvlib.leanchecker(R, MODULES):
            R.violation("leanchecker rejects " + ",".join(MODULES), {"modules": MODULES}, no_failing_input=True)
