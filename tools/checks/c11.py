"""C11 — session state carries over from one request to the next, exactly.

L1: Pxv/Model/Session.lean (Session state machine, sync, finalize, finalize_session, abstract store).
L2: Pxv/Thm/C11.lean (refinement to the pair-of-maps spec for every history and configuration).
L3: harness/crates/sess drives the real `Session` + `finalize_session` + `IncomingSession::extract` +
    biscotti `Processor` + `InMemorySessionStore` through generated histories; the cookie set by one
    response is what a later request presents.

Protocol (one line = one history):
  {"cfg": {"ttl": secs, "creation": "never_skip"|"skip_if_empty", "missing": "allow"|"reject",
           "extend": "loads_and_changes"|"changes", "threshold": null|[num,den],
           "cookie": {"name","domain","path","secure","http_only","same_site","kind"},
           "crypto": {"alg": "none"|"sign"|"encrypt", "name": <cookie name the rule is registered for>}},
   "requests": [{"src": "jar"|"none"|"tampered"|j|{"parts": j, "client": {..}}, "expire": bool, "rem": secs,
                 "ops": [[op, key?, value?], ...], "crypto"?: {...}}]}
  crypto = {"alg", "name", "percent_encode"?, "key"?: n, "fallbacks"?: [["sign"|"encrypt", n], ...]}: the processor
  in force (per request if given there: key / algorithm rotation between the requests of a history; keys are
  numbers, equal numbers = the same key). src {"parts": j, "client"} = IncomingSession::from_parts(id of the j-th
  issued cookie, client) -- no cookie involved.
answer: {"r":"ok","reqs":[{"in": id|null, "res":[...], "fin":{...}, "log":[store ops], "store":[[id,{..}]], "leak":bool}]}

The oracle below is a plain pair-of-maps reference (client map, server map, a few status bits; no ids, no
store protocol, no dirty tracking, no TTL) written independently of the Lean model.
"""
import copy
import json

import pxvlib

KEYS = ["a", "b", "c"]
VALS = [0, 1, 2, "x", "", None, True, {"n": 1}, [1, 2]]
SERVER_OPS = ["s.get", "s.insert", "s.remove", "s.is_empty", "s.clear", "force_load"]
READS = {"s.get", "s.get_t", "s.is_empty", "c.get", "c.get_m", "c.get_t", "c.is_empty", "c.is_empty_m", "is_invalidated"}
LOADS = {"s.get", "s.get_t", "s.insert", "s.insert_t", "s.remove", "s.remove_t", "s.is_empty", "s.clear", "force_load"}

DEFAULT_COOKIE = {"name": "id", "domain": None, "path": "/", "secure": True, "http_only": True,
                  "same_site": "lax", "kind": "persistent"}


def gen_cfg(rng, crypto_ok=True):
    ttl = rng.choice([64, 800, 86400])
    th = rng.choice([None, None, [0, 1], [1, 8], [1, 4], [1, 2], [3, 4], [1, 1]])
    cookie = dict(DEFAULT_COOKIE)
    if rng.random() < 0.5:
        cookie.update({
            "name": rng.choice(["id", "sid", "__Host-s"]),
            "domain": rng.choice([None, "example.com"]),
            "path": rng.choice([None, "/", "/app"]),
            "secure": rng.random() < 0.5, "http_only": rng.random() < 0.5,
            "same_site": rng.choice([None, "strict", "lax", "none"]),
            "kind": rng.choice(["persistent", "session"]),
        })
    return {
        "ttl": ttl,
        "creation": rng.choice(["never_skip", "skip_if_empty"]),
        "missing": rng.choice(["allow", "reject"]),
        "extend": rng.choice(["loads_and_changes", "changes"]),
        "threshold": th,
        "cookie": cookie,
        "crypto": {"alg": "encrypt", "name": cookie["name"]},
    }


def gen_rem(rng, cfg):
    ttl, th = cfg["ttl"], cfg["threshold"]
    if th is None or rng.random() < 0.3:
        return rng.choice([0, 1, ttl // 2, ttl - 1, ttl])
    b = ttl * th[0] // th[1]
    return max(0, min(ttl, b + rng.choice([-1, 0, 0, 1])))


def gen_op(rng, typed=True):
    r = rng.random()
    k = rng.choice(KEYS)
    suffix = "_t" if typed and rng.random() < 0.15 else ""
    if r < 0.18:
        return ["s.insert" + suffix, k, rng.choice(VALS)]
    if r < 0.30:
        return ["s.get" + suffix, k]
    if r < 0.40:
        return ["s.remove" + suffix, k]
    if r < 0.44:
        return ["s.clear"]
    if r < 0.48:
        return ["s.is_empty"]
    if r < 0.52:
        return ["force_load"]
    if r < 0.60:
        return ["sync"]
    if r < 0.67:
        return ["cycle"]
    if r < 0.71:
        return ["delete"]
    if r < 0.74:
        return ["invalidate"]
    if r < 0.77:
        return ["is_invalidated"]
    if r < 0.85:
        return ["c.insert" + suffix, k, rng.choice(VALS)]
    if r < 0.90:
        return [rng.choice(["c.get", "c.get_m", "c.get_t"]), k]
    if r < 0.95:
        return ["c.remove" + suffix, k]
    if r < 0.98:
        return ["c.clear"]
    return [rng.choice(["c.is_empty", "c.is_empty_m"])]


def gen_requests(rng, cfg, nreq=None):
    nreq = nreq or rng.choice([1, 2, 2, 3, 3, 4, 5, 6, 8])
    reqs = []
    for i in range(nreq):
        nops = rng.choice([0, 1, 1, 2, 2, 3, 4, 6, 9, 12])
        ops = [gen_op(rng) for _ in range(nops)]
        if rng.random() < 0.35:  # read everything at the end of the request
            ops += [["s.get", k] for k in KEYS] + [["c.get", k] for k in KEYS]
        r = rng.random()
        src = "jar" if r < 0.85 or i == 0 else ("none" if r < 0.88 else ("tampered" if r < 0.91 else rng.randrange(i)))
        reqs.append({"src": src, "expire": rng.random() < 0.04, "rem": gen_rem(rng, cfg), "ops": ops})
    return reqs


def gen(rng):
    cfg = gen_cfg(rng)
    reqs = gen_requests(rng, cfg)
    if rng.random() < 0.12:
        # key rotation between requests (always encrypting): the previous key is kept as a fallback (85%), so the
        # cookie written under the old processor must carry the state over; otherwise a new session starts
        cur, nkey = dict(cfg["crypto"], percent_encode=True, key=0, fallbacks=[]), 1
        for i, rq in enumerate(reqs):
            if i > 0 and rng.random() < 0.5:
                fb = ([["encrypt", cur["key"]]] if rng.random() < 0.85 else []) + cur["fallbacks"][:1]
                cur = dict(cur, key=nkey, fallbacks=fb)
                nkey += 1
            rq["crypto"] = cur
    return {"cfg": cfg, "requests": reqs}


# ---- the reference: a pair of maps per session ---------------------------------------------------

class Ref:
    """Store-free, id-free description of one history. `world`: session name -> server map."""

    def __init__(self, cfg):
        self.cfg = cfg
        self.world = {}
        self.next_name = 0
        self.jar = None            # (name, client map)
        self.issued = []

    def fresh(self):
        self.next_name += 1
        return self.next_name - 1

    def request(self, rq):
        cfg = self.cfg
        crypto = rq.get("crypto") or cfg["crypto"]
        src = rq.get("src", "jar")
        # the cookie the client sends: (session name, client map, how it is protected on the wire)
        if isinstance(src, dict):
            sent = None
            j = src.get("parts")
            base = self.issued[j] if isinstance(j, int) and j < len(self.issued) else None
            presented = (base[0], copy.deepcopy(src.get("client") or {})) if base is not None else None
        else:
            sent = self.jar if src == "jar" else (None if src in ("none", "tampered") else
                                                  (self.issued[src] if src < len(self.issued) else None))
            # ... and what the processor in force makes of it
            presented = sent[:2] if sent is not None and readable(crypto, cfg["cookie"]["name"], sent[2]) else None
        if rq.get("expire") and presented is not None:
            self.world.pop(presented[0], None)
        S = {}
        if presented is not None:
            S.update(name=presented[0], cli=copy.deepcopy(presented[1]), linked=True, srv="unseen",
                     rec=copy.deepcopy(self.world.get(presented[0])))
        else:
            S.update(name=self.fresh(), cli={}, linked=False, srv="absent", rec=None)
        S.update(m=None, inv=False, cli_dirty=False, cycled=False, stored_under=S["name"])
        had_rec = S["rec"] is not None
        world = self.world
        res, f7 = [], False

        def look():
            if S["srv"] == "unseen":
                if S["rec"] is not None:
                    S["srv"], S["m"] = "present", S["rec"]
                elif cfg["missing"] == "allow":
                    S["srv"] = "absent"
                else:
                    S["srv"], S["inv"] = "deleted", True

        def flush():
            """What `sync` means for the pair of maps. Returns False on the recorded finding F7."""
            srv = S["srv"]
            has_client_side = S["linked"] or S["cli_dirty"]
            if srv == "unseen":
                if S["cycled"]:
                    if S["rec"] is None:
                        return False   # rename of a record that is not there, never looked at
                    world.pop(S["stored_under"], None)
            elif srv == "deleted":
                world.pop(S["stored_under"], None)
                S["rec"] = None
                if not S["inv"]:
                    S["srv"] = "absent"
            elif srv == "absent":
                world.pop(S["stored_under"], None)
                S["rec"] = None
                if has_client_side and cfg["creation"] == "never_skip":
                    S["srv"], S["m"] = "present", {}
            if S["cycled"]:
                S["name"] = self.fresh()
                S["cycled"] = False
            if S["srv"] == "present":
                world.pop(S["stored_under"], None)
                world[S["name"]] = S["m"]
                S["rec"] = S["m"]
                S["linked"] = True
            elif S["srv"] == "unseen" and S["rec"] is not None:
                world[S["name"]] = S["rec"]
            S["stored_under"] = S["name"]
            return True

        for op in rq["ops"]:
            o, k, v = op[0], (op[1] if len(op) > 1 else None), (copy.deepcopy(op[2]) if len(op) > 2 else None)
            base = o[:-2] if o.endswith("_t") or o.endswith("_m") else o
            r = None
            if base in ("s.get", "s.insert", "s.remove", "s.is_empty", "s.clear", "force_load"):
                look()
                present = S["srv"] == "present"
                if base == "s.get":
                    r = [S["m"][k]] if present and k in S["m"] else None
                elif base == "s.insert":
                    if S["srv"] == "absent":
                        S["srv"], S["m"] = "present", {}
                        present = True
                    if present:
                        r = [S["m"][k]] if k in S["m"] else None
                        S["m"][k] = v
                elif base == "s.remove":
                    if present and k in S["m"]:
                        r = [S["m"].pop(k)]
                elif base == "s.is_empty":
                    r = (len(S["m"]) == 0) if present else True
                elif base == "s.clear":
                    if present:
                        S["m"].clear()
            elif o == "delete":
                S["srv"] = "deleted"
            elif o == "cycle":
                S["cycled"] = True
            elif o == "invalidate":
                S["inv"], S["srv"] = True, "deleted"
            elif o == "is_invalidated":
                r = S["inv"]
            elif o == "sync":
                r = "ok" if flush() else {"err": "change_id:unknown-id"}
                f7 = f7 or r != "ok"
            elif base == "c.get":
                r = [S["cli"][k]] if not S["inv"] and k in S["cli"] else None
            elif base == "c.is_empty":
                r = True if S["inv"] else len(S["cli"]) == 0
            elif base == "c.insert":
                if not S["inv"]:
                    r = [S["cli"][k]] if k in S["cli"] else None
                    S["cli"][k] = v
                    S["cli_dirty"] = True
            elif base == "c.remove":
                if not S["inv"] and k in S["cli"]:
                    r = [S["cli"].pop(k)]
                    S["cli_dirty"] = True
            elif base == "c.clear":
                if not S["inv"] and S["cli"]:
                    S["cli"].clear()
                    S["cli_dirty"] = True
            else:
                r = {"bad-op": op}
            res.append(r)

        must_encrypt = (not S["inv"]) and len(S["cli"]) > 0
        if not flush():
            fin = {"r": "err", "kind": "sync:change_id:unknown-id"}
            f7 = True
            cookie = "keep"
        elif S["inv"]:
            fin = {"r": "removal"} if S["linked"] else {"r": "none"}
            cookie = None if S["linked"] else "keep"
        elif S["linked"] or S["cli"]:
            fin = {"r": "set", "name": S["name"], "client": S["cli"]}
            cookie = (S["name"], copy.deepcopy(S["cli"]))
        else:
            fin = {"r": "none"}
            cookie = "keep"
        # the cookie must get through the processor in force for this request
        alg, rule_name = crypto["alg"], crypto.get("name")
        applies = alg != "none" and rule_name == cfg["cookie"]["name"]
        if fin["r"] in ("set", "removal"):
            if must_encrypt and not (applies and alg == "encrypt"):
                fin, cookie = {"r": "err", "kind": "encryption-required"}, "keep"
            elif not applies:
                fin, cookie = {"r": "err", "kind": "crypto-required"}, "keep"
        if isinstance(cookie, tuple):
            cookie = cookie + (wire_form(crypto, cfg["cookie"]["name"]),)
        self.jar = sent if cookie == "keep" else cookie
        self.issued.append(cookie if isinstance(cookie, tuple) else None)
        # how the request got its session (for the input statistics of the checks)
        if isinstance(src, dict):
            how = "from_parts" if presented is not None else "from_parts:no-such-cookie"
        elif sent is None:
            how = "no-cookie"
        elif presented is None:
            how = "cookie-not-readable"
        elif (sent[2]["prot"], sent[2]["key"]) != (crypto["alg"], crypto.get("key", 0)) and sent[2]["prot"] != "plain":
            how = "cookie-read-through-fallback"
        else:
            how = "cookie"
        return {"presented": presented, "res": res, "fin": fin, "f7": f7, "had_rec": had_rec,
                "world": copy.deepcopy(self.world), "crypto": crypto, "how": how, "cli_dirty": S["cli_dirty"]}


def needs_pct(name):
    return any(ch in ' "<>`#?{}/:;=@[\\]^|%(),' or ord(ch) < 0x20 or ord(ch) > 0x7e for ch in name)


# ---- cookies on the wire: written by one processor, read by a (possibly different) one -------------
# (biscotti's documented behaviour: the rule of a cookie is looked up under the name as it travels; outgoing
#  cookies use the rule's primary algorithm+key; incoming ones are tried against the primary, then the fallbacks;
#  a cookie without a rule travels in plain text, percent-encoded if percent_encode is on)

def pct_name(name):
    return "".join("%%%02X" % b if needs_pct(chr(b)) else chr(b) for b in name.encode())


def unpct(s):
    import urllib.parse
    try:
        return urllib.parse.unquote_to_bytes(s).decode("utf-8")
    except UnicodeDecodeError:
        return None


def rule_for(crypto, wire_name):
    if crypto["alg"] != "none" and crypto.get("name") == wire_name:
        return [(crypto["alg"], crypto.get("key", 0))] + [(a, k) for a, k in crypto.get("fallbacks", [])]
    return None


def wire_form(crypto, cookie_name):
    """How a session cookie leaves under `crypto`: travelling name, protection, key, value percent-encoded."""
    pe = crypto.get("percent_encode", True)
    wire = pct_name(cookie_name) if pe else cookie_name
    rule = rule_for(crypto, wire)
    return {"wire": wire, "prot": rule[0][0] if rule else "plain", "key": rule[0][1] if rule else None, "pct": pe}


def readable(crypto, cookie_name, w):
    """Does a server running `crypto` get the session out of a cookie that left in wire form `w`?"""
    pe = crypto.get("percent_encode", True)
    rule = rule_for(crypto, w["wire"])
    if rule is not None:
        ok = w["prot"] != "plain" and (w["prot"], w["key"]) in rule
    else:
        ok = w["prot"] == "plain" and (pe or not w["pct"])
    return ok and (unpct(w["wire"]) if pe else w["wire"]) == cookie_name


def oracle(case, out):
    """Returns None, or a description of how the implementation's answer breaks the property."""
    if not isinstance(out, dict) or out.get("r") != "ok":
        return "harness did not complete the history: %r" % (out,)
    cfg = case["cfg"]
    ref = Ref(cfg)
    bind, rbind = {}, {}          # reference name <-> implementation id
    problems, known = [], []

    def bind_ok(name, ident):
        if name in bind or ident in rbind:
            return bind.get(name) == ident and rbind.get(ident) == name
        bind[name], rbind[ident] = ident, name
        return True

    if len(out["reqs"]) != len(case["requests"]):
        return "answered %d requests out of %d" % (len(out["reqs"]), len(case["requests"]))
    for i, (rq, got) in enumerate(zip(case["requests"], out["reqs"])):
        exp = ref.request(rq)
        P = lambda msg: problems.append("request %d: %s" % (i, msg))
        if got.get("leak"):
            P("Debug output of the session contains a session id")
        # which session the server saw
        if exp["presented"] is None:
            if got["in"] is not None:
                P("a session was extracted although no cookie was presented")
        else:
            if got["in"] is None:
                P("the presented cookie was not accepted")
            elif not bind_ok(exp["presented"][0], got["in"]):
                P("the presented cookie carries another session id than the one it was issued for")
        # operation results
        er, gr = exp["res"], got["res"]
        first_bad = next((j for j in range(max(len(er), len(gr)))
                          if j >= len(er) or j >= len(gr) or pxvlib.canon(json.dumps(er[j])) != pxvlib.canon(json.dumps(gr[j]))), None)
        if first_bad is not None:
            j = first_bad
            msg = "op %d %s observed %s, the pair-of-maps reference says %s" % (
                j, json.dumps(rq["ops"][j]) if j < len(rq["ops"]) else "?",
                json.dumps(gr[j]) if j < len(gr) else "<missing>", json.dumps(er[j]) if j < len(er) else "<none>")
            if exp["f7"] and j < len(er) and er[j] == {"err": "change_id:unknown-id"} and gr[j:j + 1] == [er[j]]:
                pass
            else:
                P(msg)
        # finalisation
        ef, gf = exp["fin"], got["fin"]
        if ef["r"] != gf.get("r") or (ef["r"] == "err" and ef["kind"] != gf.get("kind")):
            P("finalisation: got %s, reference says %s" % (json.dumps({k: v for k, v in gf.items() if k != "attrs"}), json.dumps(ef, default=str)))
        elif ef["r"] == "set":
            if pxvlib.canon(json.dumps(gf.get("client"))) != pxvlib.canon(json.dumps(ef["client"])):
                P("cookie carries client state %s, reference says %s" % (json.dumps(gf.get("client")), json.dumps(ef["client"])))
            if gf.get("id") is None or not bind_ok(ef["name"], gf["id"]):
                P("cookie carries session id #%s, which is not the id this session must have now (old, reused or unreadable id)" % (gf.get("id"),))
        if exp["f7"]:
            known.append("F7 request %d" % i)
        # the store: exactly the reference's records, under the ids bound to their names
        world = exp["world"]
        dump = {ident: st for ident, st in got["store"]}
        loose_ref = [json.dumps(m, sort_keys=True) for n, m in world.items() if n not in bind]
        loose_got = [json.dumps(st, sort_keys=True) for ident, st in dump.items() if ident not in rbind]
        for n, m in world.items():
            if n in bind and (bind[n] not in dump or pxvlib.canon(json.dumps(dump[bind[n]])) != pxvlib.canon(json.dumps(m))):
                P("store record of session #%s is %s, reference says %s" % (bind[n], json.dumps(dump.get(bind[n])), json.dumps(m)))
        for ident, st in dump.items():
            if ident in rbind and rbind[ident] not in world:
                P("store still holds a record under id #%s (%s) although that session has none (deleted, invalidated or renamed)" % (ident, json.dumps(st)))
        if sorted(loose_ref) != sorted(loose_got):
            P("store records not reachable by any cookie differ: %s vs reference %s" % (loose_got, loose_ref))
        # TTL extension, judged from the store-operation log alone
        ttl_ops = [e for e in got["log"] if e[0] == "update_ttl"]
        th = cfg["threshold"]
        if ttl_ops and cfg["extend"] == "changes":
            P("update_ttl issued although TTL extension is configured for state changes only")
        if ttl_ops and th is not None and rq["rem"] * th[1] >= cfg["ttl"] * th[0] and th[0] <= th[1]:
            P("update_ttl issued although the remaining TTL (%d) is not below the threshold" % rq["rem"])
        if any(e[2] != cfg["ttl"] for e in ttl_ops) or any(e[2] != cfg["ttl"] for e in got["log"] if e[0] in ("create", "update")):
            P("a store write does not carry the configured TTL")
        quiet = all(o[0] in READS or o[0] == "force_load" for o in rq["ops"]) and any(o[0] in LOADS for o in rq["ops"])
        if quiet and exp["presented"] is not None and exp["fin"]["r"] == "set" and exp["had_rec"] \
                and cfg["extend"] == "loads_and_changes" and (th is None or rq["rem"] * th[1] < cfg["ttl"] * th[0]) and not ttl_ops:
            P("state was loaded and left untouched, TTL extension is due, but no update_ttl was issued")
    if problems:
        return problems[0] + (" (+%d more)" % (len(problems) - 1) if len(problems) > 1 else "")
    if known:
        return "KNOWN:F7 cycle_id on a session whose record is missing and was never loaded fails the request (%s)" % ", ".join(known)
    return None


def nontrivial(case, out):
    if not isinstance(out, dict) or out.get("r") != "ok" or len(out["reqs"]) < 2:
        return False
    carried = any(r["in"] is not None for r in out["reqs"][1:])
    wrote = any(e[0] in ("create", "update", "change_id", "delete") and e[-1] == "ok" for r in out["reqs"] for e in r["log"])
    return carried and wrote


def match_known(R):
    def m(case, why):
        if why.startswith("KNOWN:F7"):
            for f in R.known_findings():
                if f["id"] == "C11-F7":
                    return f
        return None
    return m


def mutate(rng, c):
    c = copy.deepcopy(c)
    if not c["requests"]:
        return c
    rq = rng.choice(c["requests"])
    r = rng.random()
    if r < 0.4 and rq["ops"]:
        del rq["ops"][rng.randrange(len(rq["ops"]))]
    elif r < 0.8:
        rq["ops"].insert(rng.randrange(len(rq["ops"]) + 1), gen_op(rng))
    else:
        c["cfg"].update({k: v for k, v in gen_cfg(rng).items() if k in ("creation", "missing", "extend", "threshold")})
    return c


def case_key(c):
    return json.dumps(c, sort_keys=True)


RULE = ("all 2x2x2 state policies x thresholds {none,0,1/8,1/4,1/2,3/4,1} x ttl {64,800,86400}; 1-8 requests, 0-12(+6) ops each "
        "over keys {a,b,c} and JSON values incl. null; cookie source jar(85%)/none/tampered value/replay of an older cookie; 4% external expiry; "
        "remaining TTL biased to threshold-1..threshold+1; 15% typed API variants; 12% of the histories rotate the encryption key between requests (old key kept as fallback 85%). non-trivial = at least 2 requests, a later request "
        "runs on a session carried by a cookie, and at least one successful store write; distinct by full input")


def run(R):
    R.assumptions += [
        "store backend = InMemorySessionStore behind a recording wrapper; the remaining TTL reported by `load` is scripted (time is abstract; deadlines are C13's)",
        "random session ids are fresh (never collide with an id already in use)",
        "TTL-extension threshold x fresh TTL is exact in f32 for the generated values (dyadic ratios); f32 rounding of mul_f32 is not modelled",
        "one request at a time per session (no concurrent requests on the same cookie); external expiry only between requests",
        "store errors other than unknown-id / duplicate-id do not occur",
    ]
    pxvlib.differential(
        R, modules=["Pxv.Thm.C11"], model="session", pkg="sess", gen=gen, oracle=oracle, nontrivial=nontrivial,
        mutate=mutate, match_known=match_known(R), n_quick=4000, n_thorough=150000, rule=RULE, batch=5000,
    )
