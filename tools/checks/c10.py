"""C10 — code generation is deterministic, cache-independent and idempotent.

L2  lean/Pxv/Thm/C10.lean: check_pure, check_iff_update_writes_nothing, update_nowrite_fs, persist_idem,
    persist_unchanged, cache_transparent, cache_history_irrelevant over the model of
    persist_if_changed / AppWriter / `generate` and of a read-through memo table.
    PARTIAL: that analysis + codegen are a function of (blueprint, sources) — independent of hash
    seeds, rayon interleavings and the SQLite doc cache's internals — is not a theorem; it is
    observed by re-running the real compiler in fresh processes, with cold / warm / foreign caches.
L3  histories on accepted programs of the e2e stage: re-run (new process = new hash seeds), delete +
    regenerate, cold doc cache, cache pre-filled by another project, `--check` after a run, after a
    one-byte edit and after deleting the diagnostics file; bytes (sha256) and mtimes compared.
"""
import json
import os
import shutil

import e2e
import e2e_stage
import pxvlib


def run(R):
    R.assumptions += [
        "SHA-256 equality is byte equality (persist_if_changed compares length + checksum)",
        "thread interleavings of the compiler (rayon) and SQLite WAL behaviour are sampled by repeated runs, not enumerated",
        "toolchain shim: installed nightly (rustdoc JSON format 57) instead of pavexc's pinned nightly",
    ]
    lean_ok, lrep = pxvlib.lean_obligations(R, ["Pxv.Thm.C10"])
    # source shape: iteration sites over hash containers must all be in the reviewed inventory
    import srcshape_hash
    inv = set(json.load(open(os.path.join(pxvlib.VERIF, "tools", "hash_sites.json")))["sites"])
    cur = srcshape_hash.current_sites(pxvlib.REPO)
    new_sites = [srcshape_hash.key(x) for x in cur if srcshape_hash.key(x) not in inv]
    R.coverage["hash_iteration_sites"] = {"in_tree": len(cur), "inventory": len(inv), "not_in_inventory": new_sites[:10]}
    obs, info = e2e_stage.get_stage(R)
    R.coverage["e2e_stage"] = info
    accepted = [o for o in obs.values() if o["rc"] == 0 and o["klass"] != "corpus"]
    # spread the histories over the application families, identifier-collision family first
    by_klass = {}
    for o in accepted:
        by_klass.setdefault(o["klass"], []).append(o)
    order = sorted(by_klass, key=lambda c: (c != "names", c))
    # within the collision family, programs in which pavexc had to number an identifier come first
    import re as _re
    if "names" in by_klass:
        by_klass["names"].sort(key=lambda o: -len(_re.findall(r"[A-Za-z]\d+\(app::|_\d+: app::", o["lib_rs"])))
    picked = by_klass.get("names", [])[:2]
    by_klass["names"] = by_klass.get("names", [])[2:]
    while any(by_klass.values()):
        for c in order:
            if by_klass[c]:
                picked.append(by_klass[c].pop(0))
    all_accepted = list(accepted)
    accepted = picked
    # the programs whose SDK depends on an extra crate go through the histories too
    # ... the one that uses both crates whose library is called `helper` first (its history ends with a cold documentation
    # cache over a warm target directory: the workspace member's docs must not be taken for the cached crate's)
    deps_first = sorted([o for o in accepted if o["klass"] == "deps"], key=lambda o: not (o.get("spec") or {}).get("two_helpers"))[:1]
    accepted = deps_first + [o for o in accepted if o not in deps_first]
    n_foreign = 0
    k = 4 if R.tier == "quick" else 30
    n_cold = 1 if R.tier == "quick" else 4
    runs, n_viol, hist = 0, 0, []

    def viol(what, o, extra):
        nonlocal n_viol
        n_viol += 1
        R.coverage["impl_vs_oracle_failures"] += 1
        if n_viol <= 3:
            R.violation(what, dict({"program": o["name"], "spec": o["spec"], "app_module_source": o["src"]}, **extra))

    for idx, o in enumerate(accepted[:k]):
        ws = e2e_stage.workspace_of(o, info)
        m = o["name"]
        paths = [os.path.join(ws.root, "sdk", m, "Cargo.toml"), os.path.join(ws.root, "sdk", m, "src", "lib.rs"),
                 os.path.join(ws.root, "diag", m + ".dot"), os.path.join(ws.root, "Cargo.toml")]
        s0 = e2e_stage.snapshot(paths)
        steps = []

        def step(name, expect_rc0, expect_same_as, **kw):
            nonlocal runs
            r = ws.pavexc(m, dump=False, **kw)
            runs += 1
            s = e2e_stage.snapshot(paths)
            steps.append(name)
            ok_rc = (r["rc"] == 0) == expect_rc0
            same = (s == expect_same_as) if expect_same_as is not None else True
            if not ok_rc or not same:
                changed = [p for p in paths if expect_same_as is not None and s[p] != expect_same_as[p]]
                viol("history step `%s`: rc=%s (expected %s), files that differ from the expected state (bytes or mtime): %s" % (
                    name, r["rc"], "0" if expect_rc0 else "non-zero", changed), o,
                    {"history": list(steps), "expected": expect_same_as, "observed": s, "pavexc_output_tail": r["out"][-1500:]})
            return s

        # 1. re-run on unchanged inputs, new process: nothing may be touched
        step("rerun-warm", True, s0)
        # 2. --check on up-to-date output: exit 0, nothing touched
        step("check-clean", True, s0, check=True)
        # 3. regenerate from scratch in a new process: identical bytes (mtime will differ)
        lib = paths[1]
        dot = paths[2]
        open(lib, "w").write("// placeholder\n")  # (a member crate without a lib target would break `cargo metadata`)
        s3 = step("regenerate-lib", True, None)
        if s3[lib] is None or s3[lib][0] != s0[lib][0] or s3[paths[0]] != s0[paths[0]] or s3[dot] != s0[dot]:
            viol("regenerated src/lib.rs differs from the first generation (non-deterministic output)", o, {"first": s0, "second": s3})
        # 4. one-byte edit: --check must fail and must not repair the file
        b = open(lib, "rb").read()
        open(lib, "wb").write(b + b"\n")
        s4 = e2e_stage.snapshot(paths)
        step("check-after-edit", False, s4, check=True)
        s5 = step("update-after-edit", True, None)
        if s5[lib][0] != s0[lib][0]:
            viol("update after an edit did not restore the generated bytes", o, {"first": s0, "now": s5})
        # 4b. an edit that keeps the length (one byte flipped, at the start / in the middle / at the very end): --check must
        #     notice, an update must restore the bytes (persist_if_changed compares ALL bytes, not only the length)
        good = open(lib, "rb").read()
        for pos in (0, len(good) // 2, len(good) - 1):
            bad_bytes = bytearray(good)
            bad_bytes[pos] = ord("x") if bad_bytes[pos] != ord("x") else ord("y")
            open(lib, "wb").write(bytes(bad_bytes))
            sx = e2e_stage.snapshot(paths)
            step("check-after-same-length-edit@%d" % pos, False, sx, check=True)
            sy = step("update-after-same-length-edit@%d" % pos, True, None)
            if sy[lib][0] != s0[lib][0]:
                viol("update after an edit that keeps the file's length did not restore the generated bytes", o, {"first": s0, "now": sy, "edited_offset": pos})
                open(lib, "wb").write(good)
        # 5. diagnostics file missing: --check must fail and must not create it
        os.unlink(dot)
        s6 = e2e_stage.snapshot(paths)
        step("check-missing-diagnostics", False, s6, check=True)
        s7 = step("update-restores-diagnostics", True, None)
        if s7[dot] is None or s7[dot][0] != s0[dot][0]:
            viol("diagnostics file regenerated with different bytes", o, {"first": s0, "now": s7})
        # 7. same project, sources changed between two runs: the directory was last generated from ANOTHER blueprint of the
        #    workspace (preferably one whose SDK has a different set of dependencies); generating this one again must give
        #    the bytes of its first generation
        cands = [x for x in all_accepted if x["workspace"] == o["workspace"] and x["name"] != m]
        cands.sort(key=lambda x: ((x["klass"] == "deps") == (o["klass"] == "deps"), x["name"]))
        if cands:
            other = cands[0]
            rf = ws.pavexc(other["name"], dump=False, out_dir=os.path.join("sdk", m))
            runs += 1
            steps.append("foreign-generation(%s)" % other["name"])
            if rf["rc"] != 0:
                viol("generating `%s` into the output directory of `%s` failed (rc=%s)" % (other["name"], m, rf["rc"]), o, {"pavexc_output_tail": rf["out"][-1500:]})
            s9 = step("regenerate-after-foreign-generation", True, None)
            diff = [p for p in paths[:3] if s9[p] is None or s9[p][0] != s0[p][0]]
            if diff:
                viol("output depends on what was generated into the directory before: after generating `%s` (%s) there and then `%s` again, %s differ from the first generation" % (
                    other["name"], other["klass"], m, [os.path.relpath(p, ws.root) for p in diff]), o,
                    {"history": list(steps), "first": s0, "now": s9, "manifest_now": open(paths[0]).read(), "other_program": other["name"], "other_source": other["src"]})
            n_foreign += 1
        # 8. a source file of a cached dependency changes between two runs (the crate outside the workspace keeps its items
        #    in `src/parts.inc`, pulled in with `include!`): the run with the warm cache must produce what a run with a cold
        #    cache produces from the same sources
        if (o.get("spec") or {}).get("two_helpers"):
            import e2e as _e2e
            inc = os.path.join(ws.root, "ext", "helper", "src", "parts.inc")
            if os.path.exists(inc):
                open(inc, "w").write(_e2e.EXT_HELPER_PARTS_V2)
                sw = step("regenerate-after-editing-an-included-source-of-a-cached-crate", True, None)
                cold2 = os.path.join(e2e_stage.SCRATCH, "home-cold2-%d" % os.getpid())
                shutil.rmtree(cold2, ignore_errors=True)
                os.makedirs(cold2)
                sc = step("same-sources-cold-cache", True, None, home=cold2)
                shutil.rmtree(cold2, ignore_errors=True)
                diff = [p for p in paths[:3] if sw[p] is None or sc[p] is None or sw[p][0] != sc[p][0]]
                if diff:
                    viol("output depends on the state of the documentation cache: after `ext/helper/src/parts.inc` (included by the crate's lib.rs) was "
                         "rewritten, the run with the warm cache and the run with a cold cache on the SAME sources differ in %s" % (
                             [os.path.relpath(p, ws.root) for p in diff]), o,
                         {"history": list(steps), "warm": sw, "cold": sc})
                open(inc, "w").write(_e2e.EXT_HELPER_PARTS)
                s10 = step("regenerate-after-restoring-the-included-source", True, None)
                if any(s10[p] is None or s10[p][0] != s0[p][0] for p in paths[:3]):
                    viol("restoring the sources did not restore the generated bytes", o, {"first": s0, "now": s10})
        # 6. cold documentation cache (and, for the next program, a cache filled by this one = foreign history)
        if idx < n_cold:
            cold = os.path.join(e2e_stage.SCRATCH, "home-cold-%d" % os.getpid())
            shutil.rmtree(cold, ignore_errors=True)
            os.makedirs(cold)
            s8 = step("rerun-cold-cache", True, e2e_stage.snapshot(paths), home=cold)
            if idx + 1 < len(accepted):
                o2 = accepted[idx + 1]
                if o2["workspace"] == o["workspace"]:
                    m2 = o2["name"]
                    p2 = [os.path.join(ws.root, "sdk", m2, "Cargo.toml"), os.path.join(ws.root, "sdk", m2, "src", "lib.rs"),
                          os.path.join(ws.root, "diag", m2 + ".dot")]
                    b2 = e2e_stage.snapshot(p2)
                    r2 = ws.pavexc(m2, dump=False, home=cold)
                    runs += 1
                    if r2["rc"] != 0 or e2e_stage.snapshot(p2) != b2:
                        viol("run with a cache filled by another program's run changed the output", o2, {"before": b2, "after": e2e_stage.snapshot(p2)})
            shutil.rmtree(cold, ignore_errors=True)
        hist.append({"program": m, "steps": steps})
    R.coverage["foreign_generation_histories"] = n_foreign
    R.coverage["programs"] = min(k, len(accepted))
    R.coverage["evaluations"] = runs
    R.coverage["distinct_nontrivial"] = len(hist) * 5
    R.coverage["rule"] = ("per accepted program a fixed history of pavexc runs in fresh processes (rerun, --check, delete+regenerate, edit+--check+update, "
                          "delete diagnostics+--check+update, cold cache, foreign cache); non-trivial = history steps after a modification of the on-disk state; distinct by (program, step)")
    R.coverage["samples"] = hist[:3]
    R.log("programs=%d pavexc runs=%d violations=%d" % (len(hist), runs, n_viol))
    if new_sites and n_viol == 0:
        R.violation("source shape: %d iteration site(s) over a hash container are not in the inventory tools/hash_sites.json (the process's hash seed "
                    "may now reach the generated bytes); the run histories of this run found no differing output: %s" % (len(new_sites), new_sites[:3]),
                    {"new_sites": new_sites, "inventory": "tools/hash_sites.json", "histories_run": hist}, no_failing_input=True)
    if not lean_ok and n_viol == 0:
        R.violation("proof obligations of Pxv.Thm.C10 no longer check: %s" % (lrep.get("errors") or lrep.get("bad_axioms") or lrep.get("forbidden_tokens")),
                    {"theorem_module": "Pxv.Thm.C10"}, no_failing_input=True)
