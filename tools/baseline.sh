#!/bin/bash
# Runs the repository's pinned baseline with the verification guard OFF and prints a pass/fail summary.
# Usage: tools/baseline.sh [repo_dir]   (default /repo)
set -o pipefail
R=${1:-/repo}
cd "$R" || exit 2
export RUSTUP_TOOLCHAIN=stable-x86_64-unknown-linux-gnu CARGO_NET_OFFLINE=true
unset RUSTFLAGS
TD=$(cargo metadata --no-deps --format-version 1 --offline 2>/dev/null | python3 -c 'import sys,json; print(json.load(sys.stdin)["target_directory"])' 2>/dev/null); [ -n "$TD" ] || TD=target
rm -f "$TD/nextest/pb/junit.xml"
cargo nextest run --workspace --no-fail-fast --tool-config-file pb:/w/lib/nextest.toml --profile pb --test-threads 8 --offline > "$TD/pxv-baseline.log" 2>&1
rc=$?
tail -5 "$TD/pxv-baseline.log"
python3 - "$TD/nextest/pb/junit.xml" <<'PY'
import sys, json, xml.etree.ElementTree as ET
base = json.load(open('/root/.vp/BASELINE.json'))
stable = set(n for n in base['stable_pass'] if not n.startswith('doctest:'))
t = ET.parse(sys.argv[1]).getroot()
passed, failed = set(), set()
for ts in t.iter('testsuite'):
    for tc in ts.iter('testcase'):
        name = tc.get('name')
        cls = tc.get('classname') or ''
        ok = tc.find('failure') is None and tc.find('error') is None
        # baseline names look like `<binary-or-module>::<test>`; compare on suffix match
        (passed if ok else failed).add(name)
def hit(s, pool):
    return any(s == p or s.endswith('::' + p) or p.endswith('::' + s) or s.split('::', 1)[-1] == p for p in pool)
missing = [s for s in stable if not hit(s, passed)]
print("junit: passed=%d failed=%d ; baseline non-doctest stable=%d ; stable tests not passing now=%d" % (len(passed), len(failed), len(stable), len(missing)))
for m in missing[:40]:
    print("  NOT PASSING:", m)
sys.exit(1 if missing else 0)
PY
