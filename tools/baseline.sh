#!/bin/bash
# Runs the repository's pinned baseline (the `cargo test` fallback recorded in /root/.vp/BASELINE.json; nextest cannot
# list pavex_cli's custom-harness ui_tests) with the verification guard OFF and prints a pass/fail summary.
# Usage: tools/baseline.sh [repo_dir]   (default /repo). Exit 0 iff no test outside BASELINE.always_fail failed
# and at least n_stable tests passed.
set -o pipefail
R=${1:-/repo}
cd "$R" || exit 2
export RUSTUP_TOOLCHAIN=stable-x86_64-unknown-linux-gnu CARGO_NET_OFFLINE=true
unset RUSTFLAGS
LOG=$(mktemp /var/tmp/pxv-baseline.XXXXXX.log)
cargo test --workspace --no-fail-fast --offline -- --test-threads 8 > "$LOG" 2>&1
echo "cargo test rc=$?  log=$LOG"
python3 - "$LOG" <<'PY'
import sys, json, re
base = json.load(open('/root/.vp/BASELINE.json'))
always_fail = set(base['always_fail'])
ok, failed = [], []
for l in open(sys.argv[1], errors='replace'):
    m = re.match(r'^test (.+?) \.\.\. (ok|FAILED|failed)\s*$', l.strip())
    if m:
        (ok if m.group(2) == 'ok' else failed).append(m.group(1))
def known_bad(t):
    return any(t == a or a.endswith('::' + t) or t.endswith(a.split('::', 1)[-1]) for a in always_fail)
new_fail = [t for t in failed if not known_bad(t)]
print("passed=%d failed=%d (baseline: n_stable=%d, always_fail=%d) unexpected failures=%d" % (
    len(ok), len(failed), base['n_stable'], len(always_fail), len(new_fail)))
for t in new_fail[:40]:
    print("  UNEXPECTED FAILURE:", t)
sys.exit(0 if not new_fail and len(ok) >= base['n_stable'] else 1)
PY
