"""Shared machinery for the pavex verification checks (see DESIGN.md sections 2-4).

Every check is `python3 tools/verif.py check Cxx --tier quick|thorough`; the per-property modules
live in tools/checks/cxx.py and use the helpers below:

  * lean_obligations(R, prop)  -- build Pxv.Thm.Cxx + pxmodel, audit axioms / forbidden tokens
  * build_harness(R, pkg)      -- cargo build of the Rust driver against /repo's working tree
  * run_model / run_impl       -- feed the same JSON lines to the Lean driver and the real code
  * R.violation / R.finish     -- the VIOLATION / KNOWN-FINDING / evidence interface
"""
import fcntl
import hashlib
import json
import os
import random
import re
import shutil
import subprocess
import sys
import time

VERIF = os.path.dirname(os.path.dirname(os.path.abspath(__file__)))
REPO = os.environ.get("PXV_REPO", "/repo")
LEAN = os.path.join(VERIF, "lean")
HARNESS = os.path.join(VERIF, "harness")
EVIDENCE = os.path.join(VERIF, "evidence")
REPLAYS = os.path.join(VERIF, "replays")
CORPUS = os.path.join(VERIF, "corpus")
ALLOWED_AXIOMS = {"propext", "Classical.choice", "Quot.sound"}
FORBIDDEN = re.compile(
    r"\bsorry\b|\badmit\b|^\s*axiom\s|native_decide|bv_decide|implemented_by|\bunsafe\s|maxHeartbeats\s+0|@\[extern"
)

BASE_TRUSTED = [
    "Lean 4.33.0 kernel (theorem modules built by `lake build`; axioms per theorem listed under coverage.axioms)",
    "hand-written Lean model of the named Rust items (DESIGN.md section 6) tied to /repo only by the correspondence run recorded here",
    "correspondence harness /verif/harness + canonicalisation in /verif/tools (differential testing, not proof)",
]


def env_offline():
    e = dict(os.environ)
    e.update({"CARGO_NET_OFFLINE": "true", "GOPROXY": "off", "PIP_NO_INDEX": "1"})
    return e


def sh(cmd, cwd=None, env=None, timeout=None, input=None):
    p = subprocess.run(
        cmd, cwd=cwd, env=env or env_offline(), timeout=timeout, input=input,
        stdout=subprocess.PIPE, stderr=subprocess.STDOUT, text=True, shell=isinstance(cmd, str),
    )
    return p.returncode, p.stdout


class BuildLock:
    """Serialises lake / cargo builds when several checks run at once."""

    def __init__(self, name):
        self.path = os.path.join(VERIF, ".lock-" + name)

    def __enter__(self):
        self.f = open(self.path, "w")
        fcntl.flock(self.f, fcntl.LOCK_EX)
        return self

    def __exit__(self, *a):
        fcntl.flock(self.f, fcntl.LOCK_UN)
        self.f.close()


def repo_state():
    """Identifies the working tree under test (HEAD + diff + untracked)."""
    _, head = sh(["git", "-C", REPO, "rev-parse", "HEAD"])
    _, diff = sh(["git", "-C", REPO, "diff", "HEAD"])
    _, untracked = sh(["git", "-C", REPO, "ls-files", "--others", "--exclude-standard"])
    h = hashlib.sha256()
    h.update(diff.encode())
    for f in sorted(untracked.split()):
        h.update(f.encode())
        try:
            h.update(open(os.path.join(REPO, f), "rb").read())
        except OSError:
            pass
    return head.strip()[:12] + "+" + h.hexdigest()[:12]


class Run:
    def __init__(self, prop, tier, seed, replay=None):
        self.prop, self.tier, self.seed, self.replay = prop, tier, seed, replay
        self.t0 = time.time()
        self.rng = random.Random(seed)
        self.violations = []      # (replay_path, what, no_failing_input)
        self.known = []           # strings
        self.coverage = {
            "obligations": 0, "discharged": 0, "checker_cmd": "", "trusted_base": list(BASE_TRUSTED),
            "evaluations": 0, "distinct_nontrivial": 0, "rule": "", "samples": [],
            "model_vs_impl_disagreements": 0, "impl_vs_oracle_failures": 0,
        }
        self.assumptions = []
        self.level = "proof"
        self.notes = []
        with open(os.path.join(VERIF, "known_findings.json")) as f:
            self.kf = json.load(f)
        os.makedirs(EVIDENCE, exist_ok=True)
        os.makedirs(REPLAYS, exist_ok=True)

    # ---- logging -------------------------------------------------------------------------
    def log(self, *a):
        print("[%s %6.1fs]" % (self.prop, time.time() - self.t0), *a, flush=True)

    # ---- known findings ------------------------------------------------------------------
    def known_findings(self):
        return [f for f in self.kf.get("findings", []) if f["property"] == self.prop and f.get("status") == "known"]

    def known_hit(self, finding, detail=""):
        msg = "KNOWN-FINDING: property=%s %s%s" % (self.prop, finding["what"], (" [" + detail + "]") if detail else "")
        if msg not in self.known:
            self.known.append(msg)

    # ---- violations ----------------------------------------------------------------------
    def violation(self, what, replay_obj, no_failing_input=False):
        """Records a violation; writes the replay file."""
        blob = json.dumps(replay_obj, sort_keys=True, default=str)
        name = "%s-%s.json" % (self.prop, hashlib.sha256(blob.encode()).hexdigest()[:12])
        path = os.path.join(REPLAYS, name)
        with open(path, "w") as f:
            json.dump({"property": self.prop, "what": what, "seed": self.seed, "tier": self.tier,
                       "repo_state": repo_state(), "no_failing_input_found": no_failing_input,
                       "replay": replay_obj,
                       "how_to_replay": "python3 tools/verif.py check %s --replay %s" % (self.prop, path)},
                      f, indent=1, default=str)
        self.violations.append((path, what, no_failing_input))
        self.log("violation:", what, "->", path)

    # ---- finish --------------------------------------------------------------------------
    def finish(self):
        cov = self.coverage
        cov["samples"] = cov["samples"][:6] or ["(no cases generated: proof obligations only)"]
        ev = {
            "property_id": self.prop, "tier": self.tier, "seed": self.seed, "level": self.level,
            "coverage": cov, "assumptions": self.assumptions, "wall_s": round(time.time() - self.t0, 2),
            "violations": len(self.violations), "known_findings_reported": self.known,
            "repo_state": repo_state(), "notes": self.notes,
        }
        # a replay run describes one input only: it does not replace the evidence of the regular run
        ev_name = self.prop + (".replay.json" if self.replay else ".json")
        if self.replay:
            ev["replay_of"] = self.replay
        with open(os.path.join(EVIDENCE, ev_name), "w") as f:
            json.dump(ev, f, indent=1, default=str)
        for k in self.known:
            print(k)
        for path, what, nofail in self.violations:
            print("VIOLATION property=%s replay=%s %s%s" % (
                self.prop, path, what.replace("\n", " ")[:200], " no-failing-input-found" if nofail else ""))
        sys.stdout.flush()
        sys.exit(1 if self.violations else 0)


# ---- Lean side ----------------------------------------------------------------------------------

def _strip_comments(src):
    src = re.sub(r"/-.*?-/", "", src, flags=re.S)
    return "\n".join(l.split("--")[0] for l in src.split("\n"))


def lean_forbidden_tokens():
    hits = []
    for root, _, files in os.walk(LEAN):
        if ".lake" in root:
            continue
        for fn in files:
            if fn.endswith(".lean"):
                p = os.path.join(root, fn)
                for i, l in enumerate(_strip_comments(open(p).read()).split("\n")):
                    if FORBIDDEN.search(l):
                        hits.append("%s:%d: %s" % (os.path.relpath(p, LEAN), i + 1, l.strip()))
    return hits


AUDIT_TEMPLATE = """import Lean
import {mod}
open Lean Elab Command
run_cmd do
  let env ← getEnv
  let some idx := env.getModuleIdx? `{mod} | throwError "module not found"
  let names := env.header.moduleData[idx.toNat]!.constNames
  for n in names do
    match env.find? n with
    | some (.thmInfo _) =>
      let axs ← collectAxioms n
      let internal := n.isInternalDetail || n.isInternal
      logInfo m!"PXVAX|{{n}}|{{internal}}|{{axs.toList}}"
    | _ => pure ()
"""


def lean_build(targets, timeout=1800):
    with BuildLock("lake"):
        return sh(["lake", "build"] + targets, cwd=LEAN, timeout=timeout)


def lean_obligations(R, modules, need_exe=True):
    """Builds the theorem modules (and the model driver), audits them. Returns (ok, report).

    ok == False means a proof obligation no longer checks (or the audit failed): the caller
    enters search mode (DESIGN.md 3.3)."""
    if isinstance(modules, str):
        modules = [modules]
    targets = list(modules) + (["pxmodel"] if need_exe else [])
    t = time.time()
    rc, out = lean_build(targets)
    report = {"build_rc": rc, "build_s": round(time.time() - t, 1), "modules": modules}
    R.coverage["checker_cmd"] = "cd /verif/lean && lake build %s  # then `lake env lean` on the generated axiom audit" % " ".join(targets)
    if rc != 0:
        errs = [l for l in out.split("\n") if "error" in l.lower()][:20]
        report["errors"] = errs
        R.log("lake build FAILED:", *errs[:5])
        R.coverage["lean"] = report
        return False, report
    bad = lean_forbidden_tokens()
    report["forbidden_tokens"] = bad
    theorems, axioms_used, bad_ax = [], set(), []
    os.makedirs(os.path.join(LEAN, ".lake", "audit"), exist_ok=True)
    for mod in modules:
        af = os.path.join(LEAN, ".lake", "audit", mod.replace(".", "_") + ".lean")
        with open(af, "w") as f:
            f.write(AUDIT_TEMPLATE.format(mod=mod))
        with BuildLock("lake"):
            rc2, out2 = sh(["lake", "env", "lean", af], cwd=LEAN, timeout=900)
        if rc2 != 0:
            report["audit_error"] = out2[-2000:]
            R.coverage["lean"] = report
            return False, report
        for m in re.finditer(r"PXVAX\|([^|]+)\|(true|false)\|\[(.*?)\]", out2, flags=re.S):
            name, internal, axs = m.group(1), m.group(2) == "true", [a.strip() for a in m.group(3).replace("\n", " ").split(",") if a.strip()]
            axioms_used.update(axs)
            extra = [a for a in axs if a not in ALLOWED_AXIOMS]
            if extra:
                bad_ax.append((name, extra))
            if not internal:
                theorems.append(name)
    report["theorems"] = theorems
    report["axioms_used"] = sorted(axioms_used)
    report["bad_axioms"] = bad_ax
    ok = not bad and not bad_ax and len(theorems) > 0
    R.coverage["obligations"] = len(theorems)
    R.coverage["discharged"] = len(theorems) if ok else 0
    R.coverage["axioms"] = sorted(axioms_used)
    R.coverage["theorems"] = theorems
    R.coverage["lean"] = {k: v for k, v in report.items() if k != "theorems"}
    R.log("lean: %d theorems in %s, axioms %s, %.1fs%s" % (
        len(theorems), ",".join(modules), sorted(axioms_used), report["build_s"],
        "" if ok else "  AUDIT FAILED %s %s" % (bad, bad_ax)))
    return ok, report


def leanchecker(R, modules):
    """Thorough tier: independent re-check of the compiled theorem modules."""
    res = {}
    for mod in modules:
        with BuildLock("lake"):
            rc, out = sh(["lake", "env", "leanchecker", mod], cwd=LEAN, timeout=1800)
        res[mod] = rc
        if rc != 0:
            R.log("leanchecker FAILED on", mod, out[-500:])
    R.coverage["leanchecker"] = res
    return all(v == 0 for v in res.values())


MODEL_EXE = os.path.join(LEAN, ".lake", "build", "bin", "pxmodel")


def run_model(which, lines, timeout=3600):
    p = subprocess.run([MODEL_EXE, which], input="\n".join(lines) + "\n", stdout=subprocess.PIPE,
                       stderr=subprocess.PIPE, text=True, timeout=timeout)
    if p.returncode != 0:
        raise RuntimeError("pxmodel %s failed: %s" % (which, p.stderr[-2000:]))
    return p.stdout.split("\n")[:-1] if p.stdout.endswith("\n") else p.stdout.split("\n")


# ---- Rust side ----------------------------------------------------------------------------------

def build_harness(R, pkg="rt", timeout=3600):
    """(Re)builds the in-process driver against /repo's current working tree, hooks on."""
    lock_src = os.path.join(REPO, "Cargo.lock")
    t = time.time()
    with BuildLock("cargo"):
        link = os.path.join(VERIF, ".repo")  # path deps go through this (git-ignored) symlink
        if os.path.realpath(link) != os.path.realpath(REPO):
            if os.path.islink(link):
                os.unlink(link)
            os.symlink(REPO, link)
        dst = os.path.join(HARNESS, "Cargo.lock")
        if not os.path.exists(dst):
            shutil.copy(lock_src, dst)
        rc, out = sh(["cargo", "build", "-p", pkg], cwd=HARNESS, timeout=timeout)
    R.log("cargo build -p %s: rc=%d %.1fs" % (pkg, rc, time.time() - t))
    if rc != 0:
        R.log(out[-3000:])
    return rc == 0, out


def harness_exe(pkg="rt"):
    return os.path.join(HARNESS, "target", "debug", pkg)


def run_impl(which, lines, pkg="rt", timeout=3600, env=None):
    p = subprocess.run([harness_exe(pkg), which], input="\n".join(lines) + "\n", stdout=subprocess.PIPE,
                       stderr=subprocess.PIPE, text=True, timeout=timeout, env=env or env_offline())
    if p.returncode != 0:
        raise RuntimeError("%s %s failed rc=%d: %s" % (pkg, which, p.returncode, p.stderr[-2000:]))
    return p.stdout.split("\n")[:-1] if p.stdout.endswith("\n") else p.stdout.split("\n")


def canon(s):
    try:
        return json.dumps(json.loads(s), sort_keys=True)
    except Exception:
        return s


def diff_outputs(lines, impl_out, model_out):
    """Returns indices where canonicalised outputs differ (or an output is missing)."""
    bad = []
    n = len(lines)
    for i in range(n):
        a = canon(impl_out[i]) if i < len(impl_out) else "<missing>"
        b = canon(model_out[i]) if i < len(model_out) else "<missing>"
        if a != b:
            bad.append(i)
    return bad


def corpus_lines(prop):
    d = os.path.join(CORPUS, prop)
    out = []
    if os.path.isdir(d):
        for fn in sorted(os.listdir(d)):
            if fn.endswith(".jsonl"):
                out += [l.strip() for l in open(os.path.join(d, fn)) if l.strip()]
    return out


def scratch_dir(tag):
    base = os.environ.get("VERIF_SCRATCH", "/var/tmp")
    d = os.path.join(base, "pxv-%s-%d" % (tag, os.getpid()))
    shutil.rmtree(d, ignore_errors=True)
    os.makedirs(d)
    return d


def src_text(rel):
    with open(os.path.join(REPO, rel)) as f:
        return f.read()


# ---- the generic differential check + break protocol (DESIGN.md 3.3) ---------------------------

def differential(R, *, modules, model, gen, oracle, nontrivial, n_quick, n_thorough, rule,
                 pkg="rt", mutate=None, match_known=None, search_factor=4, batch=20000,
                 impl_env=None, case_key=None, model_which=None, extra_lean_ok=True):
    """Runs the three layers for one property.

    gen(rng) -> case (JSON-serialisable dict, one protocol line)
    oracle(case, impl_out: dict) -> None | str   implementation-side check, needs no model
    nontrivial(case, impl_out) -> bool
    match_known(case, why) -> finding | None
    """
    lean_ok, lrep = lean_obligations(R, modules)
    lean_ok = lean_ok and extra_lean_ok
    hok, hout = build_harness(R, pkg)
    if not hok:
        R.violation("harness does not build against the current tree (broken tie)",
                    {"cargo_output_tail": hout[-3000:]}, no_failing_input=True)
        return
    n = n_quick if R.tier == "quick" else n_thorough
    if R.replay:
        rp = json.load(open(R.replay))["replay"]
        cases = rp.get("cases") or [rp["case"]]
        n = 0
    else:
        cases = [json.loads(l) for l in corpus_lines(R.prop)]
    n_corpus = len(cases)
    cases += [gen(R.rng) for _ in range(n)]
    stats = {"corpus": n_corpus, "generated": n}

    def run_batch(cs):
        lines = [json.dumps(c, sort_keys=True) for c in cs]
        impl, mod = [], []
        for i in range(0, len(lines), batch):
            impl += run_impl(model_which or model, lines[i:i + batch], pkg=pkg, env=impl_env)
            if lean_ok or os.path.exists(MODEL_EXE):
                try:
                    mod += run_model(model, lines[i:i + batch])
                except Exception as e:  # model driver unusable: counts as broken tie below
                    R.log("model driver failed:", e)
                    mod += ["<model-unavailable>"] * len(lines[i:i + batch])
        return lines, impl, mod

    lines, impl, mod = run_batch(cases)
    disagreements, failures = [], []
    seen = set()
    hist = {}
    for i, c in enumerate(cases):
        try:
            io = json.loads(impl[i])
        except Exception:
            io = {"r": "unparseable", "raw": impl[i] if i < len(impl) else None}
        kind = str(io.get("r") if isinstance(io, dict) else type(io).__name__)
        hist[kind] = hist.get(kind, 0) + 1
        why = oracle(c, io)
        if why:
            failures.append((i, why))
        if i >= len(mod) or canon(impl[i]) != canon(mod[i]):
            disagreements.append(i)
        if nontrivial(c, io):
            seen.add(case_key(c) if case_key else lines[i])
    R.coverage["evaluations"] = len(cases)
    R.coverage["distinct_nontrivial"] = len(seen)
    R.coverage["rule"] = rule
    R.coverage["outcome_histogram"] = hist
    R.coverage["input_stats"] = stats
    step = max(1, len(cases) // 5)
    R.coverage["samples"] = [{"in": cases[i], "impl": json.loads(impl[i]) if impl[i].startswith("{") else impl[i]}
                             for i in range(n_corpus, len(cases), step)][:6] or \
                            [{"in": cases[i], "impl": impl[i]} for i in range(min(3, len(cases)))]
    R.coverage["model_vs_impl_disagreements"] = len(disagreements)
    R.coverage["impl_vs_oracle_failures"] = len(failures)
    R.log("cases=%d nontrivial=%d disagreements=%d oracle_failures=%d hist=%s" % (
        len(cases), len(seen), len(disagreements), len(failures), hist))

    reported = 0
    unknown_failure = False
    for i, why in failures:
        f = match_known(cases[i], why) if match_known else None
        if f is not None:
            R.known_hit(f)
            continue
        unknown_failure = True
        if reported < 3:
            R.violation("implementation breaks the property: " + why,
                        {"case": cases[i], "impl": impl[i], "model": mod[i] if i < len(mod) else None})
            reported += 1
    failed_idx = {i for i, _ in failures}
    pure_disagreements = [i for i in disagreements if i not in failed_idx]
    if (pure_disagreements or not lean_ok) and not unknown_failure:
        # search mode: the property is no longer shown to hold; look for a concrete failing input
        R.log("search mode: lean_ok=%s disagreements=%d" % (lean_ok, len(pure_disagreements)))
        found = None
        budget = max(2000, search_factor * max(n, 1000))
        seeds = [cases[i] for i in pure_disagreements[:20]]
        extra = []
        if mutate:
            for s in seeds:
                extra += [mutate(R.rng, s) for _ in range(200)]
        extra += [gen(R.rng) for _ in range(budget)]
        xl = [json.dumps(c, sort_keys=True) for c in extra]
        xi = []
        for i in range(0, len(xl), batch):
            xi += run_impl(model_which or model, xl[i:i + batch], pkg=pkg, env=impl_env)
        for c, o in zip(extra, xi):
            try:
                io = json.loads(o)
            except Exception:
                io = {"r": "unparseable"}
            why = oracle(c, io)
            if why and not (match_known and match_known(c, why)):
                found = (c, o, why)
                break
        R.coverage["search_mode"] = {"extra_cases": len(extra), "found": bool(found)}
        what = []
        if not lean_ok:
            what.append("proof obligations of %s no longer check (%s)" % (
                ",".join(modules), "; ".join(lrep.get("errors", [])[:3]) or lrep.get("bad_axioms") or lrep.get("forbidden_tokens") or lrep.get("audit_error", "")[:200]))
        if pure_disagreements:
            i = pure_disagreements[0]
            what.append("correspondence `%s` disagrees on %d/%d inputs, first: in=%s impl=%s model=%s" % (
                model, len(pure_disagreements), len(cases), lines[i][:300], impl[i][:200], (mod[i] if i < len(mod) else "<missing>")[:200]))
        if found:
            R.violation("implementation breaks the property: " + found[2] + " (found in search mode after: " + " | ".join(what)[:300] + ")",
                        {"case": found[0], "impl": found[1]})
        else:
            R.violation(" | ".join(what),
                        {"broken": what, "theorem_modules": modules, "correspondence": model,
                         "cases": [cases[i] for i in pure_disagreements[:5]]},
                        no_failing_input=True)


def corpus_known(R, obs_entry):
    """A corpus application may be the recorded witness of a known finding (meta {"known": "<id>"}): returns
    that finding if known_findings.json lists it as known for this property (or names the property under "also")."""
    kid = (obs_entry.get("meta") or {}).get("known")
    if not kid:
        return None
    for f in R.kf.get("findings", []):
        if f.get("status") == "known" and kid in (f.get("id"), f.get("corpus_known")) and \
                (f["property"] == R.prop or R.prop in f.get("also", [])):
            return f
    return None
