"""Application family for C10 / C09: identifiers that collide once pavexc has to invent names.

Components are spread over sub-modules that re-use the same function and type names (`a::connect() ->
Result<a::Client, a::Error>`, `b::connect() -> ...`): fallible singletons whose PascalCase names clash
(variants of the generated `ApplicationStateError`), same-named singleton types (fields of
`ApplicationState`), same-named request-scoped types and handlers. Which name gets which suffix must not
depend on hash seeds, and the compiler must not trip over the collisions."""
import gen_app

FN_NAMES = ["connect", "build", "new_client", "load"]
TY_NAMES = ["Client", "Pool", "Config"]
# type names whose snake_case form is a Rust keyword, strict or reserved for future use: pavexc derives the field names
# of the generated `ApplicationState` (and of the `Next` state structs) from them
KEYWORD_TY_NAMES = ["Type", "Match", "Struct", "Move", "Final", "Override", "Yield", "Try", "Macro", "Virtual", "Abstract",
                    "Box", "Priv", "Do", "Become", "Typeof", "Unsized", "Async", "Await", "Dyn", "Gen"]


def plan(tier):
    return 4 if tier == "quick" else 40


def make(rng, name):
    spec = gen_app.gen_spec(rng, name, "inclass", size=rng.randrange(1, 3), n_mws=rng.choice([0, 1]))
    spec["klass"] = "names"
    U = name.upper()
    n_mod = rng.randrange(2, 5)
    fn = rng.choice(FN_NAMES)
    ty = rng.choice(TY_NAMES)
    idx = int(name[1:]) if name[1:].isdigit() else 0
    if idx % 2 == 1:
        # every other application: keyword-like type names (chosen without consuming the random stream)
        import zlib
        ty = KEYWORD_TY_NAMES[zlib.crc32(name.encode()) % len(KEYWORD_TY_NAMES)]
    items, regs, params = [], [], []
    for k in range(n_mod):
        m = "abcde"[k]
        # sometimes the type name differs, sometimes the function name: several kinds of clash
        tname = ty if rng.random() < 0.7 else ty + m.upper()
        fname = fn if rng.random() < 0.8 else fn + "_" + m
        fallible = rng.random() < 0.8
        life = rng.choice(["singleton", "singleton", "request_scoped"])
        body = ["pub mod %s {" % m, "    use pavex::Response;", "    use crate::rt::{fresh, log, should};",
                "    pub struct %s { pub id: u64 }" % tname]
        if fallible:
            body += ["    #[derive(Debug)] pub struct Error;",
                     "    impl std::fmt::Display for Error { fn fmt(&self, f: &mut std::fmt::Formatter<'_>) -> std::fmt::Result { write!(f, \"%s::Error\") } }" % m,
                     "    impl std::error::Error for Error {}",
                     "    #[pavex::error_handler(id = \"__MODU___%s_EH\")]" % m.upper(),
                     "    pub fn eh(e: &Error) -> Response { log(format!(\"eh __MOD__.%s\")); Response::internal_server_error() }" % m,
                     "    #[pavex::%s(id = \"__MODU___%s_MK\")]" % (life, m.upper()),
                     "    pub fn %s() -> Result<%s, Error> { if should(\"__MOD__.%s\") { return Err(Error); } let id = fresh(); log(format!(\"ctor __MOD__.%s.%s {} : \", id)); Ok(%s { id }) }" % (fname, tname, m, m, fname, tname)]
        else:
            body += ["    #[pavex::%s(id = \"__MODU___%s_MK\")]" % (life, m.upper()),
                     "    pub fn %s() -> %s { let id = fresh(); log(format!(\"ctor __MOD__.%s.%s {} : \", id)); %s { id } }" % (fname, tname, m, fname, tname)]
        body.append("}")
        items.append("\n".join(body))
        regs.append(["raw", "{bp}.constructor(%s::%s_%s_MK);" % (m, U, m.upper())])
        if fallible:
            regs.append(["raw", "{bp}.error_handler(%s::%s_%s_EH);" % (m, U, m.upper())])
        params.append("p%d: &%s::%s" % (k, m, tname))
    items.append("#[pavex::get(path = \"/%s/names\", id = \"%s_NAMES\")]\npub fn names(%s) -> Response { log(format!(\"handler __MOD__.names\")); Response::ok() }" % (name, U, ", ".join(params)))
    spec["extra_items"] = items
    spec["bp"] = regs + spec["bp"] + [["raw", "{bp}.route(%s_NAMES);" % U]]
    return spec
