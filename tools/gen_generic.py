"""Application family for C04: generic constructors (`fn g<T>() -> G<T>`) next to concrete ones
(`fn c() -> G<P0>`) across nested blueprints.

The documented rule is the one for ordinary constructors: a component sees the registrations of its own
blueprint and of the enclosing ones, the nearest first; a generic constructor registered in a nearer
blueprint therefore wins over a concrete constructor for the same instantiation registered further out
(and the other way round). Inside one blueprint the family registers either concrete constructors or the
generic one for `G<_>`, never both.

Everything is rendered by this module (raw items + raw blueprint ops of a gen_app spec without native
components); `spec["generic"]` is the abstract description read by the oracle in tools/checks/c04.py:

  scopes : [{"parent": int|None, "prefix": str, "regs": [{"fn": name, "produces": "*" | "P<k>"}],
             "handler": {"fn": name, "path": full path, "wants": ["P0", ..]} | None}]

Every value carries the name of the function that built it (`by`), so the trace of a request says which
constructor fed each input.  Trace lines: `ctor <m>.<fn> <id> :` and `handler <m>.<fn> : <by>/<id> ...`.
"""
PLAN = {"quick": 6, "thorough": 40}
PARAMS = ["P0", "P1", "P2"]


def plan(tier):
    return PLAN[tier]


def resolve(scopes, s, p):
    """independent reading of the rule: nearest enclosing blueprint with a registration producing G<p>."""
    while s is not None:
        for r in scopes[s]["regs"]:
            if r["produces"] in ("*", p):
                return r["fn"]
        s = scopes[s]["parent"]
    return None


def make(rng, name):
    n_scopes = rng.choice([2, 3, 3, 4])
    scopes = [{"parent": None, "prefix": "", "regs": [], "handler": None}]
    for k in range(1, n_scopes):
        parent = rng.choice([k - 1, k - 1, rng.randrange(0, k)])
        scopes.append({"parent": parent, "prefix": "/n%d" % k, "regs": [], "handler": None})
    n_params = rng.choice([2, 2, 3])
    params = PARAMS[:n_params]
    # the root provides everything, one way or the other, so that every handler can be built
    for s, sc in enumerate(scopes):
        r = rng.random()
        if s == 0:
            kind = "generic" if r < 0.5 else "concrete-all"
        else:
            kind = "generic" if r < 0.35 else "concrete-some" if r < 0.8 else "none"
        if kind == "generic":
            sc["regs"].append({"fn": "g%d" % s, "produces": "*"})
        elif kind == "concrete-all":
            for p in params:
                sc["regs"].append({"fn": "c%d_%s" % (s, p.lower()), "produces": p})
        elif kind == "concrete-some":
            for p in rng.sample(params, rng.randrange(1, len(params) + 1)):
                sc["regs"].append({"fn": "c%d_%s" % (s, p.lower()), "produces": p})
    for s, sc in enumerate(scopes):
        if s == 0 and rng.random() < 0.3:
            continue
        wants = rng.sample(params, rng.randrange(1, len(params) + 1))
        full, x = "", s
        while x is not None:
            full = scopes[x]["prefix"] + full
            x = scopes[x]["parent"]
        sc["handler"] = {"fn": "h%d" % s, "path": "%s/%s/r%d" % (full, name, s), "local": "/%s/r%d" % (name, s), "wants": wants}
        if rng.random() < 0.6:
            sc["handler"]["mw"] = {"fn": "m%d" % s, "kind": rng.choice(["pre", "post"]), "wants": rng.choice(wants)}
    if not any(sc["handler"] for sc in scopes):
        return None
    U = name.upper()
    items = ["pub struct P0; pub struct P1; pub struct P2;",
             "pub struct G<T> { pub id: u64, pub by: &'static str, pub p: std::marker::PhantomData<T> }"]
    for s, sc in enumerate(scopes):
        for r in sc["regs"]:
            f = r["fn"]
            if r["produces"] == "*":
                sig = "pub fn %s<T>() -> G<T>" % f
            else:
                sig = "pub fn %s() -> G<%s>" % (f, r["produces"])
            # the trailing token names the instantiation (a generic constructor runs once per instantiation and request)
            tyname = "std::any::type_name::<T>()" if r["produces"] == "*" else "\"%s\"" % r["produces"]
            items.append("#[pavex::request_scoped(id = \"%s_%s\")]\n%s { let id = fresh(); log(format!(\"ctor %s.%s {} : {}\", id, %s)); "
                         "G { id, by: \"%s\", p: std::marker::PhantomData } }" % (U, f.upper(), sig, name, f, tyname, f))
        h = sc["handler"]
        if h and h.get("mw"):
            # a middleware of the handler's own blueprint that borrows one of the instantiations the handler borrows too:
            # one request-scoped value, built once, seen by both (seeded change C03-4 specialised the generic constructor
            # once per requesting scope, so each of them got its own)
            mw = h["mw"]
            if mw["kind"] == "pre":
                items.append("#[pavex::pre_process(id = \"%s_%s\")]\npub fn %s(a0: &G<%s>) -> Processing { log(format!(\"pre %s.%s : {}/{}\", a0.by, a0.id)); Processing::Continue }"
                             % (U, mw["fn"].upper(), mw["fn"], mw["wants"], name, mw["fn"]))
            else:
                items.append("#[pavex::post_process(id = \"%s_%s\")]\npub fn %s(r: Response, a0: &G<%s>) -> Response { log(format!(\"post %s.%s : {}/{}\", a0.by, a0.id)); r }"
                             % (U, mw["fn"].upper(), mw["fn"], mw["wants"], name, mw["fn"]))
        if h:
            ps = ", ".join("a%d: &G<%s>" % (k, p) for k, p in enumerate(h["wants"]))
            fmt = " ".join("{}/{}" for _ in h["wants"])
            args = "".join(", a%d.by, a%d.id" % (k, k) for k in range(len(h["wants"])))
            items.append("#[pavex::get(path = \"%s\", id = \"%s_%s\")]\npub fn %s(%s) -> Response { log(format!(\"handler %s.%s : %s\"%s)); Response::ok() }"
                         % (h["local"], U, h["fn"].upper(), h["fn"], ps, name, h["fn"], fmt, args))

    def ops_of(s):
        ops = []
        for r in scopes[s]["regs"]:
            ops.append(["raw", "{bp}.constructor(%s_%s);" % (U, r["fn"].upper()), {"ctor": r["fn"]}])
        units = []
        if scopes[s]["handler"]:
            units.append(["raw", "{bp}.route(%s_%s);" % (U, scopes[s]["handler"]["fn"].upper()), {"route": scopes[s]["handler"]["fn"]}])
        for c, sc in enumerate(scopes):
            if sc["parent"] == s:
                units.append(["nest", {"prefix": sc["prefix"], "ops": ops_of(c)}])
        rng.shuffle(units)
        mw = (scopes[s]["handler"] or {}).get("mw")
        if mw:
            # the middleware wraps this blueprint's own route only: nested blueprints first, then the middleware, then the route
            route = [u for u in units if u[0] == "raw"]
            units = [u for u in units if u[0] != "raw"] + [["raw", "{bp}.%s(%s_%s);" % ("pre_process" if mw["kind"] == "pre" else "post_process", U, mw["fn"].upper()), {"mw": mw["fn"]}]] + route
        if rng.random() < 0.3 and ops:
            # a registration after the routes / nested blueprints of the same blueprint: registration order inside
            # a blueprint does not matter for constructors
            units.append(ops.pop())
        return ops + units

    spec = {"name": name, "klass": "generic", "types": [], "ctors": [], "handlers": [], "mws": [], "observers": [],
            "bp": ops_of(0), "usage": {}, "extra_items": items,
            "generic": {"scopes": scopes, "params": params}}
    return spec


def request_script(spec):
    reqs = []
    for s, sc in enumerate(spec["generic"]["scopes"]):
        h = sc["handler"]
        if h:
            for tag in ("plain", "plain-again"):
                reqs.append({"method": "GET", "path": h["path"], "script": [], "tag": tag, "scope": s})
    return reqs


if __name__ == "__main__":
    import json
    import random
    import sys
    import gen_app
    s = make(random.Random(int(sys.argv[1]) if len(sys.argv) > 1 else 1), "x0")
    print(json.dumps(s["generic"]))
    print(gen_app.render(s))
