#!/bin/bash
# usage: seed_confirm.sh <property> [suffix]   — takes the sub-agent's delivery from /var/tmp/w5/<property>/SEED, stores it under
# /verif/seeded/<property>-<suffix> (default 5) and confirms it in the sub-agent's scratch worktree: demo with the patch (must fail),
# demo without (must pass), tests of the touched crates with the patch (must pass). Prints one summary line.
P=$1; SUF=${2:-5}; WT=/var/tmp/w5/$P; D=/verif/seeded/$P-$SUF
export CARGO_NET_OFFLINE=true CARGO_PROFILE_DEV_DEBUG=0 CARGO_PROFILE_TEST_DEBUG=0
[ -s $WT/SEED/patch.diff ] || { echo "$P: no patch.diff"; exit 2; }
mkdir -p $D
cp $WT/SEED/patch.diff $WT/SEED/meta.json $D/
rsync -a --exclude target --exclude 'target*' --exclude home --exclude '.pavex' --exclude '*.db' --max-size=400k $WT/SEED/demo/ $D/demo/
cd $WT
git checkout -q -- . 2>/dev/null; git apply SEED/patch.diff || { echo "$P: patch does not apply to a clean worktree"; exit 2; }
RUN=$(ls SEED/demo/run.sh 2>/dev/null)
[ -n "$RUN" ] || { echo "$P: no demo/run.sh"; exit 2; }
# some demos take the compiler binary as an argument and ship a saved unpatched build instead of rebuilding
UNP=$(ls $WT/SEED/bin/pavexc.without_patch $WT/target/debug/pavexc-unpatched 2>/dev/null | head -1)
(cd SEED/demo && timeout 3000 bash ./run.sh) > /var/tmp/w5/$P-confirm-with.log 2>&1; RW=$?
if [ -n "$UNP" ]; then
  (cd SEED/demo && timeout 3000 bash ./run.sh $UNP) > /var/tmp/w5/$P-confirm-without.log 2>&1; RWO=$?
else
  git apply -R SEED/patch.diff
  (cd SEED/demo && timeout 3000 bash ./run.sh) > /var/tmp/w5/$P-confirm-without.log 2>&1; RWO=$?
  git apply SEED/patch.diff
fi
CRATES=$(grep '^+++ b/' SEED/patch.diff | sed 's#^+++ b/##' | while read f; do d=$(dirname $f); while [ "$d" != "." ] && [ ! -f "$d/Cargo.toml" ]; do d=$(dirname $d); done; [ -f "$d/Cargo.toml" ] && grep -m1 '^name' $d/Cargo.toml | sed 's/name *= *"\(.*\)"/\1/'; done | sort -u)
RT=0
for c in $CRATES; do
  RUSTUP_TOOLCHAIN=stable-x86_64-unknown-linux-gnu timeout 3000 cargo test -p $c --offline > /var/tmp/w5/$P-confirm-test-$c.log 2>&1 || RT=1
done
echo "$P-$SUF: demo with patch rc=$RW, without rc=$RWO, tests of [$CRATES] with patch rc=$RT"
