"""Application family for C05: many middlewares, few data dependencies, nested blueprints."""
import gen_app


def plan(tier):
    return 8 if tier == "quick" else 80


def make(rng, name):
    spec = gen_app.gen_spec(rng, name, "inclass", size=rng.randrange(2, 4), n_mws=rng.randrange(4, 9))
    spec["klass"] = "mw"
    return spec
