"""Application family for C05: many middlewares, few data dependencies, nested blueprints; half of the
applications register some of their routes through `bp.routes(from![module])` imports (one import per route,
so that several imports of one blueprint are interleaved with its middlewares)."""
import gen_app


def plan(tier):
    return 8 if tier == "quick" else 80


def make(rng, name):
    spec = gen_app.gen_spec(rng, name, "inclass", size=rng.randrange(2, 4), n_mws=rng.randrange(4, 9))
    spec["klass"] = "mw"
    idx = int(name[1:]) if name[1:].isdigit() else 1
    if idx % 3 == 0:
        for _ in range(30):
            if sum(1 for h in spec["handlers"] if not h["fallible"]) >= 2:
                break
            spec = gen_app.gen_spec(rng, name, "inclass", size=rng.randrange(2, 4), n_mws=rng.randrange(4, 9))
            spec["klass"] = "mw"
        # flat variant: every route of the application is imported into the root blueprint, with the middlewares
        # spread between the imports
        def flat(ops):
            out = []
            for op in ops:
                out += flat(op[1]["ops"]) if op[0] == "nest" else [op]
            return out
        ops = flat(spec["bp"])
        head = [op for op in ops if op[0] not in ("wrap", "pre", "post", "route")]
        mws = [op for op in ops if op[0] in ("wrap", "pre", "post")]
        routes = [op for op in ops if op[0] == "route"]
        body, k = [], 0
        for j, r in enumerate(routes):
            take = max(1, len(mws) // max(1, len(routes))) if j < len(routes) - 1 else len(mws) - k
            body += mws[k:k + take] + [r]
            k += take
        spec["bp"] = head + body
        for h in spec["handlers"]:
            h["full_path"] = h["path"]
        spec["route_imports"] = {str(h["i"]): j for j, h in enumerate(spec["handlers"]) if not h["fallible"]}
    elif rng.random() < 0.6:
        # an import registers every route of the module where the import stands: equivalent to `route` ops at that
        # position (that equivalence is what the check tests); one group per handler keeps the op list unchanged
        hs = [h["i"] for h in spec["handlers"] if not h["fallible"]]
        pick = [i for i in hs if rng.random() < 0.7]
        spec["route_imports"] = {str(i): k for k, i in enumerate(pick)}
    # the same middleware registered twice in a row against one blueprint: it wraps / runs twice
    def lists(ops, acc):
        acc.append(ops)
        for op in ops:
            if op[0] == "nest":
                lists(op[1]["ops"], acc)
        return acc
    if rng.random() < 0.6:
        cands = [(l, k) for l in lists(spec["bp"], []) for k, op in enumerate(l) if op[0] in ("wrap", "pre", "post")]
        if cands:
            l, k = rng.choice(cands)
            l.insert(k + 1, list(l[k]))
    return spec
