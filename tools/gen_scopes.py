"""Application family "scopes" (C04 / C03): same-type constructors registered at several nesting levels.

Picked up by tools/e2e_stage.py (OPTIONAL_GENERATORS): `plan(tier)`, `make(rng, name)`, `request_script(spec)`.

A spec is a tools/gen_app.py AppSpec (so `gen_app.render` understands it) plus
  spec["xctors"]   further constructors for types that already have their `c<i>`: {"name": "c3b", "uid": 100+k,
                   "out": 3, "life", "cloning", "ins": [[type, mode]...]}; rendered into spec["extra_items"]; each
                   one logs "ctor <mod>.c3b <new id> : <input ids>", so a trace shows WHICH constructor built a value;
  blueprint ops    ["raw", "{bp}.constructor(<MOD>_C3B);", {"ctor": "c3b"}] registers such a constructor.
Every blueprint of the tree gets constructor registrations (also after its routes, also twice for one type),
middlewares and routes; clone-if-necessary and never-clone variants of one type coexist.
"""
import json
import os
import subprocess

MODE_SIGIL = {"val": "", "ref": "&", "mut": "&mut "}
LIFE_ATTR = {"request": "request_scoped", "singleton": "singleton", "transient": "transient"}


PLACEHOLDER = "qqmodqq"  # module name inside corpus specs (upper-cased for the ids of the annotations)


def corpus_specs():
    """corpus/C04/apps*.jsonl lines of the form {"spec": AppSpec, "note": ...}: hand-minimised applications that always run first"""
    here = os.path.dirname(os.path.dirname(os.path.abspath(__file__)))
    d = os.path.join(here, "corpus", "C04")
    out = []
    if os.path.isdir(d):
        for fn in sorted(os.listdir(d)):
            if fn.startswith("apps") and fn.endswith(".jsonl"):
                for l in open(os.path.join(d, fn)):
                    if l.strip() and '"spec"' in l:
                        out.append(l.strip())
    return out


def plan(tier):
    return len(corpus_specs()) + (12 if tier == "quick" else 160)


# ---- the scoping rule, read off the documentation (runtime/pavex/src/blueprint/nesting.rs) ------------------
# A component sees the constructors registered against the blueprint it is registered in (the latest
# registration for a type wins, wherever in that blueprint it is made) and, for types that blueprint does not
# register, what the enclosing blueprints register; sibling blueprints are invisible.

def ctor_defs(spec):
    """name -> {"name","uid","out","life","cloning","ins","fallible"} for base and extra constructors."""
    out = {}
    for c in spec["ctors"]:
        out["c%d" % c["i"]] = {"name": "c%d" % c["i"], "uid": c["i"], "out": c["out"], "life": c["life"], "cloning": c["cloning"],
                               "ins": c["ins"], "fallible": c["fallible"]}
    for x in spec.get("xctors", []):
        out[x["name"]] = dict(x, fallible=False)
    return out


def op_ctor_name(op):
    if op[0] == "ctor":
        return "c%d" % op[1]
    if op[0] == "raw" and len(op) > 2 and isinstance(op[2], dict) and "ctor" in op[2]:
        return op[2]["ctor"]
    return None


def import_then_explicit_shape(spec):
    """True if some blueprint of the application brings a constructor in with `bp.import` and registers, LATER in the same
    blueprint, another constructor for the same type explicitly (known finding C04-import-beats-later-registration: pavexc
    lets the imported one win there, so its pipelines differ from what the registration order designates)."""
    imports = {int(k) for k in (spec.get("ctor_imports") or {})}
    if not imports:
        return False
    defs = ctor_defs(spec)

    def lists(ops, acc):
        acc.append(ops)
        for op in ops:
            if op[0] == "nest":
                lists(op[1]["ops"], acc)
        return acc
    for ops in lists(spec["bp"], []):
        imported_types = set()
        for op in ops:
            n = op_ctor_name(op)
            if n is None:
                continue
            if op[0] == "ctor" and op[1] in imports:
                imported_types.add(defs[n]["out"])
            elif defs[n]["out"] in imported_types:
                return True
    return False


def designations(spec):
    """{("h", i) | ("m", i): {type: constructor name}}: what each handler / middleware sees, per the rule above."""
    defs = ctor_defs(spec)
    out = {}

    def walk(ops, inherited):
        env = dict(inherited)
        for op in ops:
            n = op_ctor_name(op)
            if n is not None:
                env[defs[n]["out"]] = n
        for op in ops:
            if op[0] == "route":
                out[("h", op[1])] = env
            elif op[0] in ("wrap", "pre", "post"):
                out[("m", op[1])] = env
            elif op[0] == "nest":
                walk(op[1]["ops"], env)

    walk(spec["bp"], {})
    return out


def chain_of(ops, route, chain=None):
    """middlewares wrapping `route`: [(kind, id)] in registration order (None if the route is not there)."""
    chain = list(chain or [])
    for op in ops:
        if op[0] in ("wrap", "pre", "post"):
            chain.append((op[0], op[1]))
        elif op[0] == "route" and op[1] == route:
            return chain
        elif op[0] == "nest":
            r = chain_of(op[1]["ops"], route, chain)
            if r is not None:
                return r
    return None


# ---- Lean-side rendering of a spec ---------------------------------------------------------------------------

def lean_bp(spec):
    defs = ctor_defs(spec)

    def conv(ops):
        o = []
        for op in ops:
            n = op_ctor_name(op)
            if n is not None:
                d = defs[n]
                o.append(["ctor", d["uid"], d["out"], d["life"], bool(d["cloning"])])
            elif op[0] in ("wrap", "pre", "post"):
                o.append(["mw", op[1]])
            elif op[0] == "route":
                o.append(["route", op[1]])
            elif op[0] == "nest":
                o.append(["nest", conv(op[1]["ops"])])
            else:
                o.append(["other"])
        return o

    return conv(spec["bp"])


def life_request(spec):
    """the protocol line of the Lean `life` driver for a spec"""
    defs = ctor_defs(spec)
    return {"op": "life", "bp": lean_bp(spec),
            "ctors": [{"uid": d["uid"], "ty": d["out"], "life": d["life"], "clone": bool(d["cloning"]), "ins": d["ins"]} for d in defs.values()],
            "handlers": [{"id": h["i"], "ins": h["ins"]} for h in spec["handlers"]],
            "mws": [{"id": m["i"], "kind": m["kind"], "ins": m["ins"]} for m in spec["mws"]]}


# ---- generation ----------------------------------------------------------------------------------------------

def render_xctor(name, x):
    U = name.upper()
    args = ["id = \"%s_%s\"" % (U, x["name"].upper())]
    if x["cloning"]:
        args.append("clone_if_necessary")
    params = ", ".join("a%d: %sT%d" % (k, MODE_SIGIL[m], j) for k, (j, m) in enumerate(x["ins"]))
    ids = "".join(", a%d.id" % k for k in range(len(x["ins"])))
    fmt = " ".join("{}" for _ in x["ins"])
    return ("#[pavex::%s(%s)]\npub fn %s(%s) -> T%d { let id = fresh(); log(format!(\"ctor %s.%s {} : %s\", id%s)); T%d { id } }"
            % (LIFE_ATTR[x["life"]], ", ".join(args), x["name"], params, x["out"], name, x["name"], fmt, ids, x["out"]))


def reg_op(name, cname):
    return ["raw", "{bp}.constructor(%s_%s);" % (name.upper(), cname.upper()), {"ctor": cname}]


def _gen(rng, name):
    n = rng.randrange(3, 6)
    types = []
    fam = []  # per type: lifecycle family
    for i in range(n):
        r = rng.random()
        t = {"i": i, "clone": False, "copy": False, "cap": None}
        if r < 0.1:
            t["clone"] = t["copy"] = True
        elif r < 0.7:
            t["clone"] = True
        types.append(t)
        fam.append(rng.choices(["request", "transient", "singleton"], weights=[7, 2, 2])[0])
    # constructors: base c<i> plus variants for non-singleton types
    variants = {i: [] for i in range(n)}  # type -> [def]
    ctors, xctors = [], []
    letters = "bcdefg"

    def by_val_ok(j):
        return types[j]["copy"] or fam[j] == "transient" or all(v["cloning"] for v in variants[j])

    def pick_ins(i, life):
        pool = [j for j in range(i) if (life != "singleton" or fam[j] == "singleton")]
        k = min(len(pool), rng.choice([0, 0, 1, 1, 2]))
        ins = []
        for j in rng.sample(pool, k):
            ins.append([j, rng.choice(["val", "ref"]) if by_val_ok(j) else "ref"])
        return ins

    for i in range(n):
        t = types[i]
        n_var = 0 if fam[i] == "singleton" else rng.choice([0, 1, 1, 2, 2, 3])
        for v in range(1 + n_var):
            life = fam[i]
            if fam[i] == "request" and v > 0 and rng.random() < 0.12:
                life = "transient"
            cloning = t["clone"] and (rng.random() < 0.6)
            d = {"name": "c%d" % i if v == 0 else "c%d%s" % (i, letters[v - 1]), "uid": i if v == 0 else 100 + len(xctors),
                 "out": i, "life": life, "cloning": cloning, "ins": []}
            variants[i].append(d)
            if v == 0:
                ctors.append({"i": i, "out": i, "life": life, "cloning": cloning, "ins": [], "fallible": False, "async": rng.random() < 0.25})
            else:
                xctors.append(d)
        # inputs are drawn once the policies of this type's variants are known (types < i are complete)
        for v, d in enumerate(variants[i]):
            d["ins"] = pick_ins(i, d["life"])
            if v == 0:
                ctors[i]["ins"] = d["ins"]
                if d["life"] != "singleton" and rng.random() < 0.15:
                    ctors[i]["fallible"] = True
    # blueprint tree skeleton: node 0 is the root
    n_nodes = rng.choice([2, 3, 3, 4, 4, 5])
    parent = {0: None}
    depth = {0: 0}
    for k in range(1, n_nodes):
        cand = [p for p in range(k) if depth[p] < 3]
        p = rng.choice(cand)
        parent[k], depth[k] = p, depth[p] + 1
    items = {k: [] for k in range(n_nodes)}
    # base constructors (+ error handlers) first in the root
    head = []
    for c in ctors:
        head.append(["ctor", c["i"]])
        if c["fallible"]:
            head.append(["eh", "c", c["i"]])
    # A, B, A: in a third of the applications one constructor is registered against the root, a second constructor for
    # the same type is registered there too, and then the first one once more: the LATEST registration (the first
    # constructor) is what the blueprint designates (seeded change C04-4 made `bp.constructor` keep the first slot)
    aba_cands = [i for i in range(n) if fam[i] != "singleton" and len(variants[i]) > 1 and not ctors[i]["fallible"]]
    aba = rng.choice(aba_cands) if aba_cands and rng.random() < 0.35 else None
    for x in xctors:
        if aba is not None and x is variants[aba][1]:
            items[0].append(reg_op(name, x["name"]))
            continue
        # mostly nested levels; sometimes the root (an override inside one blueprint); sometimes registered twice against
        # the same blueprint. One function is never registered against two blueprints: those would be two constructors
        # for pavexc (one per registration) that a trace could not tell apart.
        where = [rng.randrange(0, n_nodes) if rng.random() < 0.3 else rng.randrange(1, n_nodes)]
        if rng.random() < 0.15:
            where.append(where[0])
        for w in where:
            items[w].append(reg_op(name, x["name"]))
    n_routes = rng.choice([2, 3, 3, 4, 5])
    n_mws = rng.choice([0, 1, 2, 2, 3, 4])
    route_node, mw_node = {}, {}
    for h in range(n_routes):
        k = rng.randrange(n_nodes) if h >= 2 else (0 if h == 0 else n_nodes - 1)
        route_node[h] = k
        items[k].append(["route", h])
    mw_kind = {}
    for m in range(n_mws):
        k = rng.randrange(n_nodes)
        mw_node[m] = k
        mw_kind[m] = rng.choice(["wrap", "pre", "post"])
        items[k].append([mw_kind[m], m])
    for k in range(1, n_nodes):
        items[parent[k]].append(["nestref", k])
    prefixes = {0: ""}

    def build(k):
        ops = list(items[k])
        rng.shuffle(ops)
        out = []
        for op in ops:
            if op[0] == "nestref":
                prefixes[op[1]] = prefixes[k] + "/n%d" % op[1]
                out.append(["nest", {"prefix": "/n%d" % op[1], "ops": build(op[1])}])
            else:
                out.append(op)
        return out

    bp = head + build(0)
    if aba is not None:
        bp.append(["ctor", aba])
    spec = {"name": name, "klass": "scopes", "types": types, "ctors": ctors, "xctors": xctors, "handlers": [], "mws": [],
            "observers": [], "bp": bp, "usage": {}, "extra_items": [render_xctor(name, x) for x in xctors], "aba": aba}
    # component inputs, with modes that keep ownership trivially satisfiable under the designated constructors
    for h in range(n_routes):
        spec["handlers"].append({"i": h, "method": rng.choice(["GET", "POST", "PUT"]), "path": "/%s/r%d" % (name, h),
                                 "full_path": prefixes[route_node[h]] + "/%s/r%d" % (name, h), "ins": [],
                                 "fallible": False, "async": rng.random() < 0.4})
    for m in range(n_mws):
        spec["mws"].append({"i": m, "kind": mw_kind[m], "ins": [], "fallible": False})
    des = designations(spec)
    defs = ctor_defs(spec)

    def comp_ins(key):
        k = min(n, rng.choice([0, 1, 1, 2, 2, 3]))
        ins = []
        for j in rng.sample(range(n), k):
            d = defs[des[key][j]]
            free = types[j]["copy"] or d["cloning"] or d["life"] == "transient"
            if d["life"] == "singleton" and not (types[j]["copy"] or d["cloning"]):
                free = False
            ins.append([j, rng.choice(["val", "ref"]) if free else "ref"])
        return ins

    for h in spec["handlers"]:
        h["ins"] = comp_ins(("h", h["i"]))
    for m in spec["mws"]:
        m["ins"] = comp_ins(("m", m["i"]))
    if rng.random() < 0.3:
        # some base constructors are brought in by `bp.import(from![module])` instead of `bp.constructor(..)`
        pick = [c["i"] for c in ctors if not c["fallible"] and c["i"] != aba and rng.random() < 0.6]
        spec["ctor_imports"] = {str(i): k for k, i in enumerate(pick)}
    return spec


def _pxmodel():
    here = os.path.dirname(os.path.dirname(os.path.abspath(__file__)))
    p = os.path.join(here, "lean", ".lake", "build", "bin", "pxmodel")
    return p if os.path.exists(p) else None


def ambiguous_pipeline(spec):
    """Conservative, model-free: some route's pipeline (handler + its middlewares) sees two different
    constructors for one type. Such pipelines can run into the type-keyed `Next` state of pavexc
    (known finding `C04-type-keyed-next-state`), in the worst case as a compiler panic."""
    des = designations(spec)
    for h in spec["handlers"]:
        comps = [("h", h["i"])] + [("m", mid) for _, mid in (chain_of(spec["bp"], h["i"]) or [])]
        for ty in range(len(spec["types"])):
            if len({des[c].get(ty) for c in comps}) > 1:
                return True
    return False


def predicted_panic(spec):
    """Asks the Lean model of the pipeline (if the driver is built and knows the op) whether pavexc would hit
    `enforce_invariants`; None = unknown."""
    exe = _pxmodel()
    if exe is None:
        return None
    try:
        line = json.dumps(life_request(spec))
        p = subprocess.run([exe, "life"], input=line + "\n", stdout=subprocess.PIPE, stderr=subprocess.PIPE, text=True, timeout=60)
        if p.returncode != 0:
            return None
        out = json.loads(p.stdout.strip().split("\n")[-1])
        if out.get("r") != "ok":
            return None
        return any(r.get("panics") for r in out.get("routes", []))
    except Exception:
        return None


def make(rng, name):
    """Three quarters of the family keep every pipeline unambiguous (one constructor per type along the
    handler's middleware chain); the rest may mix scopes inside one pipeline, unless the compiler is
    predicted to panic on it (that shape is reported separately and kept out of the shared stage)."""
    cs = corpus_specs()
    idx = int(name[1:]) if name[1:].isdigit() else len(cs)
    if idx < len(cs):
        spec = json.loads(cs[idx].replace(PLACEHOLDER, name).replace(PLACEHOLDER.upper(), name.upper()))["spec"]
        spec["klass"] = "scopes"
        spec["corpus"] = True
        spec["ambiguous_pipeline"] = ambiguous_pipeline(spec)
        return spec
    want_ambiguous = rng.random() < 0.3
    last = None
    for _ in range(40):
        spec = _gen(rng, name)
        amb = ambiguous_pipeline(spec)
        if amb and not want_ambiguous:
            continue
        if amb:
            pp = predicted_panic(spec)
            if pp is None or pp:
                continue
        if want_ambiguous and not amb:
            last = spec
            continue
        spec["ambiguous_pipeline"] = amb
        return spec
    if last is not None:
        last["ambiguous_pipeline"] = False
    return last


def request_script(spec):
    m = spec["name"]
    reqs = []
    fallible = ["%s.c%d" % (m, c["i"]) for c in spec["ctors"] if c["fallible"]]
    for h in spec["handlers"]:
        base = {"method": h["method"], "path": h["full_path"], "route": h["i"]}
        reqs.append(dict(base, script=[], tag="plain"))
        reqs.append(dict(base, script=[], tag="plain-again"))
        pres = [mid for k, mid in (chain_of(spec["bp"], h["i"]) or []) if k == "pre"]
        for p in pres:
            reqs.append(dict(base, script=["early:%s.m%d" % (m, p)], tag="early", early=[p]))
        for f in fallible:
            reqs.append(dict(base, script=[f], tag="fail", fail=f))
    reqs.append({"method": "GET", "path": "/%s/nope" % m, "script": [], "tag": "unknown-path"})
    return reqs


if __name__ == "__main__":
    import random
    import sys
    import gen_app
    r = random.Random(int(sys.argv[1]) if len(sys.argv) > 1 else 1)
    s = make(r, "s0")
    print(json.dumps(s))
    print(gen_app.render(s))
