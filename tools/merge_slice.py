#!/usr/bin/env python3
"""Resolves the predictable merge conflicts of a slice branch (Main.lean, Pxv.lean, known_findings.json,
claims/_hooks.json): keeps our side and adds what the other side added relative to the merge base."""
import json, subprocess, sys

def show(stage, path):
    try:
        return subprocess.check_output(["git", "show", ":%d:%s" % (stage, path)], text=True)
    except subprocess.CalledProcessError:
        return ""

def added(base, theirs):
    b = set(base.split("\n"))
    return [l for l in theirs.split("\n") if l not in b and l.strip()]

def merge_main(path):
    base, ours, theirs = show(1, path), show(2, path), show(3, path)
    lines = ours.split("\n")
    for l in added(base, theirs):
        if l in lines:
            continue
        if l.startswith("import "):
            idx = max(i for i, x in enumerate(lines) if x.startswith("import "))
            lines.insert(idx + 1, l)
        elif l.lstrip().startswith("| ["):
            idx = next(i for i, x in enumerate(lines) if x.lstrip().startswith("| _ =>"))
            lines.insert(idx, l)
        else:
            print("unplaced line from theirs in %s: %r" % (path, l))
    open(path, "w").write("\n".join(lines))

def merge_append(path):
    base, ours, theirs = show(1, path), show(2, path), show(3, path)
    lines = ours.rstrip("\n").split("\n")
    for l in added(base, theirs):
        if l not in lines:
            lines.append(l)
    open(path, "w").write("\n".join(lines) + "\n")

def merge_json_lists(path):
    ours, theirs = json.loads(show(2, path)), json.loads(show(3, path))
    base = json.loads(show(1, path) or "{}")
    for k, v in theirs.items():
        if isinstance(v, list):
            cur = ours.setdefault(k, [])
            for x in v:
                # only what the slice added: an entry of the merge base that we removed or rewrote stays that way
                if x not in cur and x not in base.get(k, []):
                    cur.append(x)
        elif k not in ours:
            ours[k] = v
    json.dump(ours, open(path, "w"), indent=1)

conf = subprocess.check_output(["git", "diff", "--name-only", "--diff-filter=U"], text=True).split()
for p in conf:
    if p == "lean/Main.lean":
        merge_main(p)
    elif p == "lean/Pxv.lean":
        merge_append(p)
    elif p in ("known_findings.json", "tools/claims/_hooks.json"):
        merge_json_lists(p)
    elif p in ("MANIFEST.json", "harness/Cargo.lock") or p.startswith("evidence/"):
        subprocess.check_call(["git", "checkout", "--ours", p])
    else:
        print("UNRESOLVED:", p); continue
    subprocess.check_call(["git", "add", p])
    print("resolved", p)
