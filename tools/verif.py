#!/usr/bin/env python3
"""Entry point: `python3 tools/verif.py check Cxx [--tier quick|thorough] [--replay file]`."""
import argparse
import importlib
import os
import sys

sys.path.insert(0, os.path.dirname(os.path.abspath(__file__)))
import pxvlib  # noqa: E402


def main():
    ap = argparse.ArgumentParser()
    sub = ap.add_subparsers(dest="cmd", required=True)
    c = sub.add_parser("check")
    c.add_argument("prop")
    c.add_argument("--tier", default=os.environ.get("VERIF_TIER", "quick"), choices=["quick", "thorough"])
    c.add_argument("--replay", default=None)
    a = ap.parse_args()
    seed = int(os.environ.get("VERIF_SEED", "20260924"))
    mod = importlib.import_module("checks." + a.prop.lower())
    R = pxvlib.Run(a.prop, a.tier, seed, a.replay)
    try:
        mod.run(R)
    except SystemExit:
        raise
    except Exception as e:  # a crashed check must not look like a pass
        import traceback
        traceback.print_exc()
        R.violation("check crashed (broken tie): %r" % (e,), {"exception": repr(e)}, no_failing_input=True)
    R.finish()


if __name__ == "__main__":
    main()
