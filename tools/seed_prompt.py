#!/usr/bin/env python3
"""Prints the prompt handed to an independent sub-agent that is asked for a property-breaking change (a "seeded change").
The sub-agent gets: the text of ONE property, a scratch worktree of /repo, the mechanisms of the earlier seeded changes for that
property (so that it looks elsewhere), and how to run the compiler offline.  Nothing about how /verif checks anything.
usage: seed_prompt.py Cxx <worktree> <toolchain-copy>"""
import glob, json, os, sys
V = os.path.dirname(os.path.dirname(os.path.abspath(__file__)))
pid, wt, tc = sys.argv[1], sys.argv[2], sys.argv[3]
prop = [json.loads(l) for l in open(os.path.join(V, "properties.jsonl")) if json.loads(l)["id"] == pid][0]
earlier = []
for d in sorted(glob.glob(os.path.join(V, "seeded", pid + "*"))):
    try:
        earlier.append(json.load(open(os.path.join(d, "meta.json")))["what"])
    except Exception:
        pass
print(f"""You are helping to evaluate a verification effort for the Rust project LukeMathWalker/pavex (a backend framework whose compiler `pavexc`
reads a blueprint, analyses it and generates a server SDK crate; plus its runtime crates: sessions, extractors, server, config ...).

Your own scratch git worktree of the repository is at {wt} . Work ONLY there (never touch /repo or /verif, and do not read /verif).

The semantic property under study:

  id: {prop['id']}
  title: {prop['title']}
  statement: {prop['statement']}
  quantifier: {prop.get('quantifier')}
  why tests cannot settle it: {prop.get('why_tests_cant')}
  code anchors: {json.dumps(prop.get('anchors'))}

TASK. Produce ONE realistic change to the pavex source (the kind of thing a well-meaning contributor could merge: a refactor, an optimisation,
a "simplification", a fast path, an off-by-one, a changed default in an internal helper, two sites that each look fine alone) that
  (1) still compiles,
  (2) keeps the existing test suite passing (at least the tests of the crates you touched: run `cargo test -p <crate> --offline` in the worktree with
      `RUSTUP_TOOLCHAIN=stable-x86_64-unknown-linux-gnu CARGO_NET_OFFLINE=true`; for compiler changes `cargo test -p pavexc --offline` and `cargo build -p pavexc_cli --offline` are enough,
      the UI tests cannot run in this sandbox),
  (3) BREAKS the property above, and
  (4) needs something SPECIFIC to manifest: a particular multi-step sequence of operations, an unusual input, a particular combination of API calls / registrations,
      a crash or fault at a particular point, a particular interleaving, or two cooperating sites. NOT something ordinary use would expose at once, and not a change that breaks
      every application.

Earlier seeded changes for this property used the mechanisms below. Yours must be DIFFERENT: another code path, preferably API surface or a code region these did not touch:
""" + "".join(f"  - {w}\n" for w in earlier) + f"""
Deliver, under {wt}/SEED/ :
  - patch.diff : `git -C {wt} diff` of your change to the pavex sources only (no new tests inside it; keep it small, typically < 60 changed lines),
  - demo/ : a demonstration (a small Rust test / program / application + a run.sh) that FAILS (shows the property violated) with the patch applied and PASSES without it; run it both ways and save both outputs (demo/with_patch.log, demo/without_patch.log),
  - meta.json : {{"property": "{pid}", "what": "<one-paragraph description of the change and of why it breaks the property>", "needs_to_manifest": "<the specific input/sequence/configuration needed>", "ran": ["<commands you ran>"]}}.
Leave the worktree with the patch APPLIED (uncommitted) when you finish.

Practical notes for this sealed sandbox (no network at all):
  - cargo must run offline: prefix commands with `CARGO_NET_OFFLINE=true` and pass `--offline`. Use `RUSTUP_TOOLCHAIN=stable-x86_64-unknown-linux-gnu` for the repository's own crates.
  - Build output is big and the disk is limited: ALWAYS `export CARGO_PROFILE_DEV_DEBUG=0 CARGO_PROFILE_TEST_DEBUG=0` before any cargo command (no debug info), and use ONE target dir, {wt}/target (the default), and do not create further copies of the repository. If you create scratch cargo projects,
    put them under {wt}/SEED/demo and point CARGO_TARGET_DIR at {wt}/target-demo; use path dependencies on the crates in {wt} and copy {wt}/Cargo.lock (runtime crates) or
    {tc}/e2e_workspace.Cargo.lock (applications depending on `pavex` with features = ["server"]) next to your Cargo.toml, since nothing can be fetched or re-resolved.
  - Running the real compiler end to end (`pavexc generate`) IS possible offline:
      * build it: `cd {wt} && CARGO_NET_OFFLINE=true cargo build -p pavexc_cli --offline`  (binary: {wt}/target/debug/pavexc; about 2-3 minutes cold),
      * put the rustup shim first on PATH: `export PATH={tc}/bin:$PATH` (it answers `rustup which/run` so that pavexc finds JSON docs of std/core/alloc under {tc}/root and uses the installed `nightly`),
      * application layout: a cargo workspace with an `app` crate (depends on pavex = {{ path = "{wt}/runtime/pavex", features = ["server"] }}), a small binary that calls `app::blueprint().persist(&path)` to write the blueprint RON,
        and an (initially almost empty) SDK crate that is a member of the workspace; then
        `pavexc generate -b bp.ron -o sdk --docs-toolchain nightly --diagnostics diag.dot` (first run ~70 s: it documents the app and its dependencies; later runs 2-3 s). Use a private HOME (e.g. HOME={wt}/SEED/home, keeping CARGO_HOME=$HOME_REAL/.cargo and RUSTUP_HOME=$HOME_REAL/.rustup pointing at /root/.cargo and /root/.rustup) so the doc cache (~/.pavex) is yours alone,
      * `cargo check -p <sdk> --offline` then tells whether the generated crate compiles; a generated server can be started on 127.0.0.1:0 from a small binary for run-time properties.
      * {tc}/example/ holds a complete minimal working example of such a workspace with a run.sh (copy it to {wt}/SEED/demo and adapt it).
  - Other sub-agents are working at the same time on other properties in other worktrees: the machine is shared (16 cores), builds may be slower than quoted. Never kill processes you did not start.
  - Do not spend more than about 60-75 minutes. If an idea does not pan out, pick another. When done, reply with a short summary: the mechanism, what is needed to manifest it, and the exact commands that show fail-with / pass-without.
""")
