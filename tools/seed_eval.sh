#!/bin/bash
# usage: seed_eval.sh <property> <seed-dir-name under /verif/seeded> [tier]
# Applies seeded/<name>/patch.diff to /repo, runs the property's check, reverts. Prints the exit code and VIOLATION lines.
P=$1; N=$2; T=${3:-quick}
cd /verif
git -C /repo diff --quiet || { echo "/repo has local changes, refusing"; exit 2; }
git -C /repo apply --check /verif/seeded/$N/patch.diff || { echo "patch does not apply"; exit 2; }
git -C /repo apply /verif/seeded/$N/patch.diff
s=$(date +%s)
python3 tools/verif.py check $P --tier $T > /var/tmp/seed-eval-$N.log 2>&1
rc=$?
git -C /repo checkout -- . ; git -C /repo status --short | grep -v '^??' | head
echo "seed $N property $P tier $T: rc=$rc in $(( $(date +%s) - s ))s"
grep -E '^(VIOLATION|KNOWN-FINDING)' /var/tmp/seed-eval-$N.log | cut -c1-600 | head -5
