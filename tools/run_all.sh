#!/bin/bash
# Runs every claimed check (tier $1, default quick) sequentially, validates the evidence files.
cd "$(dirname "$0")/.."
TIER=${1:-quick}
for id in $(python3 -c "import json;print(' '.join(c['property_id'] for c in json.load(open('MANIFEST.json'))['checks']))"); do
  s=$(date +%s)
  python3 tools/verif.py check $id --tier $TIER > /var/tmp/pxv-runall-$id.log 2>&1
  rc=$?
  v=$(python3-vt -c "import json,jsonschema; jsonschema.validate(json.load(open('evidence/$id.json')), json.load(open('/root/.vp/EVIDENCE.schema.json'))); print('evidence-ok')" 2>&1 | tail -1)
  echo "$id rc=$rc $(( $(date +%s) - s ))s $v $(grep -c '^VIOLATION' /var/tmp/pxv-runall-$id.log) violations, $(grep -c '^KNOWN-FINDING' /var/tmp/pxv-runall-$id.log) known"
done
