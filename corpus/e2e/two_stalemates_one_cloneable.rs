use pavex::{Blueprint, Response};
// C09 witness: one handler with two independent borrow stalemates: A/B can be resolved by cloning A, E/F cannot be
// resolved at all. complex_borrow_check used to flip Park -> Clone -> Park forever (pavexc never terminated);
// it must end with the borrow-checker diagnostics for E/F.
#[derive(Clone)] pub struct A;
pub struct B; pub struct C; pub struct D; pub struct E; pub struct F; pub struct G; pub struct H;
#[pavex::request_scoped(id = "__MODU___A", clone_if_necessary)] pub fn a() -> A { A }
#[pavex::request_scoped(id = "__MODU___B")] pub fn b() -> B { B }
#[pavex::request_scoped(id = "__MODU___C")] pub fn c(_a: &A, _b: B) -> C { C }
#[pavex::request_scoped(id = "__MODU___D")] pub fn d(_a: A, _b: &B) -> D { D }
#[pavex::request_scoped(id = "__MODU___E")] pub fn e() -> E { E }
#[pavex::request_scoped(id = "__MODU___F")] pub fn f() -> F { F }
#[pavex::request_scoped(id = "__MODU___G")] pub fn g(_e: &E, _f: F) -> G { G }
#[pavex::request_scoped(id = "__MODU___H")] pub fn h(_e: E, _f: &F) -> H { H }
#[pavex::get(path = "/h", id = "__MODU___HANDLER")] pub fn handler(_c: C, _d: D, _g: G, _h: H) -> Response { Response::ok() }
pub fn blueprint() -> Blueprint {
    let mut bp = Blueprint::new();
    bp.constructor(__MODU___A); bp.constructor(__MODU___B); bp.constructor(__MODU___C); bp.constructor(__MODU___D);
    bp.constructor(__MODU___E); bp.constructor(__MODU___F); bp.constructor(__MODU___G); bp.constructor(__MODU___H);
    bp.route(__MODU___HANDLER);
    bp
}
