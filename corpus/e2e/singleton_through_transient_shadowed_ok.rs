use pavex::{Blueprint, Response};
// C02 witness: the root has a singleton Settings and a transient Clock(&Settings); a nested blueprint shadows Settings
// with a request-scoped constructor (for its own handlers) and registers the singleton Scheduler(Clock).
// Clock is resolved where Clock was registered, so Scheduler only reaches the ROOT singleton Settings: every rule
// is respected and the blueprint must be accepted.
#[derive(Clone)] pub struct Settings;
pub struct Clock;
#[derive(Clone)] pub struct Scheduler;
#[pavex::singleton(id = "__MODU___ROOT_SETTINGS")] pub fn root_settings() -> Settings { Settings }
#[pavex::transient(id = "__MODU___CLOCK")] pub fn clock(_s: &Settings) -> Clock { Clock }
#[pavex::request_scoped(id = "__MODU___ADMIN_SETTINGS")] pub fn admin_settings() -> Settings { Settings }
#[pavex::singleton(id = "__MODU___SCHEDULER")] pub fn scheduler(_c: Clock) -> Scheduler { Scheduler }
#[pavex::get(path = "/home", id = "__MODU___HOME")] pub fn home(_s: &Settings) -> Response { Response::ok() }
#[pavex::get(path = "/jobs", id = "__MODU___JOBS")] pub fn jobs(_s: &Scheduler, _t: &Settings) -> Response { Response::ok() }
pub fn blueprint() -> Blueprint {
    let mut bp = Blueprint::new();
    bp.constructor(__MODU___ROOT_SETTINGS);
    bp.constructor(__MODU___CLOCK);
    bp.route(__MODU___HOME);
    bp.prefix("/admin").nest({
        let mut nb = Blueprint::new();
        nb.constructor(__MODU___ADMIN_SETTINGS);
        nb.constructor(__MODU___SCHEDULER);
        nb.route(__MODU___JOBS);
        nb
    });
    bp
}
