use pavex::Response;
use pavex::Blueprint;
pub struct X; pub struct C;
#[pavex::request_scoped(id = "__MODU___X")] pub fn x() -> X { X }
#[pavex::request_scoped(id = "__MODU___C")] pub fn c(_x: X) -> C { C }
#[pavex::get(path = "/h", id = "__MODU___H")] pub fn h(_x: &mut X, _c: C) -> Response { Response::ok() }
pub fn blueprint() -> Blueprint {
    let mut bp = Blueprint::new();
    bp.constructor(__MODU___X); bp.constructor(__MODU___C);
    bp.route(__MODU___H);
    bp
}
