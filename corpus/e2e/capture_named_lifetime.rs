use pavex::Response;
use pavex::Blueprint;
pub struct A0; pub struct A1; pub struct C2<'a>(pub &'a A1); pub struct C3<'a>(pub &'a C2<'a>); pub struct M;
#[pavex::request_scoped(id = "__MODU___A0")] pub fn a0() -> A0 { A0 }
#[pavex::request_scoped(id = "__MODU___A1")] pub fn a1() -> A1 { A1 }
#[pavex::request_scoped(id = "__MODU___C2")] pub fn c2(a: &A1) -> C2<'_> { C2(a) }
#[pavex::request_scoped(id = "__MODU___C3")] pub fn c3<'a>(_z: A0, c: &'a C2<'a>) -> C3<'a> { C3(c) }
#[pavex::request_scoped(id = "__MODU___M")] pub fn mv(_a: A1) -> M { M }
#[pavex::get(path = "/h", id = "__MODU___H")] pub fn h(_c: C3<'_>, _m: M) -> Response { Response::ok() }
pub fn blueprint() -> Blueprint {
    let mut bp = Blueprint::new();
    bp.constructor(__MODU___A0); bp.constructor(__MODU___A1); bp.constructor(__MODU___C2); bp.constructor(__MODU___C3); bp.constructor(__MODU___M);
    bp.route(__MODU___H);
    bp
}
