use pavex::Response;
use pavex::Blueprint;
pub struct T0;
#[derive(Debug)] pub struct E0;
impl std::fmt::Display for E0 { fn fmt(&self, f: &mut std::fmt::Formatter<'_>) -> std::fmt::Result { write!(f, "E0") } }
impl std::error::Error for E0 {}
#[pavex::error_handler(id = "__MODU___EH")] pub fn eh(_e: &E0) -> Response { Response::internal_server_error() }
#[pavex::request_scoped(id = "__MODU___C0")] pub fn c0() -> Result<T0, E0> { Ok(T0) }
#[pavex::get(path = "/h", id = "__MODU___H")] pub fn h(_a: &mut T0) -> Response { Response::ok() }
pub fn blueprint() -> Blueprint {
    let mut bp = Blueprint::new();
    bp.constructor(__MODU___C0); bp.error_handler(__MODU___EH);
    bp.route(__MODU___H);
    bp
}
