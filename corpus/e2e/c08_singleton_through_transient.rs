#![allow(unused_variables, unused_mut, clippy::all)]
use pavex::{Blueprint, Response};

pub struct R; pub struct T; pub struct S;
#[pavex::request_scoped(id = "__MODU___R")] pub fn r() -> R { R }
#[pavex::transient(id = "__MODU___T")] pub fn t(_r: &R) -> T { T }
#[pavex::singleton(id = "__MODU___S")] pub fn s(_t: T) -> S { S }
#[pavex::get(path = "/__MOD__", id = "__MODU___H")] pub fn h(_s: &S) -> Response { Response::ok() }
pub fn blueprint() -> Blueprint { let mut bp = Blueprint::new(); bp.constructor(__MODU___R); bp.constructor(__MODU___T); bp.constructor(__MODU___S); bp.route(__MODU___H); bp }
