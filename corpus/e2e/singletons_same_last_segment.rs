use pavex::{Blueprint, Response};
// C02 witness: three runtime singletons whose types share their last path segment, arranged so that no single naming
// strategy of `ApplicationState::assign_field_names` tells all three apart (generic arguments: pool_pg, pool_sqlite,
// pool_pg; crate name: the same three times; full path: primary_pool twice) but their combination does. Nothing is moved,
// nothing is borrowed mutably: in class. (Seeded change C02-5 only kept a strategy's names when it separated the WHOLE
// group and then panicked: "Failed to assign unique fields names".)
pub struct Pg; pub struct Sqlite;
pub mod primary { pub struct Pool<T> { pub size: u32, pub p: std::marker::PhantomData<T> } }
pub mod replica { pub struct Pool<T> { pub size: u32, pub p: std::marker::PhantomData<T> } }
#[pavex::singleton(id = "__MODU___PRIMARY_PG")] pub fn primary_pg() -> primary::Pool<Pg> { primary::Pool { size: 1, p: std::marker::PhantomData } }
#[pavex::singleton(id = "__MODU___PRIMARY_SQLITE")] pub fn primary_sqlite() -> primary::Pool<Sqlite> { primary::Pool { size: 2, p: std::marker::PhantomData } }
#[pavex::singleton(id = "__MODU___REPLICA_PG")] pub fn replica_pg() -> replica::Pool<Pg> { replica::Pool { size: 3, p: std::marker::PhantomData } }
#[pavex::get(path = "/__MOD__/sizes", id = "__MODU___SIZES")]
pub fn sizes(a: &primary::Pool<Pg>, b: &primary::Pool<Sqlite>, c: &replica::Pool<Pg>) -> Response { let _ = a.size + b.size + c.size; Response::ok() }
pub fn blueprint() -> Blueprint {
    let mut bp = Blueprint::new();
    bp.constructor(__MODU___PRIMARY_PG);
    bp.constructor(__MODU___PRIMARY_SQLITE);
    bp.constructor(__MODU___REPLICA_PG);
    bp.route(__MODU___SIZES);
    bp
}
