use pavex::{Blueprint, Response};
// C02 witness: the same crossing shape with cloneable values: accepted by inserting clones.
#[derive(Clone)] pub struct A;
#[derive(Clone)] pub struct B;
pub struct C; pub struct D;
#[pavex::request_scoped(id = "__MODU___A", clone_if_necessary)] pub fn a() -> A { A }
#[pavex::request_scoped(id = "__MODU___B", clone_if_necessary)] pub fn b() -> B { B }
#[pavex::request_scoped(id = "__MODU___C")] pub fn c(_a: A, _b: &B) -> C { C }
#[pavex::request_scoped(id = "__MODU___D")] pub fn d(_a: &A, _b: B) -> D { D }
#[pavex::get(path = "/h", id = "__MODU___H")] pub fn h(_c: C, _d: D) -> Response { Response::ok() }
pub fn blueprint() -> Blueprint {
    let mut bp = Blueprint::new();
    bp.constructor(__MODU___A);
    bp.constructor(__MODU___B);
    bp.constructor(__MODU___C);
    bp.constructor(__MODU___D);
    bp.route(__MODU___H);
    bp
}
