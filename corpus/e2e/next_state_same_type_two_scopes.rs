use pavex::middleware::Processing;
use pavex::{Blueprint, Response};
pub struct T0;
#[pavex::request_scoped(id = "__MODU___C0")] pub fn c0() -> T0 { T0 }
#[pavex::request_scoped(id = "__MODU___C0B")] pub fn c0b() -> T0 { T0 }
#[pavex::post_process(id = "__MODU___M1")] pub fn m1(r: Response, _a: &T0) -> Response { r }
#[pavex::pre_process(id = "__MODU___M2")] pub fn m2(_a: &T0) -> Processing { Processing::Continue }
#[pavex::get(path = "/h", id = "__MODU___H")] pub fn h(_a: &T0) -> Response { Response::ok() }
pub fn blueprint() -> Blueprint {
    let mut bp = Blueprint::new();
    bp.constructor(__MODU___C0);
    bp.post_process(__MODU___M1);
    bp.pre_process(__MODU___M2);
    {
        let mut nb = Blueprint::new();
        nb.constructor(__MODU___C0B);
        nb.route(__MODU___H);
        bp.prefix("/n1").nest(nb);
    }
    bp
}
