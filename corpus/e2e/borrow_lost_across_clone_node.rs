use pavex::Response;
use pavex::{blueprint::from, Blueprint};
pub struct V; pub struct XO; #[derive(Clone)] pub struct D; pub struct N; pub struct M; pub struct Bo;
#[pavex::request_scoped(id = "__MODU___V")] pub fn v() -> V { V }
#[pavex::request_scoped(id = "__MODU___X")] pub fn x(_v: V) -> XO { XO }
#[pavex::request_scoped(id = "__MODU___D", clone_if_necessary)] pub fn d(_x: XO) -> D { D }
#[pavex::request_scoped(id = "__MODU___N")] pub fn n(_d: D) -> N { N }
#[pavex::request_scoped(id = "__MODU___M")] pub fn m(_d: &D, _n: &N) -> M { M }
#[pavex::request_scoped(id = "__MODU___B")] pub fn b(_v: &V, _n: &N) -> Bo { Bo }
#[pavex::get(path = "/h", id = "__MODU___H")] pub fn h(_m: M, _b: Bo) -> Response { Response::ok() }
pub fn blueprint() -> Blueprint {
    let mut bp = Blueprint::new();
    bp.import(from![crate::__MOD__]);
    bp.routes(from![crate::__MOD__]);
    bp
}
