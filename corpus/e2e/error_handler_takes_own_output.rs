use pavex::{Blueprint, Response};
// C09 witness (fixed): the error handler for c0's error also asks for T0, the very value c0 failed to build:
// pavexc used to panic in codegen ("Failed to find the code fragment"); it must reject with a diagnostic.
pub struct T0;
#[derive(Debug)] pub struct E0;
impl std::fmt::Display for E0 { fn fmt(&self, f: &mut std::fmt::Formatter<'_>) -> std::fmt::Result { write!(f, "E0") } }
impl std::error::Error for E0 {}
#[pavex::request_scoped(id = "__MODU___C0")] pub fn c0() -> Result<T0, E0> { Ok(T0) }
#[pavex::error_handler(id = "__MODU___X0", default = false)]
pub fn x0(#[px(error_ref)] _e: &E0, _a: &T0) -> Response { Response::internal_server_error() }
#[pavex::get(path = "/h", id = "__MODU___H")] pub fn h(_a: &T0) -> Response { Response::ok() }
pub fn blueprint() -> Blueprint {
    let mut bp = Blueprint::new();
    bp.constructor(__MODU___C0);
    bp.error_handler(__MODU___X0);
    bp.route(__MODU___H);
    bp
}
