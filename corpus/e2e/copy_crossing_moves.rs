use pavex::{Blueprint, Response};
// C02 witness: two Copy values (never-clone policy), each moved by one constructor and borrowed by the other.
// Every value is Copy, so no use-after-move can happen: the blueprint must be accepted without clones.
#[derive(Clone, Copy)] pub struct A;
#[derive(Clone, Copy)] pub struct B;
pub struct C; pub struct D;
#[pavex::request_scoped(id = "__MODU___A")] pub fn a() -> A { A }
#[pavex::request_scoped(id = "__MODU___B")] pub fn b() -> B { B }
#[pavex::request_scoped(id = "__MODU___C")] pub fn c(_a: A, _b: &B) -> C { C }
#[pavex::request_scoped(id = "__MODU___D")] pub fn d(_a: &A, _b: B) -> D { D }
#[pavex::get(path = "/h", id = "__MODU___H")] pub fn h(_c: C, _d: D) -> Response { Response::ok() }
pub fn blueprint() -> Blueprint {
    let mut bp = Blueprint::new();
    bp.constructor(__MODU___A);
    bp.constructor(__MODU___B);
    bp.constructor(__MODU___C);
    bp.constructor(__MODU___D);
    bp.route(__MODU___H);
    bp
}
