use pavex::{Blueprint, Response};
// C02 witness: the same shape with clone_if_necessary values must be accepted (a clone breaks the cycle).
// "borrower before consumer" edges and that neither move_while_borrowed (no borrower is a
// descendant of its consumer) nor complex_borrow_check sees:
//   b1 (borrows V1) < c1 (moves V1) < b2 (needs c1's output, borrows V2) < c2 (moves V2) < b1 (needs c2's output)
#[derive(Clone)] pub struct V1; #[derive(Clone)] pub struct V2;
pub struct P; pub struct Q; pub struct R; pub struct S;
#[pavex::request_scoped(id = "__MODU___V1", clone_if_necessary)] pub fn v1() -> V1 { V1 }
#[pavex::request_scoped(id = "__MODU___V2", clone_if_necessary)] pub fn v2() -> V2 { V2 }
#[pavex::request_scoped(id = "__MODU___C1")] pub fn c1(_v: V1) -> P { P }
#[pavex::request_scoped(id = "__MODU___B2")] pub fn b2(_v: &V2, _p: P) -> Q { Q }
#[pavex::request_scoped(id = "__MODU___C2")] pub fn c2(_v: V2) -> R { R }
#[pavex::request_scoped(id = "__MODU___B1")] pub fn b1(_v: &V1, _r: R) -> S { S }
#[pavex::get(path = "/h", id = "__MODU___H")] pub fn h(_q: Q, _s: S) -> Response { Response::ok() }
pub fn blueprint() -> Blueprint {
    let mut bp = Blueprint::new();
    bp.constructor(__MODU___V1);
    bp.constructor(__MODU___V2);
    bp.constructor(__MODU___C1);
    bp.constructor(__MODU___B2);
    bp.constructor(__MODU___C2);
    bp.constructor(__MODU___B1);
    bp.route(__MODU___H);
    bp
}
