use pavex::{Blueprint, Response};
// C02 witness: never-clone values with at most ONE by-value consumer per control-flow path.
//  /report: the consumers of `Ticket` are the error handlers of two unrelated fallible constructors;
//  /take:   the handler takes `Pass` by value, the error handler of a fallible constructor takes a `Stamp` whose
//           constructor takes `Pass` by value.
// In class: nothing to clone, nothing to restructure. (Seeded change C02-4 made multiple_consumers treat consumers as
// competing unless one `match` is upstream of two of them.)
pub struct Ticket; pub struct Tenant; pub struct Quota; pub struct Pass; pub struct Stamp; pub struct Gate;
#[derive(Debug)] pub struct TenantError; #[derive(Debug)] pub struct QuotaError; #[derive(Debug)] pub struct GateError;
impl std::fmt::Display for TenantError { fn fmt(&self, f: &mut std::fmt::Formatter<'_>) -> std::fmt::Result { write!(f, "tenant") } }
impl std::fmt::Display for QuotaError { fn fmt(&self, f: &mut std::fmt::Formatter<'_>) -> std::fmt::Result { write!(f, "quota") } }
impl std::fmt::Display for GateError { fn fmt(&self, f: &mut std::fmt::Formatter<'_>) -> std::fmt::Result { write!(f, "gate") } }
impl std::error::Error for TenantError {}
impl std::error::Error for QuotaError {}
impl std::error::Error for GateError {}
#[pavex::request_scoped(id = "__MODU___TICKET")] pub fn ticket() -> Ticket { Ticket }
#[pavex::request_scoped(id = "__MODU___TENANT")] pub fn tenant() -> Result<Tenant, TenantError> { Ok(Tenant) }
#[pavex::request_scoped(id = "__MODU___QUOTA")] pub fn quota() -> Result<Quota, QuotaError> { Ok(Quota) }
#[pavex::error_handler(id = "__MODU___TENANT_ERROR")] pub fn tenant_error(#[px(error_ref)] _e: &TenantError, _t: Ticket) -> Response { Response::not_found() }
#[pavex::error_handler(id = "__MODU___QUOTA_ERROR")] pub fn quota_error(#[px(error_ref)] _e: &QuotaError, _t: Ticket) -> Response { Response::forbidden() }
#[pavex::get(path = "/__MOD__/report", id = "__MODU___REPORT")] pub fn report(_a: &Tenant, _b: &Quota) -> Response { Response::ok() }
#[pavex::request_scoped(id = "__MODU___PASS")] pub fn pass() -> Pass { Pass }
#[pavex::request_scoped(id = "__MODU___STAMP")] pub fn stamp(_p: Pass) -> Stamp { Stamp }
#[pavex::request_scoped(id = "__MODU___GATE")] pub fn gate() -> Result<Gate, GateError> { Ok(Gate) }
#[pavex::error_handler(id = "__MODU___GATE_ERROR")] pub fn gate_error(#[px(error_ref)] _e: &GateError, _s: Stamp) -> Response { Response::forbidden() }
#[pavex::get(path = "/__MOD__/take", id = "__MODU___TAKE")] pub fn take(_g: &Gate, _p: Pass) -> Response { Response::ok() }
pub fn blueprint() -> Blueprint {
    let mut bp = Blueprint::new();
    bp.constructor(__MODU___TICKET);
    bp.constructor(__MODU___TENANT);
    bp.constructor(__MODU___QUOTA);
    bp.constructor(__MODU___PASS);
    bp.constructor(__MODU___STAMP);
    bp.constructor(__MODU___GATE);
    bp.error_handler(__MODU___TENANT_ERROR);
    bp.error_handler(__MODU___QUOTA_ERROR);
    bp.error_handler(__MODU___GATE_ERROR);
    bp.route(__MODU___REPORT);
    bp.route(__MODU___TAKE);
    bp
}
