use pavex::Response;
use pavex::{blueprint::from, Blueprint};
pub struct A; #[derive(Clone)] pub struct X; pub struct C; pub struct D;
#[pavex::request_scoped(id = "__MODU___A")] pub fn a() -> A { A }
#[pavex::request_scoped(id = "__MODU___X", clone_if_necessary)] pub fn x() -> X { X }
#[pavex::request_scoped(id = "__MODU___C")] pub fn c(_x: X) -> C { C }
#[pavex::request_scoped(id = "__MODU___D")] pub fn d(_x: &X, _c: C) -> D { D }
#[pavex::get(path = "/h", id = "__MODU___H")] pub fn h(_a: A, _d: D) -> Response { Response::ok() }
pub fn blueprint() -> Blueprint {
    let mut bp = Blueprint::new();
    bp.import(from![crate::__MOD__]);
    bp.routes(from![crate::__MOD__]);
    bp
}
