use pavex::Response;
use pavex::{blueprint::from, Blueprint};
pub struct A; pub struct B; pub struct C<'a>(pub &'a A); pub struct E; pub struct F;
#[pavex::request_scoped(id = "__MODU___A")] pub fn a() -> A { A }
#[pavex::request_scoped(id = "__MODU___C")] pub fn c(a: &A) -> C<'_> { C(a) }
#[pavex::request_scoped(id = "__MODU___F")] pub fn f(_c: &C<'_>) -> F { F }
#[pavex::request_scoped(id = "__MODU___E")] pub fn e(_c: C<'_>) -> E { E }
#[pavex::request_scoped(id = "__MODU___B")] pub fn b(_a: A) -> B { B }
#[pavex::get(path = "/h", id = "__MODU___H")] pub fn h(_f: F, _b: B, _e: E) -> Response { Response::ok() }
pub fn blueprint() -> Blueprint {
    let mut bp = Blueprint::new();
    bp.import(from![crate::__MOD__]);
    bp.routes(from![crate::__MOD__]);
    bp
}
