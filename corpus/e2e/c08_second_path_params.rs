#![allow(unused_variables, unused_mut, clippy::all)]
use pavex::{Blueprint, Response};

use pavex::request::path::PathParams;
#[PathParams] pub struct Good { pub x: u32 }
#[PathParams] pub struct Bad { pub y: u32 }
#[pavex::get(path = "/__MOD__/{x}", id = "__MODU___H0")] pub fn h0(_b: &PathParams<Bad>, _a: &PathParams<Good>) -> Response { Response::ok() }
pub fn blueprint() -> Blueprint { let mut bp = Blueprint::new(); bp.import(pavex::blueprint::from![pavex]); bp.route(__MODU___H0); bp }
