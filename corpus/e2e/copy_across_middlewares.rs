use pavex::middleware::Processing;
use pavex::{Blueprint, Response};
#[derive(Clone, Copy)] pub struct T1;
#[pavex::request_scoped(id = "__MODU___C1")] pub fn c1() -> T1 { T1 }
#[pavex::pre_process(id = "__MODU___M0")] pub fn m0(_a: T1) -> Processing { Processing::Continue }
#[pavex::post_process(id = "__MODU___M1")] pub fn m1(r: Response, _a: T1) -> Response { r }
#[pavex::get(path = "/h", id = "__MODU___H")] pub fn h(_a: T1) -> Response { Response::ok() }
pub fn blueprint() -> Blueprint {
    let mut bp = Blueprint::new();
    bp.constructor(__MODU___C1);
    bp.pre_process(__MODU___M0);
    bp.post_process(__MODU___M1);
    bp.route(__MODU___H);
    bp
}
