use pavex::{Blueprint, Response};
// C04 witness: Token is Clone and its annotation says clone_if_necessary; the nested blueprint registers the same
// constructor again with `.never_clone()`. The nested route needs two owned Tokens (one for `audit`, one for the
// handler): under never-clone that cannot be satisfied, the blueprint must be rejected rather than served by a clone.
#[derive(Clone)] pub struct Token;
pub struct Audit;
#[pavex::request_scoped(id = "__MODU___TOKEN", clone_if_necessary)] pub fn token() -> Token { Token }
#[pavex::request_scoped(id = "__MODU___AUDIT")] pub fn audit(_t: Token) -> Audit { Audit }
#[pavex::get(path = "/r", id = "__MODU___R")] pub fn root_handler(_t: Token, _a: Audit) -> Response { Response::ok() }
#[pavex::get(path = "/n", id = "__MODU___N")] pub fn nested_handler(_t: Token, _a: Audit) -> Response { Response::ok() }
pub fn blueprint() -> Blueprint {
    let mut bp = Blueprint::new();
    bp.constructor(__MODU___TOKEN);
    bp.constructor(__MODU___AUDIT);
    bp.route(__MODU___R);
    bp.prefix("/nested").nest({
        let mut nb = Blueprint::new();
        nb.constructor(__MODU___TOKEN).never_clone();
        nb.route(__MODU___N);
        nb
    });
    bp
}
