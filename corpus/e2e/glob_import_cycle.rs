use pavex::{Blueprint, Response};
// C09 witness: glob re-exports that form a cycle entered from outside the cycle (prelude -> domain -> storage -> domain).
// Legal Rust; the import index of the application crate must still be built (seeded change C09-4 recursed forever).
pub mod prelude { pub use super::domain::*; }
pub mod domain { pub use super::storage::*; pub struct Order { pub id: u64 } }
pub mod storage { pub use super::domain::*; pub struct Row { pub id: u64 } }
#[pavex::request_scoped(id = "__MODU___ORDER")] pub fn order() -> prelude::Order { prelude::Order { id: 1 } }
#[pavex::get(path = "/__MOD__/glob", id = "__MODU___H")] pub fn h(_o: &prelude::Order) -> Response { Response::ok() }
pub fn blueprint() -> Blueprint {
    let mut bp = Blueprint::new();
    bp.constructor(__MODU___ORDER);
    bp.route(__MODU___H);
    bp
}
