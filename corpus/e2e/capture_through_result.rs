use pavex::Response;
use pavex::Blueprint;
pub struct T1; pub struct T2<'a>(pub &'a T1);
#[derive(Debug)] pub struct E2;
impl std::fmt::Display for E2 { fn fmt(&self, f: &mut std::fmt::Formatter<'_>) -> std::fmt::Result { write!(f, "E2") } }
impl std::error::Error for E2 {}
#[pavex::error_handler(id = "__MODU___EH")] pub fn eh(_e: &E2) -> Response { Response::internal_server_error() }
#[pavex::request_scoped(id = "__MODU___C1")] pub fn c1() -> T1 { T1 }
#[pavex::request_scoped(id = "__MODU___C2")] pub fn c2(a: &T1) -> Result<T2<'_>, E2> { Ok(T2(a)) }
#[pavex::get(path = "/h", id = "__MODU___H")] pub fn h(_a: T1, _b: T2<'_>) -> Response { Response::ok() }
pub fn blueprint() -> Blueprint {
    let mut bp = Blueprint::new();
    bp.constructor(__MODU___C1); bp.constructor(__MODU___C2); bp.error_handler(__MODU___EH);
    bp.route(__MODU___H);
    bp
}
