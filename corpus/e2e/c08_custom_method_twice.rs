#![allow(unused_variables, unused_mut, clippy::all)]
use pavex::{Blueprint, Response};

#[pavex::route(method = "QUERY", path = "/__MOD__", id = "__MODU___H0", allow(non_standard_methods))] pub fn h0() -> Response { Response::ok() }
#[pavex::route(method = "QUERY", path = "/__MOD__", id = "__MODU___H1", allow(non_standard_methods))] pub fn h1() -> Response { Response::ok() }
pub fn blueprint() -> Blueprint { let mut bp = Blueprint::new(); bp.route(__MODU___H0); bp.route(__MODU___H1); bp }
