use pavex::{Blueprint, Response};
// C01 witness: the fallback error handler takes T1 by value, an error observer borrows T1. The observers'
// calls are emitted after the handler ran (right in front of its IntoResponse), but nothing in the call graph
// says so: the SDK is accepted and does not compile (E0382, borrow of moved value).
pub struct T0; #[derive(Clone)] pub struct T1;
#[derive(Debug)] pub struct E0;
impl std::fmt::Display for E0 { fn fmt(&self, f: &mut std::fmt::Formatter<'_>) -> std::fmt::Result { write!(f, "E0") } }
impl std::error::Error for E0 {}
#[pavex::request_scoped(id = "__MODU___C0")] pub fn c0() -> Result<T0, E0> { Ok(T0) }
#[pavex::request_scoped(id = "__MODU___C1", clone_if_necessary)] pub fn c1() -> T1 { T1 }
#[pavex::error_handler(id = "__MODU___X0", default = false)]
pub fn x0(#[px(error_ref)] _e: &pavex::Error, _a: T1) -> Response { Response::internal_server_error() }
#[pavex::error_observer(id = "__MODU___O0")] pub fn o0(_e: &pavex::Error, _a: &T1) {}
#[pavex::get(path = "/h", id = "__MODU___H")] pub fn h(_a: &T0) -> Response { Response::ok() }
pub fn blueprint() -> Blueprint {
    let mut bp = Blueprint::new();
    bp.constructor(__MODU___C0);
    bp.constructor(__MODU___C1);
    bp.error_handler(__MODU___X0);
    bp.error_observer(__MODU___O0);
    bp.route(__MODU___H);
    bp
}
