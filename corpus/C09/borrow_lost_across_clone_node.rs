use pavex::Response;
use pavex::{blueprint::from, Blueprint};
pub struct V; pub struct XO; #[derive(Clone)] pub struct D; pub struct N; pub struct M; pub struct Bo;
#[pavex::request_scoped(id = "M3_V")] pub fn v() -> V { V }
#[pavex::request_scoped(id = "M3_X")] pub fn x(_v: V) -> XO { XO }
#[pavex::request_scoped(id = "M3_D", clone_if_necessary)] pub fn d(_x: XO) -> D { D }
#[pavex::request_scoped(id = "M3_N")] pub fn n(_d: D) -> N { N }
#[pavex::request_scoped(id = "M3_M")] pub fn m(_d: &D, _n: &N) -> M { M }
#[pavex::request_scoped(id = "M3_B")] pub fn b(_v: &V, _n: &N) -> Bo { Bo }
#[pavex::get(path = "/h", id = "M3_H")] pub fn h(_m: M, _b: Bo) -> Response { Response::ok() }
pub fn blueprint() -> Blueprint {
    let mut bp = Blueprint::new();
    bp.import(from![crate::m3]);
    bp.routes(from![crate::m3]);
    bp
}
