use pavex::Response;
use pavex::{blueprint::from, Blueprint};
pub struct A; #[derive(Clone)] pub struct X; pub struct C; pub struct D;
#[pavex::request_scoped(id = "M1_A")] pub fn a() -> A { A }
#[pavex::request_scoped(id = "M1_X", clone_if_necessary)] pub fn x() -> X { X }
#[pavex::request_scoped(id = "M1_C")] pub fn c(_x: X) -> C { C }
#[pavex::request_scoped(id = "M1_D")] pub fn d(_x: &X, _c: C) -> D { D }
#[pavex::get(path = "/h", id = "M1_H")] pub fn h(_a: A, _d: D) -> Response { Response::ok() }
pub fn blueprint() -> Blueprint {
    let mut bp = Blueprint::new();
    bp.import(from![crate::m1]);
    bp.routes(from![crate::m1]);
    bp
}
