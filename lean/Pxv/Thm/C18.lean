import Pxv.Model.Config
import Pxv.Lemmas.Config
/-!
C18 — configuration sources merge with the documented precedence.
Property theorems only; helper lemmas live in `Pxv/Lemmas/Config.lean`.
-/
namespace Pxv.Config

/-- First defined of three optional leaves. -/
def firstOf (e p b : Option Leaf) : Option Leaf :=
  match e with
  | some v => some v
  | none => match p with
    | some v => some v
    | none => b

/-- **C18 (1) per-key precedence env > profile > base**, for every three dictionaries (= every
    assignment of every nested key to any subset of the sources, with any values) and every key
    path `k`, provided neither the profile file nor the environment disagrees with a leaf at `k`
    about the *shape* of the dictionary (`NoShapeConflict`: no leaf strictly above or below `k`). -/
theorem lookup_precedence (b p e : List (Path × Leaf)) (k : Path)
    (hp : clash k p = false) (he : clash k e = false) :
    lookup k (merge (merge b p) e) = firstOf (lookup k e) (lookup k p) (lookup k b) := by
  rw [lookup_merge_general, lookup_merge_general, hp, he]
  unfold firstOf
  cases lookup k e <;> cases lookup k p <;> simp

/-- and when there IS a shape conflict the later source still wins (the earlier leaf is dropped,
    never mixed): a key is only ever answered by one of the three sources. -/
theorem lookup_merge_from_a_source (b p e : List (Path × Leaf)) (k : Path) (v : Leaf)
    (h : lookup k (merge (merge b p) e) = some v) :
    lookup k e = some v ∨ (lookup k e = none ∧ lookup k p = some v) ∨
      (lookup k e = none ∧ lookup k p = none ∧ lookup k b = some v) := by
  rw [lookup_merge_general, lookup_merge_general] at h
  cases he : lookup k e with
  | some w => simp [he] at h; exact Or.inl (by rw [h])
  | none =>
    simp only [he] at h
    split at h
    · cases h
    · cases hp : lookup k p with
      | some w => simp [hp] at h; exact Or.inr (Or.inl ⟨rfl, by rw [h]⟩)
      | none =>
        simp only [hp] at h
        split at h
        · cases h
        · exact Or.inr (Or.inr ⟨rfl, rfl, h⟩)

example :
    let b := [([[115], [104]], Leaf.str [98]), ([[115], [112]], Leaf.int 80), ([[100]], Leaf.bool false)]
    let p := [([[115], [104]], Leaf.str [112]), ([[100]], Leaf.bool true)]
    let e := [([[115], [112]], Leaf.int 9090)]
    lookup [[115], [104]] (merge (merge b p) e) = some (Leaf.str [112]) ∧
    lookup [[115], [112]] (merge (merge b p) e) = some (Leaf.int 9090) ∧
    lookup [[100]] (merge (merge b p) e) = some (Leaf.bool true) ∧
    clash [[115], [104]] p = false ∧ clash [[115], [104]] e = false := by decide

/-- **C18 (2) the loaded struct takes each key from the highest-precedence source that defines
    it**: whenever `load` succeeds, every key of the target struct holds the (strictly converted)
    leaf of the first of env / profile file / base file that defines it, and is `None` only if the
    key is optional and no source defines it. -/
theorem load_takes_highest_precedence (inp : Input) (profile : List Nat) (vals : List (Path × Val))
    (hsel : selectProfile inp.known inp.explicit inp.env = .ok profile)
    (h : load inp = .ok vals) (hn : (inp.schema.map (·.path)).Nodup)
    (key : Key) (hk : key ∈ inp.schema)
    (hp : clash key.path (sources inp profile).2.1 = false)
    (he : clash key.path (sources inp profile).2.2 = false) :
    ∃ v, lookupV key.path vals = some v ∧
      match firstOf (lookup key.path (sources inp profile).2.2) (lookup key.path (sources inp profile).2.1)
              (lookup key.path (sources inp profile).1) with
      | some l => convert key.ty l = some v
      | none => v = .none ∧ key.required = false := by
  unfold load at h
  simp only [hsel] at h
  split at h
  · cases h
  · obtain ⟨v, hv, hl⟩ := extract_ok_key h hn key hk
    refine ⟨v, hl, ?_⟩
    rw [← lookup_precedence _ _ _ _ hp he]
    unfold extractKey at hv
    split at hv
    · cases hv
    · split at hv
      · rename_i l hlk
        rw [hlk]
        split at hv
        · rename_i w hw
          cases hv
          exact hw
        · cases hv
      · rename_i hlk
        rw [hlk]
        split at hv
        · cases hv
        · rename_i hreq
          cases hv
          exact ⟨rfl, by simpa using hreq⟩

/-- **C18 (3) a missing required key is an error, not a default**: if a profile is selected and
    some required key of the target struct is defined by none of the three sources, `load` fails. -/
theorem missing_required_error (inp : Input) (profile : List Nat)
    (hsel : selectProfile inp.known inp.explicit inp.env = .ok profile)
    (key : Key) (hk : key ∈ inp.schema) (hreq : key.required = true)
    (hb : lookup key.path (sources inp profile).1 = none)
    (hp : lookup key.path (sources inp profile).2.1 = none)
    (he : lookup key.path (sources inp profile).2.2 = none) :
    load inp = .error .extract := by
  unfold load
  simp only [hsel]
  split
  · rfl
  · apply extract_fails_of_key hk (e := .extract)
    have hl : lookup key.path (merge (merge (sources inp profile).1 (sources inp profile).2.1) (sources inp profile).2.2) = none := by
      rw [lookup_merge_general, lookup_merge_general, he, hp, hb]
      simp
    unfold extractKey
    split
    · rfl
    · simp [hl]

/-- **C18 (4) a missing profile is an error**: without an explicit profile, `PX_PROFILE` unset
    fails, and so does a value that is not one of the profile names; no default profile exists. -/
theorem missing_profile_error (inp : Input) (hex : inp.explicit = none) :
    (envVar pxProfileVar inp.env = none → load inp = .error .profileUnset) ∧
    (∀ v, envVar pxProfileVar inp.env = some v → inp.known.contains v = false →
      load inp = .error .profileInvalid) := by
  constructor
  · intro h
    simp [load, selectProfile, hex, h]
  · intro v h hv
    have hv' : ¬ v ∈ inp.known := by simpa using hv
    simp [load, selectProfile, hex, h, hv']

/-- A selected profile whose FILE does not exist is the empty profile (figment treats an absent
    file as an empty source): the result is the env-over-base merge. This is what the code does;
    `missing_profile_error` above is about the profile *selection*. -/
theorem absent_profile_file_is_empty (inp : Input) (profile : List Nat)
    (habs : findFile inp.absolute inp.files profile inp.depth = none) :
    merge (merge (sources inp profile).1 (sources inp profile).2.1) (sources inp profile).2.2 =
      merge (sources inp profile).1 (sources inp profile).2.2 := by
  simp [sources, habs, merge_nil_right]


/-- **C18 (5) `PX_PROFILE` is never a configuration key**: a variable named `PX_PROFILE` (any
    letter case, surrounding blanks ignored, as `figment` reads names) yields no key path at all … -/
theorem profile_var_yields_no_key (name : List Nat) (h : eqUncased (trim name) pxProfileVar = true) :
    envKey name = none :=
  envKey_profile name h

/-- … so the environment source — hence the loaded configuration — is exactly what it would be
    with every such variable removed from the environment, whatever its value. -/
theorem profile_not_a_key (vars : List (List Nat × List Nat)) :
    envSource vars = envSource (vars.filter (fun v => !eqUncased (trim v.1) pxProfileVar)) :=
  envFold_filter_profile vars []

example : envKey [80, 88, 95, 80, 82, 79, 70, 73, 76, 69] = none ∧            -- PX_PROFILE
    envKey [112, 120, 95, 80, 114, 111, 102, 105, 108, 101] = none ∧          -- px_Profile
    envKey [80, 88, 95, 83, 69, 82, 86, 69, 82, 95, 95, 80, 79, 82, 84] = some [[115, 101, 114, 118, 101, 114], [112, 111, 114, 116]] ∧  -- PX_SERVER__PORT
    envKey [80, 88, 95, 80, 82, 79, 70, 73, 76, 69, 95, 95, 88] = some [[112, 114, 111, 102, 105, 108, 101], [120]] := by  -- PX_PROFILE__X is another variable
  decide


/-- A key segment as it appears in a variable name: non-empty, no blank, no dot, no `__` inside and
    no trailing `_` (single underscores inside are fine: `MAX_SIZE`). -/
def SegOk (s : List Nat) : Prop :=
  s ≠ [] ∧ noDU s = true ∧ s.getLast? ≠ some 95 ∧ ∀ b ∈ s, isWs b = false ∧ b ≠ 46

/-- **C18 (6) `__` is the nesting separator**: for every depth and every list of key segments,
    the variable `PX_<S1>__<S2>__…__<Sn>` names exactly the nested key `s1.s2.….sn` (lower-cased) —
    unless that key is the reserved `PROFILE`. -/
theorem env_key_nested (segs : List (List Nat)) (hne : segs ≠ []) (hs : ∀ s ∈ segs, SegOk s)
    (hprof : eqUncased (joinWith [46] segs) profileKey = false) :
    envKey (pxPrefix ++ joinWith [95, 95] segs) = some (segs.map lowerAll) := by
  have hws : ∀ b ∈ pxPrefix ++ joinWith [95, 95] segs, isWs b = false := by
    intro b hb
    rcases List.mem_append.mp hb with h | h
    · simp only [pxPrefix, List.mem_cons, List.mem_nil_iff, or_false] at h
      rcases h with rfl | rfl | rfl <;> decide
    · rcases mem_joinWith h with h1 | ⟨s, hsm, hbs⟩
      · simp only [List.mem_cons, List.mem_nil_iff, or_false] at h1
        rcases h1 with rfl | rfl <;> decide
      · exact ((hs s hsm).2.2.2 b hbs).1
  have hws2 : ∀ b ∈ joinWith [46] segs, isWs b = false := by
    intro b hb
    rcases mem_joinWith hb with h1 | ⟨s, hsm, hbs⟩
    · simp only [List.mem_cons, List.mem_nil_iff, or_false] at h1
      subst h1
      decide
    · exact ((hs s hsm).2.2.2 b hbs).1
  have hk : replaceDU (joinWith [95, 95] segs) = joinWith [46] segs :=
    replaceDU_join segs (fun s h => ⟨(hs s h).2.1, (hs s h).2.2.1⟩)
  have hsplit : splitDot (joinWith [46] segs) = segs :=
    splitDot_join segs hne (fun s h hm => ((hs s h).2.2.2 46 hm).2 rfl)
  have hany : segs.any (·.isEmpty) = false := by
    rw [List.any_eq_false]
    intro s h
    have := (hs s h).1
    cases s with
    | nil => exact absurd rfl this
    | cons _ _ => simp
  unfold envKey
  simp only [trim_id_of_all hws]
  have htake : (pxPrefix ++ joinWith [95, 95] segs).take 3 = pxPrefix := by simp [pxPrefix]
  have hdrop : (pxPrefix ++ joinWith [95, 95] segs).drop 3 = joinWith [95, 95] segs := by simp [pxPrefix]
  have hlen : 3 ≤ (pxPrefix ++ joinWith [95, 95] segs).length := by simp [pxPrefix]
  simp only [htake, hdrop, eqUncased_refl, hlen, decide_true, Bool.and_self, if_true, hk, hprof,
    Bool.false_eq_true, if_false, trim_id_of_all hws2, hsplit, hany]

example : envKey (pxPrefix ++ joinWith [95, 95] [[68, 66], [80, 79, 79, 76], [77, 65, 88, 95, 83, 73, 90, 69]]) =
    some [[100, 98], [112, 111, 111, 108], [109, 97, 120, 95, 115, 105, 122, 101]] := by decide  -- PX_DB__POOL__MAX_SIZE

end Pxv.Config
