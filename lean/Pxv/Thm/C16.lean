import Pxv.Model.Server
/-!
C16 — graceful shutdown drains in-flight requests and stops accepting new ones.
(first cut; extended below)
-/
namespace Pxv.Server

/-- Once the acceptor has left `listening`, no connection can be accepted, dispatched or dropped. -/
theorem no_intake_unless_listening (cfg : Cfg) (s : State) (h : s.acc.phase ≠ .listening) (c w : Nat) (r : DRes) :
    step cfg s (.accept c) = none ∧ step cfg s (.dispatch c w r) = none ∧ step cfg s (.dropConn c) = none := by
  simp [step, h]

end Pxv.Server
