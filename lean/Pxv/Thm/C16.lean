import Pxv.Model.Server
import Pxv.Lemmas.Server
/-!
C16 — graceful shutdown drains in-flight requests and stops accepting new ones.

Property theorems only (helper lemmas and the inductive invariants: `Pxv/Lemmas/Server.lean`).
Every theorem is about `Pxv.Server.step` as it is and quantifies over ALL schedules: an arbitrary event
list replayed by `run` (= every interleaving of the acceptor thread, any number of worker threads, any
number of connections, timers firing whenever they like), every worker count `cfg.n` and every queue
capacity `cfg.cap`. `Reachable cfg s` = "`s` occurs in some execution from the initial state".

The claim for C16 is PARTIAL: the theorems cover pavex's own acceptor/worker protocol. That hyper answers
an in-flight request in full under `GracefulShutdown`, and that tokio's channels and `LocalSet` behave as
the guards of `step` say, is assumed (named in `Model/Server.lean`) and validated on every run by trace
conformance against the real server.
-/
namespace Pxv.Server

/-! ### Concrete executions used to show that the hypotheses below are satisfiable -/

/-- One worker; connection 0 is mid-handler and connection 1 is still QUEUED at the worker when the
    Graceful command overtakes it; both are served before the shutdown resolves. -/
def demoGraceful : List Event :=
  [.accept 0, .dispatch 0 0 .ok, .wRecv 0 0, .cPoll 0, .hBegin 0 0, .accept 1, .dispatch 1 0 .ok,
   .call .graceful, .cmdSent, .accShutdown .graceful, .accSend 0, .accWaitStart,
   .hEnd 0 0, .wShutdown 0 .graceful, .wClose 0, .wDrain 0 1, .wDrainEnd 0, .cPoll 1, .hBegin 1 0,
   .wSignal 0, .hEnd 1 0, .cEnd 0 true, .cEnd 1 true, .wWaitEnd 0 .complete, .wNotify 0,
   .accWaitEnd .complete, .accNotify, .accExit, .returned, .handleDone]

/-- Two workers, Forced, with a handler in flight and a connection queued: resolves without them. -/
def demoForced : List Event :=
  [.accept 0, .dispatch 0 0 .ok, .wRecv 0 0, .cPoll 0, .hBegin 0 0, .accept 1, .dispatch 1 0 .ok,
   .call .forced, .accShutdown .forced, .accSend 0, .accSend 1, .accNotify, .accExit, .returned, .handleDone,
   .wShutdown 1 .forced, .wNotify 1, .wShutdown 0 .forced, .wNotify 0, .cEnd 0 false]

def cfg1 : Cfg := { n := 1 }
def cfg2 : Cfg := { n := 2 }

example : (run cfg1 init demoGraceful).isSome = true := by decide
example : (run cfg2 init demoForced).isSome = true := by decide

/-! ### 1. After the shutdown command no new connection is accepted or dispatched -/

/-- `e` takes a connection in: accept / dispatch attempt / drop. -/
def Event.isIntake : Event → Bool
  | .accept _ => true
  | .dispatch _ _ _ => true
  | .dropConn _ => true
  | _ => false

/-- In a state where the acceptor is no longer listening no intake event is possible. -/
theorem no_intake_unless_listening (cfg : Cfg) (s : State) (h : s.acc.phase ≠ .listening) (c w : Nat) (r : DRes) :
    step cfg s (.accept c) = none ∧ step cfg s (.dispatch c w r) = none ∧ step cfg s (.dropConn c) = none := by
  simp [step, h]

/-- **C16 (1) no_dispatch_after_shutdown.** In every execution, after the acceptor has taken the shutdown
    command (`accShutdown`), no connection is accepted, dispatched or dropped any more, and the set of
    connections ever handed to each worker is frozen. -/
theorem no_dispatch_after_shutdown (cfg : Cfg) (es₁ es₂ : List Event) (m : Mode) (s : State)
    (h : run cfg init (es₁ ++ .accShutdown m :: es₂) = some s) :
    (∀ e, e ∈ es₂ → e.isIntake = false) ∧
      ∃ s₁, run cfg init (es₁ ++ [.accShutdown m]) = some s₁ ∧ ∀ w, (s.w w).dispatched = (s₁.w w).dispatched := by
  obtain ⟨s₀, h0, h1⟩ := run_append h
  obtain ⟨s₁, h2, h3⟩ := run_cons h1
  have hp : s₁.acc.phase ≠ .listening := by
    simp only [step] at h2
    split at h2
    · cases h2; simp
    · cases h2
  refine ⟨?_, s₁, run_append_of h0 (by simp [run, h2]), (frozen_run hp h3).2⟩
  have key : ∀ (es : List Event) (t : State), t.acc.phase ≠ .listening → run cfg t es = some s →
      ∀ e, e ∈ es → e.isIntake = false := by
    intro es
    induction es with
    | nil => intro _ _ _ e he; cases he
    | cons e' es ih =>
      intro t ht hr e he
      obtain ⟨t₁, g1, g2⟩ := run_cons hr
      cases he with
      | head =>
        cases e' <;> first | rfl | (simp [step, ht] at g1)
      | tail _ hmem => exact ih t₁ (frozen_step ht g1).1 g2 e hmem
  exact key es₂ s₁ hp h3

example : ∃ es₁ es₂ m s, run cfg1 init (es₁ ++ .accShutdown m :: es₂) = some s ∧ es₂ ≠ [] :=
  ⟨demoGraceful.take 9, demoGraceful.drop 10, .graceful, (run cfg1 init demoGraceful).get (by decide),
    by simp [demoGraceful], by decide⟩

/-- A worker's inbox is closed only after the acceptor has stopped listening; a closed inbox takes nothing. -/
theorem no_enqueue_after_close (cfg : Cfg) (s : State) (h : Reachable cfg s) (w : Nat)
    (hc : (s.w w).closed = true) :
    s.acc.phase ≠ .listening ∧ ∀ c, step cfg s (.dispatch c w .ok) = none := by
  have hi := (inv_reachable h).coupling w
  constructor
  · intro hl
    have := hi (by simp [hl, sentTo])
    simp [Worker.pristine] at this
    simp_all
  · intro c; simp [step, hc]

/-- While the acceptor listens no worker has been touched by the shutdown: `dispatch` never sees a closed
    inbox, i.e. the "worker crashed, restarting it" branch is dead code in every execution. -/
theorem dispatch_never_closed (cfg : Cfg) (s : State) (h : Reachable cfg s) (c w : Nat) :
    step cfg s (.dispatch c w .closed) = none := by
  have hi := (inv_reachable h).coupling w
  simp only [step]
  split
  · rename_i hg
    have := hi (by simp [hg.1, sentTo])
    simp [Worker.pristine] at this
    simp [this]
  · rfl

/-! ### 2. Every connection queued at a worker is started before the drain ends -/

/-- **C16 (2) queued_are_started.** In every reachable state, a worker that is past its drain loop has handed
    to hyper (`handle_connection`) exactly the connections that were ever dispatched to it, in dispatch
    order — in particular a connection that was still sitting in its inbox when the shutdown command
    overtook it. Its inbox is empty. -/
theorem queued_are_started (cfg : Cfg) (s : State) (h : Reachable cfg s) (w : Nat) (hp : pastDrain (s.w w)) :
    (s.w w).started = (s.w w).dispatched ∧ (s.w w).queue = [] := by
  have hi := inv_reachable h
  have hq := hi.drained w hp
  have hc := hi.conserv w
  simp [hq] at hc
  exact ⟨hc.symm, hq⟩

example : (run cfg1 init (demoGraceful.take 20)).map
    (fun s => decide ((s.w 0).phase = .waiting ∧ (s.w 0).started = [0, 1])) = some true := by decide

/-- FIFO conservation at every moment: dispatched = started ++ still queued. -/
theorem dispatched_eq_started_append_queue (cfg : Cfg) (s : State) (h : Reachable cfg s) (w : Nat) :
    (s.w w).dispatched = (s.w w).started ++ (s.w w).queue :=
  (inv_reachable h).conserv w

/-- Nothing is started after the signal: what a signalled worker has started, it started before. -/
theorem no_start_after_signal (cfg : Cfg) (s s' : State) (h : Reachable cfg s) (w : Nat) (es : List Event)
    (hsig : (s.w w).signalled = true) (hr : run cfg s es = some s') :
    (s'.w w).started = (s.w w).started := by
  have hi := inv_reachable h
  induction es generalizing s with
  | nil => cases hr; rfl
  | cons e es ih =>
    obtain ⟨s₁, h1, h2⟩ := run_cons hr
    obtain ⟨g1, g2⟩ := started_frozen_step hi.wflags hi.coupling w hsig h1
    obtain ⟨es₀, h0⟩ := h
    have hr1 : Reachable cfg s₁ := ⟨es₀ ++ [e], run_append_of h0 (by simp [run, h1])⟩
    rw [ih s₁ hr1 g1 h2 (inv_reachable hr1), g2]

/-- **C16 (2') started connections are polled before the signal** (needs the yield of the `fix:` commit).
    No connection is ever first polled after `GracefulShutdown`'s signal — the situation in which hyper-util
    drops it without reading the request waiting on its socket; and when a worker sends the signal every
    connection it has started has already been polled. -/
theorem started_polled_before_signal (cfg : Cfg) (hy : cfg.yieldPolicy = .always) (s : State)
    (h : Reachable cfg s) :
    (∀ c, (s.c c).cancelled = false ∧ (s.c c).phase ≠ .doomed) ∧
      ∀ w, (s.w w).signalled = true → ∀ c, c ∈ (s.w w).started → (s.c c).phase ≠ .spawned := by
  have hn := nocancel_reachable hy h
  have hi := inv_reachable h
  refine ⟨fun c => (hn c).2, ?_⟩
  intro w hsig c hc hsp
  obtain ⟨hw, _⟩ := hi.links.2.2.2 w c hc
  have := ((hn c).1 hsp).2
  rw [hw] at this
  simp [this] at hsig

example : cfg1.yieldPolicy = .always ∧ (run cfg1 init (demoGraceful.take 20)).map
    (fun s => (s.w 0).signalled) = some true := by decide

/-- **Finding (the code before the `fix:` commit).** Without the yield the faithful model violates the
    property: connection 1 is queued at the worker BEFORE the shutdown call, the worker drains it, signals,
    and only then is the connection polled for the first time: it is cancelled, its handler never runs,
    although the shutdown then resolves gracefully with no timeout. (Replayed on the real code: corpus/C16.) -/
def witnessNoYield : List Event :=
  [.accept 0, .dispatch 0 0 .ok, .wRecv 0 0, .cPoll 0, .hBegin 0 0, .accept 1, .dispatch 1 0 .ok,
   .call .graceful, .cmdSent, .accShutdown .graceful, .accSend 0, .accWaitStart,
   .hEnd 0 0, .wShutdown 0 .graceful, .wClose 0, .wDrain 0 1, .wDrainEnd 0, .wSignal 0, .cPoll 1,
   .cEnd 1 true, .cEnd 0 true, .wWaitEnd 0 .complete, .wNotify 0, .accWaitEnd .complete, .accNotify]

theorem queued_connection_cancelled_without_yield :
    (run { n := 1, yieldPolicy := .never } init witnessNoYield).map
      (fun s => decide ((s.c 1).cancelled = true ∧ (s.c 1).begun = 0 ∧ 1 ∈ (s.w 0).dispatched ∧
        s.acc.resolved = true ∧ s.acc.timedOut = false ∧ (s.w 0).timedOut = false)) = some true := by
  decide

/-- ... and with the yield that very schedule is impossible. -/
theorem witness_impossible_with_yield : run { n := 1 } init witnessNoYield = none := by
  decide

/-- **Refuted variant: yield only if the drain loop found something** (`YieldPolicy.ifDrained`, "no need to
    go through the scheduler if the queue was empty"). The queued case above is then covered ... -/
theorem conditional_yield_covers_queued :
    run { n := 1, yieldPolicy := .ifDrained } init witnessNoYield = none := by
  decide

/-- ... but not a connection that the REGULAR loop took off the queue and spawned (`wRecv`) and that has
    not been polled yet when the Graceful command reaches the worker with an EMPTY queue: nothing is
    drained, the worker does not yield, signals, and the connection — dispatched, and its request on the
    socket, BEFORE the shutdown call — is first polled after the signal: cancelled unread, handler never
    run, while the shutdown resolves gracefully with no timeout anywhere. (Reached deterministically on
    the real code by parking the worker at the `after_spawn` / `after_recv` failpoint: corpus/C16.) -/
def witnessSpawnedUnpolled : List Event :=
  [.accept 0, .dispatch 0 0 .ok, .wRecv 0 0,
   .call .graceful, .cmdSent, .accShutdown .graceful, .accSend 0, .accWaitStart,
   .wShutdown 0 .graceful, .wClose 0, .wDrainEnd 0, .wSignal 0, .cPoll 0,
   .cEnd 0 true, .wWaitEnd 0 .complete, .wNotify 0, .accWaitEnd .complete, .accNotify]

theorem spawned_connection_cancelled_with_conditional_yield :
    (run { n := 1, yieldPolicy := .ifDrained } init witnessSpawnedUnpolled).map
      (fun s => decide ((s.c 0).cancelled = true ∧ (s.c 0).begun = 0 ∧ 0 ∈ (s.w 0).dispatched ∧
        (s.w 0).drainedAny = false ∧
        s.acc.resolved = true ∧ s.acc.timedOut = false ∧ (s.w 0).timedOut = false)) = some true := by
  decide

/-- The same schedule also breaks the code without any yield, and is impossible with the unconditional one:
    there the signal has to wait for `cPoll 0`. -/
theorem witness_spawned_without_yield :
    (run { n := 1, yieldPolicy := .never } init witnessSpawnedUnpolled).map
      (fun s => decide ((s.c 0).cancelled = true ∧ (s.c 0).begun = 0)) = some true := by
  decide

theorem witness_spawned_impossible_with_yield : run { n := 1 } init witnessSpawnedUnpolled = none := by
  decide

/-- Under EVERY policy: a worker that did yield (`cfg.yields`) when it signalled left no started connection
    unpolled at that moment — the guard of `wSignal` is exactly the difference between the policies. -/
theorem signal_after_yield_sees_no_unpolled (cfg : Cfg) (s s' : State) (w : Nat)
    (hs : step cfg s (.wSignal w) = some s') (hy : cfg.yields (s.w w) = true) :
    ∀ c, c ∈ (s.w w).started → (s.c c).phase ≠ .spawned := by
  simp only [step] at hs
  split at hs
  · rename_i hg
    have := hg.2 hy
    rw [allPhase_iff] at this
    intro c hc
    simpa using this c hc
  · cases hs

example : ∃ s s', step cfg1 s (.wSignal 0) = some s' ∧ cfg1.yields (s.w 0) = true ∧ (s.w 0).started = [0, 1] :=
  ⟨(run cfg1 init (demoGraceful.take 19)).get (by decide), _, rfl, by decide, by decide⟩

/-! ### 3. When the shutdown future resolves -/

/-- **C16 (3) graceful_resolution.** If `ServerHandle::shutdown(Graceful)` has resolved (the caller has been
    notified), then every worker had notified the acceptor or the acceptor's timeout fired; and a worker
    that notified after a Graceful command had seen every connection it started finish, or its own
    timeout fired. `returned` events only ever happen after the notification. -/
theorem graceful_resolution (cfg : Cfg) (s : State) (h : Reachable cfg s) :
    (0 < s.acc.returned → s.acc.resolved = true) ∧
    (s.acc.resolved = true → s.acc.mode = some .graceful →
        (∀ w, w < cfg.n → (s.w w).notified = true) ∨ s.acc.timedOut = true) ∧
    (∀ w, (s.w w).notified = true → (s.w w).forced = false →
        (∀ c, c ∈ (s.w w).started → (s.c c).phase = .ended) ∨ (s.w w).timedOut = true) := by
  have hi := inv_reachable h
  obtain ⟨a1, _, _, _, _, a6, _⟩ := hi.aflags
  refine ⟨a6, ?_, ?_⟩
  · intro hres hm
    exact hi.resol (by have := a1.1 hres; simp_all) hm
  · intro w hn hf
    have := (hi.wflags w).2.2.1.1 hn
    exact hi.wdone w (Or.inr this) hf

example : (run cfg1 init demoGraceful).map
    (fun s => decide (0 < s.acc.returned ∧ s.acc.mode = some .graceful ∧ (s.w 0).notified = true ∧
      (s.w 0).forced = false ∧ s.acc.timedOut = false)) = some true := by decide

/-- **C16 (2)+(3) drain is complete.** Graceful shutdown resolved, no timeout fired anywhere: then EVERY
    connection that was ever dispatched to any worker — whether it was queued, spawned, mid-handler or idle
    when the command arrived — was started, was polled before the signal (never cancelled), and its task
    ran until it was gone. (That hyper answers the request of such a connection in full is the named
    assumption.) -/
theorem graceful_drain_complete (cfg : Cfg) (hy : cfg.yieldPolicy = .always) (s : State)
    (h : Reachable cfg s) (hres : s.acc.resolved = true) (hm : s.acc.mode = some .graceful)
    (hto : s.acc.timedOut = false) (w : Nat) (hw : w < cfg.n) (hwto : (s.w w).timedOut = false) :
    ∀ c, c ∈ (s.w w).dispatched → c ∈ (s.w w).started ∧ (s.c c).phase = .ended ∧ (s.c c).cancelled = false := by
  have hi := inv_reachable h
  obtain ⟨_, h3a, h3b⟩ := graceful_resolution cfg s h
  have hn : (s.w w).notified = true := by
    rcases h3a hres hm with h' | h'
    · exact h' w hw
    · simp [hto] at h'
  have hex := (hi.wflags w).2.2.1.1 hn
  have hnf : (s.w w).forced = false := by
    have := ((hi.modeagree w).2 (by simp [hex])).1
    cases hf : (s.w w).forced
    · rfl
    · have := ((hi.modeagree w).2 (by simp [hex])).2 hf
      simp [hm] at this
  have hq := queued_are_started cfg s h w (Or.inr (Or.inr ⟨Or.inr hex, hnf⟩))
  intro c hc
  rw [← hq.1] at hc
  refine ⟨hc, ?_, ((started_polled_before_signal cfg hy s h).1 c).1⟩
  rcases h3b w hn hnf with h' | h'
  · exact h' c hc
  · simp [hwto] at h'

example : (run cfg1 init demoGraceful).map
    (fun s => decide (s.acc.resolved = true ∧ s.acc.mode = some .graceful ∧ s.acc.timedOut = false ∧
      (s.w 0).timedOut = false ∧ (s.w 0).dispatched = [0, 1] ∧ (s.c 1).served = 1)) = some true := by decide

/-! ### 4. Forced resolves promptly -/

/-- The acceptor's own remaining steps of a Forced shutdown from command `i` on. -/
def forcedTail (cfg : Cfg) (i : Nat) : List Event :=
  (List.range' i (cfg.n - i)).map .accSend ++ [.accNotify]

/-- **C16 (4) forced_prompt.** Once the acceptor has taken a `Forced` command, whatever the workers and
    connections are doing (ANY state `s` with that acceptor phase: handlers in flight, workers blocked,
    connections queued), the acceptor's own next `n - i + 1` steps — one `send` per remaining worker and the
    notification — are all enabled, involve no wait and no worker or connection event, and resolve the
    shutdown. -/
theorem forced_prompt (cfg : Cfg) (s : State) (i : Nat) (hp : s.acc.phase = .sending .forced i) (hi : i ≤ cfg.n) :
    ∃ s', run cfg s (forcedTail cfg i) = some s' ∧ s'.acc.resolved = true ∧
      (∀ c, s'.c c = s.c c) := by
  generalize hk : cfg.n - i = k
  induction k generalizing s i with
  | zero =>
    have : i = cfg.n := by omega
    subst this
    refine ⟨s.setAcc { s.acc with phase := .notified, resolved := true }, ?_, rfl, fun _ => rfl⟩
    simp [forcedTail, run, step, hp]
  | succ k ih =>
    have hlt : i < cfg.n := by omega
    let s₁ := (s.setAcc { s.acc with phase := .sending .forced (i + 1) }).setW i
      { s.w i with cmds := (s.w i).cmds ++ [.forced] }
    have hstep : step cfg s (.accSend i) = some s₁ := by
      simp [step, hp, hlt, s₁]
    obtain ⟨s', hr, hres, hcs⟩ := ih s₁ (i + 1) (by simp [s₁]) (by omega) (by omega)
    refine ⟨s', ?_, hres, fun c => by rw [hcs c]; simp [s₁]⟩
    have hn : cfg.n - i = (cfg.n - (i + 1)) + 1 := by omega
    simp only [forcedTail, hn, List.range'_succ, List.map_cons, List.cons_append, run, hstep]
    exact hr

example : (run cfg2 init (demoForced.take 9)).map (fun s => decide (s.acc.phase = .sending .forced 0 ∧
    (s.c 0).phase = .inflight ∧ (s.c 1).phase = .queued)) = some true := by decide

/-- In Forced mode neither the acceptor nor any worker ever enters a wait. -/
theorem forced_never_waits (cfg : Cfg) (s : State) (h : Reachable cfg s) (hm : s.acc.mode = some .forced) :
    s.acc.phase ≠ .waiting ∧ s.acc.phase ≠ .finishing ∧ ∀ w, (s.w w).phase ≠ .waiting ∧ (s.w w).phase ≠ .draining := by
  have hi := inv_reachable h
  obtain ⟨_, _, a3, _, _, _, _⟩ := hi.aflags
  refine ⟨fun hp => ?_, fun hp => ?_, fun w => ?_⟩
  · have := a3 (Or.inl hp); simp [hm] at this
  · have := a3 (Or.inr hp); simp [hm] at this
  · have hma := (hi.modeagree w).2
    have hwf := hi.wflags w
    constructor <;> intro hp
    · have hf := (hma (by simp [hp])).1 hm
      have := hwf.2.1 hf
      simp [hp] at this
    · have hf := (hma (by simp [hp])).1 hm
      have := hwf.2.1 hf
      simp [hp] at this

/-! ### 5. The handle future, and progress -/

/-- **C16 (5) handle_future_resolves.**
    Safety: the handle future resolves only after the acceptor has exited, which is after the caller of
    `shutdown` was notified. Progress ("no blocking state"): in EVERY reachable state in which the acceptor
    has taken a shutdown command — Graceful or Forced — there is a continuation consisting only of the
    acceptor's own steps and (Graceful) its timer, at most `n + 4` of them, none of which needs a worker or
    a connection to do anything, after which the acceptor has exited, so that both `shutdown(..)` and
    `handle.await` can resolve. Under weak fairness of the acceptor thread and its timer this is: both
    futures resolve in both modes. -/
theorem handle_future_resolves (cfg : Cfg) (s : State) (h : Reachable cfg s) :
    (s.acc.handleDone = true → s.acc.phase = .exited ∧ s.acc.resolved = true) ∧
    (s.acc.phase ≠ .listening →
      ∃ es s', run cfg s es = some s' ∧ es.length ≤ cfg.n + 4 ∧
        (∃ s'', run cfg s' [.returned, .handleDone] = some s'' ∧ s''.acc.handleDone = true ∧ 0 < s''.acc.returned)) := by
  have hi := inv_reachable h
  obtain ⟨a1, a2, a3, a4, a5, a6, a7⟩ := hi.aflags
  constructor
  · intro hd
    have := a7 hd
    exact ⟨this, a1.2 (Or.inr this)⟩
  · intro hp
    have fin : ∀ s' : State, s'.acc.phase = .exited → Inv cfg s' →
        ∃ s'', run cfg s' [.returned, .handleDone] = some s'' ∧ s''.acc.handleDone = true ∧ 0 < s''.acc.returned := by
      intro s' hex hi'
      have hres : s'.acc.resolved = true := hi'.aflags.1.2 (Or.inr hex)
      exact ⟨_, by simp [run, step, hres, hex]; rfl, rfl, by simp⟩
    cases hph : s.acc.phase with
    | listening => exact absurd hph hp
    | sending m i =>
      obtain ⟨_, hile⟩ := a2 m i hph
      obtain ⟨s', hr, hex⟩ := accTail_runs cfg s m i hph hile
      refine ⟨accTail cfg m i, s', hr, ?_, fin s' hex (inv_run hi hr)⟩
      cases m <;> simp [accTail] <;> omega
    | waiting =>
      have hx : ∃ s', run cfg s [.accWaitEnd .timeout, .accNotify, .accExit] = some s' ∧ s'.acc.phase = .exited := by
        simp [run, step, hph]
      obtain ⟨s', hr, hex⟩ := hx
      exact ⟨_, s', hr, by simp, fin s' hex (inv_run hi hr)⟩
    | finishing =>
      have hx : ∃ s', run cfg s [.accNotify, .accExit] = some s' ∧ s'.acc.phase = .exited := by
        simp [run, step, hph]
      obtain ⟨s', hr, hex⟩ := hx
      exact ⟨_, s', hr, by simp, fin s' hex (inv_run hi hr)⟩
    | notified =>
      have hx : ∃ s', run cfg s [.accExit] = some s' ∧ s'.acc.phase = .exited := by
        simp [run, step, hph]
      obtain ⟨s', hr, hex⟩ := hx
      exact ⟨_, s', hr, by simp, fin s' hex (inv_run hi hr)⟩
    | exited =>
      exact ⟨[], s, rfl, by simp, fin s hph hi⟩

/-- **C16 (5') the command is always taken.** In every reachable state in which the acceptor still listens
    and a `shutdown(m)` call is pending, the acceptor's dispatch loop for the connection in hand (if any)
    terminates after at most `n` non-blocking `try_send`s — handing the connection over or dropping it — and the
    command is taken: no state in which the acceptor listens can block a pending shutdown. Together with
    `handle_future_resolves` the acceptor reaches `exited` by at most `2 n + 6` of its own steps. -/
theorem shutdown_command_taken (cfg : Cfg) (hn : 0 < cfg.n) (s : State) (h : Reachable cfg s)
    (hp : s.acc.phase = .listening) (m : Mode) (hm : m ∈ s.acc.calls) :
    ∃ es s', run cfg s es = some s' ∧ s'.acc.phase = .sending m 0 ∧ es.length ≤ cfg.n + 2 := by
  have hi := inv_reachable h
  have hr : TakeReady cfg m s := by
    refine ⟨hp, hm, hi.ranges.1 hn, hi.ranges.2, fun w => ?_⟩
    have := hi.coupling w (by simp [hp, sentTo])
    exact this.2.2.1
  cases hc : s.acc.cur with
  | none =>
    obtain ⟨s', g1, g2⟩ := take_now cfg m s hr hc
    exact ⟨_, s', g1, g2, by simp⟩
  | some c =>
    obtain ⟨es, s', g1, g2, g3⟩ := take_after_dispatch cfg m (cfg.n - s.acc.tries) s c hr hc rfl
    exact ⟨es, s', g1, g2, by omega⟩

example : (run cfg1 init (demoGraceful.take 8)).map (fun s => decide (s.acc.phase = .listening ∧
    Mode.graceful ∈ s.acc.calls ∧ (s.c 1).phase = .queued)) = some true := by decide

example : (run cfg1 init (demoGraceful.take 12)).map (fun s => decide (s.acc.phase = .waiting ∧
    (s.c 0).phase = .inflight ∧ (s.c 1).phase = .queued ∧ (s.w 0).phase = .running)) = some true := by decide

/-! ### 6. Worker-side progress: a worker that has been told to shut down can always finish -/

/-- **C16 (6) worker_can_always_finish** ("no blocking state" on the worker side). In every reachable state,
    a worker that has a shutdown command in its inbox, or is anywhere past taking one, has a continuation made
    only of its own steps, first polls of connection tasks it has spawned, and (Graceful) its own timer, after
    which it has notified the acceptor and exited: the drain loop always terminates (nothing can be enqueued
    behind a closed inbox), the yield lets every spawned task be polled, and the wait is bounded by the
    timeout. Under weak fairness of the worker thread this is: every worker eventually notifies. -/
theorem worker_can_always_finish (cfg : Cfg) (s : State) (h : Reachable cfg s) (w : Nat) (hw : w < cfg.n)
    (hp : (s.w w).phase ≠ .running ∨ (s.w w).cmds ≠ []) :
    ∃ es s', run cfg s es = some s' ∧ (s'.w w).phase = .exited ∧ (s'.w w).notified = true := by
  -- each stage, for an arbitrary state satisfying the invariants
  have fromFinishing : ∀ t : State, (t.w w).phase = .finishing →
      ∃ es s', run cfg t es = some s' ∧ (s'.w w).phase = .exited ∧ (s'.w w).notified = true := by
    intro t ht
    exact ⟨[.wNotify w], _, by simp [run, step, ht]; rfl, by simp, by simp⟩
  have chain : ∀ (t : State) (es : List Event) (t' : State), run cfg t es = some t' →
      (∃ es' s', run cfg t' es' = some s' ∧ (s'.w w).phase = .exited ∧ (s'.w w).notified = true) →
      ∃ es' s', run cfg t es' = some s' ∧ (s'.w w).phase = .exited ∧ (s'.w w).notified = true := by
    intro t es t' hr ⟨es', s', g1, g2, g3⟩
    exact ⟨es ++ es', s', run_append_of hr g1, g2, g3⟩
  have fromWaiting : ∀ t : State, (t.w w).phase = .waiting →
      ∃ es s', run cfg t es = some s' ∧ (s'.w w).phase = .exited ∧ (s'.w w).notified = true := by
    intro t ht
    have h1 : ∃ t', run cfg t [.wWaitEnd w .timeout] = some t' ∧ (t'.w w).phase = .finishing := by
      simp [run, step, ht]
    obtain ⟨t', g1, g2⟩ := h1
    exact chain t _ t' g1 (fromFinishing t' g2)
  have fromDrained : ∀ t : State, Inv cfg t → (t.w w).phase = .drained →
      ∃ es s', run cfg t es = some s' ∧ (s'.w w).phase = .exited ∧ (s'.w w).notified = true := by
    intro t hi ht
    have hsig : (t.w w).signalled = false := by
      cases hsg : (t.w w).signalled
      · rfl
      · have := (hi.wflags w).1 hsg; simp [ht] at this
    obtain ⟨es, t', g1, g2, _, g4⟩ := poll_all cfg w (t.w w).started t ht hsig
      (fun c hc => (hi.links.2.2.2 w c hc).1)
    have h1 : ∃ t'', run cfg t' [.wSignal w] = some t'' ∧ (t''.w w).phase = .waiting := by
      have : allPhase t' (fun p => p != .spawned) (t.w w).started = true := by
        rw [allPhase_iff]; intro c hc; simpa using g4 c hc
      simp [run, step, g2, ht, this]
    obtain ⟨t'', g5, g6⟩ := h1
    exact chain t _ t' g1 (chain t' _ t'' g5 (fromWaiting t'' g6))
  have fromDraining : ∀ t : State, Inv cfg t → (t.w w).phase = .draining →
      ∃ es s', run cfg t es = some s' ∧ (s'.w w).phase = .exited ∧ (s'.w w).notified = true := by
    intro t hi ht
    obtain ⟨es, t', g1, g2⟩ := drain_all cfg w (t.w w).queue t ht rfl
    exact chain t _ t' g1 (fromDrained t' (inv_run hi g1) g2)
  have fromClosing : ∀ t : State, Inv cfg t → (t.w w).phase = .closing →
      ∃ es s', run cfg t es = some s' ∧ (s'.w w).phase = .exited ∧ (s'.w w).notified = true := by
    intro t hi ht
    have h1 : ∃ t', run cfg t [.wClose w] = some t' ∧ (t'.w w).phase = .draining := by
      simp [run, step, ht]
    obtain ⟨t', g1, g2⟩ := h1
    exact chain t _ t' g1 (fromDraining t' (inv_run hi g1) g2)
  have hi := inv_reachable h
  cases hph : (s.w w).phase with
  | running =>
    have hc : (s.w w).cmds ≠ [] := by
      rcases hp with hp | hp
      · exact absurd hph hp
      · exact hp
    cases hcm : (s.w w).cmds with
    | nil => exact absurd hcm hc
    | cons m rest =>
      cases m with
      | graceful =>
        have h1 : ∃ t', run cfg s [.wShutdown w .graceful] = some t' ∧ (t'.w w).phase = .closing := by
          simp [run, step, hcm, hw, hph]
        obtain ⟨t', g1, g2⟩ := h1
        exact chain s _ t' g1 (fromClosing t' (inv_run hi g1) g2)
      | forced =>
        have h1 : ∃ t', run cfg s [.wShutdown w .forced] = some t' ∧ (t'.w w).phase = .finishing := by
          simp [run, step, hcm, hw, hph]
        obtain ⟨t', g1, g2⟩ := h1
        exact chain s _ t' g1 (fromFinishing t' g2)
  | closing => exact fromClosing s hi hph
  | draining => exact fromDraining s hi hph
  | drained => exact fromDrained s hi hph
  | waiting => exact fromWaiting s hph
  | finishing => exact fromFinishing s hph
  | exited => exact ⟨[], s, rfl, hph, ((hi.wflags w).2.2.1).2 hph⟩

example : (run cfg1 init (demoGraceful.take 13)).map (fun s => decide ((s.w 0).phase = .running ∧
    (s.w 0).cmds = [.graceful] ∧ (s.w 0).queue = [1])) = some true := by decide

end Pxv.Server
