import Pxv.Model.Ty
import Pxv.Model.TySpec
import Pxv.Lemmas.Ty
import Pxv.Lemmas.TyEquiv
import Pxv.Lemmas.TyCanon
import Pxv.Lemmas.TyCanon2
import Pxv.Lemmas.TyLifetimes
import Pxv.Model.TyParse
import Pxv.Lemmas.TyParse4
import Pxv.Lemmas.TyRenderLk
/-!
C17 — the type algebra used for dependency matching obeys its laws.
Property theorems only; every statement is for all types, of any nesting depth.
-/
namespace Pxv.Ty

/-- **C17 (1) template/bind**: if `T` is reported to be a template for a concrete type `C` with
    bindings `b`, then substituting `b` into `T` yields `C` up to lifetimes (`eraseLt` forgets only
    lifetimes, fn-pointer parameter names and rustdoc ids). -/
theorem template_bind (T C : Ty) (b : List (String × Ty)) (hC : isTemplate C = false)
    (h : isTemplateFor T C = some b) : eraseLt (bind b T) = eraseLt C :=
  (tmplGo_sound T C [] b hC h).2 b (BLe.refl b)

/-- **C17 (1')**: in particular reference mutability is kept: where the template has `&T'` / `&mut T'`
    the concrete type has a reference of the same mutability. -/
theorem refMut_preserved (m m' : Bool) (l l' : Lt) (T' C' : Ty) (b : List (String × Ty))
    (hC : isTemplate C' = false) (h : isTemplateFor (.ref m l T') (.ref m' l' C') = some b) :
    m = m' ∧ eraseLt (bind b T') = eraseLt C' := by
  have := template_bind (.ref m l T') (.ref m' l' C') b (by simpa [isTemplate] using hC) h
  simpa [bind, eraseLt] using this

-- Non-vacuity: `k::Holder<&'a mut T, U>` is a template for `k::Holder<&mut u8, (bool,)>`.
example : isTemplateFor
    (.path false "p" (some 1) ["k", "Holder"] (.ty (.ref true (.named "a") (.generic "T")) (.ty (.generic "U") .nil)))
    (.path false "p" none ["k", "Holder"] (.ty (.ref true .elided (.scalar .u8)) (.ty (.tuple (.cons (.scalar .bool) .nil)) .nil)))
    = some [("U", .tuple (.cons (.scalar .bool) .nil)), ("T", .scalar .u8)] := by decide +kernel
-- `&T` is no longer a template for `&mut u8` (it was before the `fix:` commit).
example : isTemplateFor (.ref false .elided (.generic "T")) (.ref true .elided (.scalar .u8)) = none := by decide +kernel
-- The concreteness hypothesis is needed: against a type that itself has generic parameters the early
-- `concrete == self` exit skips a binding (`(X, X)` vs `(X, u8)` answers `X ↦ u8`).
example : ∃ T C b, isTemplateFor T C = some b ∧ eraseLt (bind b T) ≠ eraseLt C :=
  ⟨.tuple (.cons (.generic "X") (.cons (.generic "X") .nil)),
   .tuple (.cons (.generic "X") (.cons (.scalar .u8) .nil)), [("X", .scalar .u8)], by decide +kernel, by decide +kernel⟩

/-! ### Equivalence up to renaming of generic parameters -/

/-- **C17 (2a)** reflexive. -/
theorem equiv_refl (a : Ty) : (isEquivalentTo a a).isSome = true := by
  simp [isEquivalentTo, equivGo_refl]

/-- **C17 (2b)** symmetric. -/
theorem equiv_symm (a b : Ty) (h : (isEquivalentTo a b).isSome = true) :
    (isEquivalentTo b a).isSome = true := by
  unfold isEquivalentTo at h ⊢
  cases h1 : equivGo a b ([], []) with
  | none => simp [h1] at h
  | some s => have := equivGo_symm a b _ _ h1; simp [this]

/-- **C17 (2c)** transitive. -/
theorem equiv_trans (a b c : Ty) (h1 : (isEquivalentTo a b).isSome = true)
    (h2 : (isEquivalentTo b c).isSome = true) : (isEquivalentTo a c).isSome = true := by
  unfold isEquivalentTo at h1 h2 ⊢
  cases e1 : equivGo a b ([], []) with
  | none => simp [e1] at h1
  | some s1 =>
    cases e2 : equivGo b c ([], []) with
    | none => simp [e2] at h2
    | some s2 => have := equivGo_trans a b c _ _ _ _ _ e1 e2; simp [this]

/-- **C17 (2d)** equivalence never relates types that differ in anything but lifetimes and the
    names of generic parameters (`skeleton` forgets exactly those, and fn-pointer parameter names). -/
theorem equiv_only_names (a b : Ty) (h : (isEquivalentTo a b).isSome = true) : skeleton a = skeleton b := by
  unfold isEquivalentTo at h
  cases e : equivGo a b ([], []) with
  | none => simp [e] at h
  | some s => exact equivGo_skeleton a b _ _ e

/-- In particular `&T` and `&mut T` are never equivalent. -/
theorem equiv_ref_mutability (m m' : Bool) (l l' : Lt) (a b : Ty)
    (h : (isEquivalentTo (.ref m l a) (.ref m' l' b)).isSome = true) : m = m' := by
  have := equiv_only_names _ _ h
  simp [skeleton] at this
  exact this.1

/-- The renaming returned by `is_equivalent_to` pairs the unassigned generic parameters of the two
    types in order of first occurrence. -/
theorem equiv_renaming (a b : Ty) (m : List (String × String)) (h : isEquivalentTo a b = some m) :
    m = (unassigned a []).zip (unassigned b []) := by
  unfold isEquivalentTo at h
  cases e : equivGo a b ([], []) with
  | none => simp [e] at h
  | some s =>
    have := equivGo_state a b _ _ e
    simp only [e] at h
    cases h
    rw [this]

/-- … and the renaming of the symmetric query is the inverse one. -/
theorem equiv_symm_renaming (a b : Ty) (m : List (String × String)) (h : isEquivalentTo a b = some m) :
    isEquivalentTo b a = some (m.map Prod.swap) := by
  unfold isEquivalentTo at h ⊢
  cases e : equivGo a b ([], []) with
  | none => simp [e] at h
  | some s =>
    have := equivGo_symm a b _ _ e
    simp only [e] at h
    cases h
    simp [this, zip_map_swap]

-- Non-vacuity: `(&'a T, U, T)` ≡ `(&P, Q, P)` with T ↦ P, U ↦ Q; `(T, U)` ≢ `(P, P)`; `&T` ≢ `&mut T`.
example : isEquivalentTo
    (.tuple (.cons (.ref false (.named "a") (.generic "T")) (.cons (.generic "U") (.cons (.generic "T") .nil))))
    (.tuple (.cons (.ref false .elided (.generic "P")) (.cons (.generic "Q") (.cons (.generic "P") .nil))))
    = some [("T", "P"), ("U", "Q")] := by decide +kernel
example : isEquivalentTo (.tuple (.cons (.generic "T") (.cons (.generic "U") .nil)))
    (.tuple (.cons (.generic "P") (.cons (.generic "P") .nil))) = none := by decide +kernel
example : isEquivalentTo (.ref false .elided (.generic "T")) (.ref true .elided (.generic "T")) = none := by
  decide +kernel

/-! ### Canonical forms -/

/-- **C17 (3a)** canonicalisation is idempotent. -/
theorem canon_idem (a : Ty) : canonicalize (canonicalize a) = canonicalize a := by
  have := canonGo_idem a ⟨0, []⟩
  simp only [List.length_nil] at this
  unfold canonicalize
  have e : cnames 0 = [] := rfl
  rw [e] at this
  rw [this]

/-- **C17 (3b)** two types with equal canonical forms are equivalent. -/
theorem canon_eq_equiv (a b : Ty) (h : canonicalize a = canonicalize b) :
    (isEquivalentTo a b).isSome = true := by
  have := canonGo_equiv a b ⟨0, []⟩ ⟨0, []⟩ h
  simp only [] at this
  simp [isEquivalentTo, this]

/-- Every type is equivalent to its canonical form. -/
theorem equiv_canon (a : Ty) : (isEquivalentTo a (canonicalize a)).isSome = true :=
  equiv_symm _ _ (canon_eq_equiv _ _ (canon_idem a))

/-- **C17 (3c)** canonical forms are complete: two types have the same canonical form *exactly* when
    they are equivalent and agree on which lifetimes are `'static` (`ltSkeleton` keeps that bit and
    forgets the other lifetimes and all generic names). This is what lookups keyed by `CanonicalType`
    (constructors, error handlers, codegen bindings) identify. -/
theorem canon_eq_iff (a b : Ty) :
    canonicalize a = canonicalize b ↔
      ((isEquivalentTo a b).isSome = true ∧ ltSkeleton a = ltSkeleton b) := by
  constructor
  · intro h
    refine ⟨canon_eq_equiv a b h, ?_⟩
    have h1 := canonGo_ltSkeleton a ⟨0, []⟩
    have h2 := canonGo_ltSkeleton b ⟨0, []⟩
    unfold canonicalize at h
    rw [← h1, ← h2, h]
  · rintro ⟨he, hk⟩
    unfold isEquivalentTo at he
    cases e : equivGo a b ([], []) with
    | none => simp [e] at he
    | some s' =>
      obtain ⟨c, k, e1, e2⟩ := canonGo_complete a b ([], []) s' 0 e hk
      unfold canonicalize
      simp only [] at e1 e2
      rw [e1, e2]

-- Non-vacuity: `Pair<&'x T, &'y U, T>` and `Pair<&V, &'static .., ..>`.
example : canonicalize
    (.path false "p" none ["k", "Tri"] (.ty (.ref false (.named "x") (.generic "T"))
      (.ty (.ref true .elided (.generic "U")) (.ty (.generic "T") (.lt (.named "q") .nil)))))
    = .path false "p" none ["k", "Tri"] (.ty (.ref false (.named "a") (.generic "A"))
      (.ty (.ref true (.named "b") (.generic "B")) (.ty (.generic "A") (.lt (.named "c") .nil)))) := by
  decide +kernel
example : canonicalize (.tuple (.cons (.ref false (.named "x") (.generic "T")) (.cons (.generic "U") .nil)))
    = canonicalize (.tuple (.cons (.ref false .inferred (.generic "Q")) (.cons (.generic "R") .nil))) := by
  decide +kernel

/-! ### Lifetime names never matter for lookups

`pavexc` rewrites lifetimes (`set_implicit_lifetimes`, `rename_lifetime_parameters`) around lookups that
are keyed by canonical type; the canonical form is invariant under both, unless the rewrite introduces
`'static`. -/

/-- `set_implicit_lifetimes(x)` keeps the canonical form (for `x` other than `static`). -/
theorem canon_setImplicit (x : String) (t : Ty) (hx : stripQuote x ≠ "static") :
    canonicalize (setImplicit x t) = canonicalize t := by
  simp [canonicalize, canonGo_setImplicit hx]

/-- … and leaves no implicit lifetime behind (for `x` other than `_`). -/
theorem setImplicit_explicit (x : String) (t : Ty) (hx : stripQuote x ≠ "_") :
    hasImplicit (setImplicit x t) = false := hasImplicit_setImplicit hx t

/-- `rename_lifetime_parameters(m)` keeps the canonical form if no target name is `static`. -/
theorem canon_renameLts (m : List (String × String)) (t : Ty) (hm : NoStaticTargets m) :
    canonicalize (renameLts m t) = canonicalize t := by
  simp [canonicalize, canonGo_rename hm]

example : canonicalize (setImplicit "'q" (.ref false .elided (.path false "p" none ["k", "Cow"] (.lt .inferred (.ty (.generic "T") .nil)))))
    = canonicalize (.ref false .elided (.path false "p" none ["k", "Cow"] (.lt .inferred (.ty (.generic "T") .nil)))) := by
  decide +kernel
-- the side condition is needed: writing `'static` changes the canonical form
example : canonicalize (setImplicit "static" (.ref false .elided (.scalar .u8))) ≠ canonicalize (.ref false .elided (.scalar .u8)) := by
  decide +kernel

/-! ### Rendering to Rust source and reading it back -/

/-- **C17 (4)** rendering a (well-formed) type to Rust source and parsing it back is lossless:
    the reader returns the type itself, minus what the source text does not carry (`strip`: package
    id, rustdoc id, and the path/alias distinction). Any nesting depth. -/
theorem parse_render (t : Ty) (h : wf t = true) : parse (renderD false t) = some (strip t) :=
  parse_renderD t h

/-- The same for the `String` produced by `display_for_error` / `Display`. -/
theorem parse_displayForError (t : Ty) (h : wf t = true) :
    parse (displayForError t).toList = some (strip t) := by
  simp [displayForError, String.toList_ofList, parse_render t h]

/-- `render_type` (the rendering used for code generation, which looks crate names up by package id)
    is `display_for_error` of the same type with every path's first segment replaced by its crate
    name (`relabel`) — so the round trip above covers it too. -/
theorem renderType_eq (lk : List (String × String)) (t t' : Ty) (h : relabel lk t = some t')
    (hl : longPaths t = true) : renderType lk t = some (displayForError t') := by
  simp [renderType, displayForError, renderLk_relabel lk false t t' h hl]

theorem parse_renderType (lk : List (String × String)) (t t' : Ty) (h : relabel lk t = some t')
    (hl : longPaths t = true) (hw : wf t' = true) :
    (renderLk lk false t).bind parse = some (strip t') := by
  rw [renderLk_relabel lk false t t' h hl]
  exact parse_render t' hw

example : renderType [("p1", "kk")] (.path false "p1" none ["k", "Holder"] (.ty (.generic "T") .nil))
    = some "kk::Holder<T>" := by decide +kernel

/-- Hence rendering is injective on well-formed types up to `strip`: two types with the same
    rendered source are the same type. -/
theorem render_injective (a b : Ty) (ha : wf a = true) (hb : wf b = true)
    (h : renderD false a = renderD false b) : strip a = strip b := by
  have h1 := parse_render a ha
  have h2 := parse_render b hb
  rw [h, h2] at h1
  exact (Option.some.inj h1).symm

/-- In particular a 1-tuple is not confused with its element (it was, before the `fix:` commit:
    `(T,)` was printed as `(T)`). -/
theorem render_one_tuple_ne (t : Ty) (h : wf t = true) :
    renderD false (.tuple (.cons t .nil)) ≠ renderD false t := by
  intro e
  have := render_injective (.tuple (.cons t .nil)) t (by simpa [wf, wfTys] using h) h e
  cases t <;> simp [strip, stripTys] at this
  -- `tuple [x] = x` is impossible for the tuple case as well
  rename_i es
  have hsz := congrArg sizeOf this
  simp at hsz
  omega

-- Non-vacuity: `&'a mut k::Holder<(u8,), 'static, 8>` and `extern "C" fn(x: [T; 4]) -> *const str`.
example : wf (.ref true (.named "a") (.path true "p" (some 3) ["k", "Holder"]
    (.ty (.tuple (.cons (.scalar .u8) .nil)) (.lt .static (.const "8" .nil))))) = true := by decide +kernel
example : displayForError (.ref true (.named "a") (.path true "p" (some 3) ["k", "Holder"]
    (.ty (.tuple (.cons (.scalar .u8) .nil)) (.lt .static (.const "8" .nil)))))
    = "&'a mut k::Holder<(u8,), 'static, 8>" := by decide +kernel
example : wf (.fnPtr (.cons (some "x") (.array (.generic "T") 4) .nil) (.some (.rawPtr false (.scalar .str)))
    (.c false) false) = true := by decide +kernel
example : displayForError (.fnPtr (.cons (some "x") (.array (.generic "T") 4) .nil)
    (.some (.rawPtr false (.scalar .str))) (.c false) false)
    = "extern \"C\" fn(x: [T; 4]) -> *const str" := by decide +kernel
-- Outside `wf` the statement is false (a generic parameter named like a primitive reads back as the primitive).
example : parse (renderD false (.generic "u8")) = some (.scalar .u8) := by decide +kernel

end Pxv.Ty

#print axioms Pxv.Ty.parse_render
#print axioms Pxv.Ty.template_bind
#print axioms Pxv.Ty.refMut_preserved
#print axioms Pxv.Ty.equiv_trans
#print axioms Pxv.Ty.canon_idem
#print axioms Pxv.Ty.canon_eq_equiv
#print axioms Pxv.Ty.canon_eq_iff
