import Pxv.Model.Ty
import Pxv.Model.TySpec
import Pxv.Lemmas.Ty
/-!
C17 — the type algebra used for dependency matching obeys its laws.
Property theorems only; every statement is for all types, of any nesting depth.
-/
namespace Pxv.Ty

/-- **C17 (1) template/bind**: if `T` is reported to be a template for a concrete type `C` with
    bindings `b`, then substituting `b` into `T` yields `C` up to lifetimes (`eraseLt` forgets only
    lifetimes, fn-pointer parameter names and rustdoc ids). -/
theorem template_bind (T C : Ty) (b : List (String × Ty)) (hC : isTemplate C = false)
    (h : isTemplateFor T C = some b) : eraseLt (bind b T) = eraseLt C :=
  (tmplGo_sound T C [] b hC h).2 b (BLe.refl b)

/-- **C17 (1')**: in particular reference mutability is kept: where the template has `&T'` / `&mut T'`
    the concrete type has a reference of the same mutability. -/
theorem refMut_preserved (m m' : Bool) (l l' : Lt) (T' C' : Ty) (b : List (String × Ty))
    (hC : isTemplate C' = false) (h : isTemplateFor (.ref m l T') (.ref m' l' C') = some b) :
    m = m' ∧ eraseLt (bind b T') = eraseLt C' := by
  have := template_bind (.ref m l T') (.ref m' l' C') b (by simpa [isTemplate] using hC) h
  simpa [bind, eraseLt] using this

-- Non-vacuity: `k::Holder<&'a mut T, U>` is a template for `k::Holder<&mut u8, (bool,)>`.
example : isTemplateFor
    (.path false "p" (some 1) ["k", "Holder"] (.ty (.ref true (.named "a") (.generic "T")) (.ty (.generic "U") .nil)))
    (.path false "p" none ["k", "Holder"] (.ty (.ref true .elided (.scalar .u8)) (.ty (.tuple (.cons (.scalar .bool) .nil)) .nil)))
    = some [("U", .tuple (.cons (.scalar .bool) .nil)), ("T", .scalar .u8)] := by decide +kernel
-- `&T` is no longer a template for `&mut u8` (it was before the `fix:` commit).
example : isTemplateFor (.ref false .elided (.generic "T")) (.ref true .elided (.scalar .u8)) = none := by decide +kernel
-- The concreteness hypothesis is needed: against a type that itself has generic parameters the early
-- `concrete == self` exit skips a binding (`(X, X)` vs `(X, u8)` answers `X ↦ u8`).
example : ∃ T C b, isTemplateFor T C = some b ∧ eraseLt (bind b T) ≠ eraseLt C :=
  ⟨.tuple (.cons (.generic "X") (.cons (.generic "X") .nil)),
   .tuple (.cons (.generic "X") (.cons (.scalar .u8) .nil)), [("X", .scalar .u8)], by decide +kernel, by decide +kernel⟩

end Pxv.Ty

#print axioms Pxv.Ty.template_bind
#print axioms Pxv.Ty.refMut_preserved
