import Pxv.Lemmas.Order
import Pxv.Lemmas.Borrow
import Pxv.Lemmas.StageMoves
import Pxv.Lemmas.Bindings
/-!
C01 — accepted blueprints yield an SDK that compiles: the ownership part.

`OwnSafe g σ A` is the specification (mini Rust ownership rules for the statements of control-flow
path `A` executed in order `σ`); `isRun g σ` says `σ` is an order that pavexc's ordering step
(`OrderedCallGraph::order`) may produce for the call graph `g`, whatever traversal strategy it uses.
-/
namespace Pxv.CG
open Graph

/-- members of `consumers`/`borrowers` are successors through an edge, so the source is a `pred`. -/
theorem pred_of_consumer {g : Graph} {d c : Nat} (h : c ∈ g.consumers d) : d ∈ g.preds c := by
  simp only [consumers, outEdges, List.mem_map, List.mem_filter, beq_iff_eq] at h
  obtain ⟨e, ⟨⟨he, hs⟩, _⟩, hd⟩ := h
  simp only [preds, inEdges, List.mem_map, List.mem_filter, beq_iff_eq]
  exact ⟨e, ⟨he, hd⟩, hs⟩

theorem pred_of_inEdge {g : Graph} {t : Nat} {e : Edge} (h : e ∈ g.inEdges t) : e.src ∈ g.preds t := by
  simp only [preds, List.mem_map]
  exact ⟨e, h, rfl⟩

/-- **order, invariant 1 (topological)**: in any run, every dependency of a placed node — data or
    happens-before — was placed strictly earlier. -/
theorem run_topo {g : Graph} {σ : List Nat} (h : isRun g σ = true) {t p : Nat}
    (ht : t ∈ σ) (hp : p ∈ g.preds t) : p ∈ σ ∧ pos σ p < pos σ t := by
  obtain ⟨pre, post, rfl⟩ := mem_split ht
  obtain ⟨hc, hn⟩ := isRun_split h pre t post rfl
  unfold canPlace at hc
  rw [List.all_eq_true] at hc
  have := hc p hp
  simp only [Bool.and_eq_true] at this
  have hpm : p ∈ pre := List.contains_iff_mem.mp this.1
  exact ⟨List.mem_append_left _ hpm, pos_prefix_lt hpm hn⟩

/-- **order, invariant 2 (borrowers first)**: in any run, when a node that takes a non-Copy value
    by value is placed, every node that borrows that value — directly, or by using a value that
    holds a reference to it — has been placed strictly earlier.
    This is what `is_blocked` enforces; it holds for every traversal order. -/
theorem run_borrowersFirst {g : Graph} {σ : List Nat} (h : isRun g σ = true) {d c b : Nat}
    (hc : c ∈ σ) (hcons : c ∈ g.consumers d) (hcopy : (g.node d).copy = false)
    (hb : b ∈ allBorrowers g d) : b ∈ σ ∧ pos σ b < pos σ c := by
  obtain ⟨pre, post, rfl⟩ := mem_split hc
  obtain ⟨hcp, hn⟩ := isRun_split h pre c post rfl
  unfold canPlace at hcp
  rw [List.all_eq_true] at hcp
  have := hcp d (pred_of_consumer hcons)
  have hcc : (g.consumers d).contains c = true := List.contains_iff_mem.mpr hcons
  simp only [hcc, hcopy, Bool.true_and, Bool.not_false, Bool.and_true, Bool.and_eq_true,
    Bool.not_eq_true'] at this
  obtain ⟨_, h2⟩ := this
  have hbm : b ∈ pre := by
    rw [List.any_eq_false] at h2
    have := h2 b hb
    simpa using this
  exact ⟨List.mem_append_left _ hbm, pos_prefix_lt hbm hn⟩

/-- The executable checker decides exactly the specification. -/
theorem ownCheck_iff (g : Graph) (σ A : List Nat) : ownCheck g σ A = true ↔ OwnSafe g σ A := by
  unfold ownCheck
  exact decide_eq_true_iff

/-- The graph-level facts from which ownership safety of the emitted body follows. `holdersFirst`
    is the one the ordering step does **not** establish when outputs capture borrows. -/
theorem safe_of_run_holdersFirst {g : Graph} {σ A : List Nat}
    (hrun : isRun g σ = true) (hA : predClosed g A = true) (hone : oneMover g A = true)
    (hwf : g.wellFormed = true) (hhold : holdersFirst g σ A = true) : OwnSafe g σ A := by
  have hpc : ∀ n ∈ A, ∀ p ∈ g.preds n, p ∈ A := by
    intro n hn p hp
    unfold predClosed at hA
    rw [List.all_eq_true] at hA
    have := hA n hn
    rw [List.all_eq_true] at this
    exact List.contains_iff_mem.mp (this p hp)
  refine ⟨isRun_nodup hrun, ?_, ?_, ?_⟩
  · intro t ht htA e he _
    have hp := pred_of_inEdge he
    obtain ⟨h1, h2⟩ := run_topo hrun ht hp
    exact ⟨h1, hpc t htA _ hp, h2⟩
  · intro t ht htA e he hdat hcopy c hc hcA hne hcons
    -- `t` uses `e.src`; `c` is another node of the path that takes it by value
    have hek : e.kind = .move ∨ e.kind = .shared ∨ e.kind = .excl := by
      cases hk : e.kind <;> simp_all [Edge.isData]
    have hsrc : e.src < g.size := by
      unfold wellFormed at hwf
      rw [List.all_eq_true] at hwf
      have hmem : e ∈ g.edges := by
        simp only [inEdges, List.mem_filter] at he; exact he.1
      have := hwf e hmem
      simp only [Bool.and_eq_true, decide_eq_true_eq] at this
      exact this.1
    have hedst : e.dst = t := by
      simp only [inEdges, List.mem_filter, beq_iff_eq] at he; exact he.2
    have hemem : e ∈ g.edges := by
      simp only [inEdges, List.mem_filter] at he; exact he.1
    rcases hek with hk | hk
    · -- `t` moves it too: contradicts `oneMover`
      exfalso
      have htc : t ∈ g.consumers e.src := by
        simp only [consumers, outEdges, List.mem_map, List.mem_filter, beq_iff_eq]
        exact ⟨e, ⟨⟨hemem, rfl⟩, by simp [hk]⟩, hedst⟩
      unfold oneMover at hone
      rw [List.all_eq_true] at hone
      have := hone e.src (List.mem_range.mpr hsrc)
      simp only [hcopy, Bool.false_or, List.all_eq_true, Bool.or_eq_true, Bool.not_eq_true',
        beq_iff_eq] at this
      rcases this c hcons t htc with (h | h) | h
      · simp at h; exact h hcA
      · simp at h; exact h htA
      · exact hne h
    · -- `t` borrows it: borrowers are placed before the consumer
      have htb : t ∈ g.borrowers e.src := by
        simp only [borrowers, outEdges, List.mem_map, List.mem_filter, beq_iff_eq, Bool.or_eq_true]
        refine ⟨e, ⟨⟨hemem, rfl⟩, ?_⟩, hedst⟩
        rcases hk with hk | hk <;> simp [hk]
      exact (run_borrowersFirst hrun hc hcons hcopy (List.mem_append_left _ htb)).2
  · exact of_decide_eq_true hhold

theorem holdersFirst_of_captureFree {g : Graph} (σ A : List Nat) (h : captureFree g = true) :
    holdersFirst g σ A = true := by
  unfold holdersFirst
  apply decide_eq_true
  intro t _ _ e _ _ w _ _ hh
  simp [holds, held_of_captureFree h] at hh

/-- no `&mut` borrow targets a value that some other value holds a reference to (pavexc rejects
    such graphs in `move_while_borrowed`: "tried to borrow mutably while borrowed immutably"). -/
def exclClean (g : Graph) : Bool :=
  g.edges.all (fun e => e.kind != .excl || (List.range g.size).all (fun w => !holds g w e.src))

/-- **order, invariant 3 (holders first)**: since the ordering step counts the users of a value
    that holds a reference to `d` among the borrowers of `d`, every run places them before the
    node that takes `d` by value — for every traversal order. -/
theorem run_holdersFirst {g : Graph} {σ A : List Nat} (hrun : isRun g σ = true)
    (hwf : g.wellFormed = true) (hex : exclClean g = true) : holdersFirst g σ A = true := by
  unfold holdersFirst
  apply decide_eq_true
  intro t ht _ e he hk w hw _ hh _ u hu _ huse
  have hemem : e ∈ g.edges := by
    simp only [inEdges, List.mem_filter] at he; exact he.1
  have hedst : e.dst = t := by
    simp only [inEdges, List.mem_filter, beq_iff_eq] at he; exact he.2
  rcases hk with ⟨hmove, hcopy⟩ | hexcl
  · -- `t` takes `e.src` by value
    have htc : t ∈ g.consumers e.src := by
      simp only [consumers, outEdges, List.mem_map, List.mem_filter, beq_iff_eq]
      exact ⟨e, ⟨⟨hemem, rfl⟩, by simp [hmove]⟩, hedst⟩
    by_cases hud : u = e.src
    · -- the value itself precedes its consumer
      rw [hud]
      exact (run_topo hrun ht (pred_of_inEdge he)).2
    · -- `u` uses `w`, which holds a reference to `e.src`: it is one of its borrowers
      have hub : u ∈ allBorrowers g e.src := by
        apply List.mem_append_right
        simp only [users, outEdges, List.mem_map, List.mem_filter, beq_iff_eq] at huse
        obtain ⟨e', ⟨⟨he'mem, he'src⟩, he'data⟩, he'dst⟩ := huse
        have husz : u < g.size := by
          unfold wellFormed at hwf
          rw [List.all_eq_true] at hwf
          have := hwf e' he'mem
          simp only [Bool.and_eq_true, decide_eq_true_eq] at this
          rw [← he'dst]; exact this.2
        simp only [holderUsers, List.mem_filter, List.mem_range, Bool.and_eq_true, bne_iff_ne, ne_eq,
          List.any_eq_true]
        refine ⟨husz, hud, e', ?_, he'data, ?_⟩
        · simp only [inEdges, List.mem_filter, beq_iff_eq]; exact ⟨he'mem, he'dst⟩
        · rw [he'src]; exact hh
      exact (run_borrowersFirst hrun ht htc hcopy hub).2
  · -- `&mut`: excluded by `exclClean`
    exfalso
    unfold exclClean at hex
    rw [List.all_eq_true] at hex
    have := hex e hemem
    simp only [hexcl, bne_self_eq_false, Bool.false_or, List.all_eq_true, Bool.not_eq_true'] at this
    have hwsz : w < g.size := by
      -- a node that holds something has captures, hence is a real node
      apply Classical.byContradiction
      intro hnot
      have : held g g.size w = [] := by
        cases hs : g.size with
        | zero => rfl
        | succ n =>
          have hnode : g.node w = {} := by
            unfold Graph.node
            have : ¬ w < g.nodes.length := hnot
            simp [List.getD, this]
          simp [held, hnode]
      simp [holds, this] at hh
    have := this w (List.mem_range.mpr hwsz)
    rw [hh] at this
    cases this

/-- **C01 (ordering, full)**: for every well-formed call graph that passed the `&mut` check, every
    order the ordering step can produce — whatever traversal strategy — is ownership-safe on every
    control-flow path on which each non-Copy value has a single by-value consumer, *whatever the
    components capture*. (After fix: capture-aware ordering. Before it this statement was false:
    see `witness_not_a_run_anymore`.) -/
theorem C01_order_safe {g : Graph} {σ A : List Nat}
    (hrun : isRun g σ = true) (hA : predClosed g A = true) (hone : oneMover g A = true)
    (hwf : g.wellFormed = true) (hex : exclClean g = true) : OwnSafe g σ A :=
  safe_of_run_holdersFirst hrun hA hone hwf (run_holdersFirst hrun hwf hex)

/-- **C01, proved part**: for call graphs whose components do not keep borrows alive in their
    outputs, every order the ordering step can produce is ownership-safe on every control-flow
    path on which each non-Copy value has a single by-value consumer — for every graph shape,
    every mix of `&`, `&mut`, by-value and happens-before edges, every traversal strategy. -/
theorem C01_partial {g : Graph} {σ A : List Nat}
    (hrun : isRun g σ = true) (hA : predClosed g A = true) (hone : oneMover g A = true)
    (hwf : g.wellFormed = true) (hcf : captureFree g = true) : OwnSafe g σ A :=
  safe_of_run_holdersFirst hrun hA hone hwf (holdersFirst_of_captureFree σ A hcf)

/-- **multiple_consumers, cloning loop**: after the loop has handled a contended cloneable value `n`,
    every competing set (the consumers of `n` that reach one sink, i.e. lie on one control-flow path)
    contains at most one node that still takes `n` by value — the others now consume their own clone —
    and nothing but those consumers lost its edge. This is the `oneMover` hypothesis of
    `C01_order_safe`, established per competing set by the pass that the model mirrors
    (`Pxv/Model/Borrow.lean`, compared with the real pass on every call graph of every run). -/
theorem mc_one_mover_per_set (g : Graph) (n : Nat) (hn : n < g.size) (sets : List (List Nat)) :
    let g' := (mcCloneSets g n sets).1
    (∀ set ∈ sets, ∀ c1 ∈ set, ∀ c2 ∈ set, c1 ∈ g'.consumers n → c2 ∈ g'.consumers n → c1 = c2) ∧
    (∀ c ∈ g'.consumers n, c ∈ g.consumers n) := by
  intro g'
  have inv := mcCloneSets_inv g n hn sets
  have hcons : g'.consumers n = (g.consumers n).filter (fun c => !(mcCloneSets g n sets).2.contains c) :=
    inv.consumers
  refine ⟨?_, ?_⟩
  · intro set hs c1 hc1 c2 hc2 m1 m2
    rw [hcons, List.mem_filter] at m1 m2
    exact inv.single set hs c1 hc1 c2 hc2 (by simpa using m1.2) (by simpa using m2.2)
  · intro c hc
    rw [hcons, List.mem_filter] at hc
    exact hc.1

-- non-vacuity: the diamond `a -> c (move)`, `a -> d (move)`, both feeding the handler: one clone.
def mcDiamond : Graph :=
  { nodes := [{ cloneable := true }, {}, {}, {}],
    edges := [⟨0, 1, .move⟩, ⟨0, 2, .move⟩, ⟨1, 3, .move⟩, ⟨2, 3, .move⟩] }
example : (mcCloneSets mcDiamond 0 [[1, 2]]).1.consumers 0 = [2] ∧
    (multipleConsumers mcDiamond).2 = [] ∧ ((multipleConsumers mcDiamond).1.consumers 0) = [2] := by
  decide

/-- The full-strength statement: *whatever* the components capture and borrow. -/
def C01_statement : Prop :=
  ∀ (g : Graph) (σ A : List Nat), g.wellFormed = true → isRun g σ = true → isComplete g σ = true →
    predClosed g A = true → oneMover g A = true → OwnSafe g σ A

/-- The call graph of `a()->A, c(&A)->C<'_>, f(&C)->F, e(C)->E, b(A)->B, h(F,B,E)`:
    nodes 0=h 1=f 2=b 3=e 4=c 5=a 6=into_response. -/
def witnessGraph : Graph :=
  { nodes := [{}, {}, {}, {}, { tied := [5], direct := [5] }, {}, {}],
    edges := [⟨3, 0, .move⟩, ⟨4, 3, .move⟩, ⟨5, 4, .shared⟩, ⟨2, 0, .move⟩, ⟨5, 2, .move⟩,
              ⟨1, 0, .move⟩, ⟨4, 1, .shared⟩, ⟨0, 6, .move⟩] }

/-- the order pavexc used to emit for it: a, c, b, f, e, h, into_response (E0505). -/
def witnessOrder : List Nat := [5, 4, 2, 1, 3, 0, 6]

/-- **[fixed finding]** the order that made rustc reject the SDK is ownership-unsafe, and is no
    longer an order the ordering step can produce; the model's own order for the witness is safe. -/
theorem witness_not_a_run_anymore :
    ownCheck witnessGraph witnessOrder (List.range 7) = false ∧ isRun witnessGraph witnessOrder = false ∧
    (order witnessGraph).map (fun σ => ownCheck witnessGraph σ (List.range 7)) = some true := by
  decide

/-- What remains outside the ordering theorem: `&mut` borrows of captured values are not ordered
    by this step (they are rejected earlier, by `move_while_borrowed`, which is validated per
    program and not mirrored in Lean) — the full statement without `exclClean` is false of the
    ordering step alone. Nodes: 0=h(U,M) 1=u(C)->U 2=m(&mut A)->M 3=c(&A)->C<'_> 4=a 5=into_response. -/
def exclWitness : Graph :=
  { nodes := [{}, {}, {}, { tied := [4], direct := [4] }, {}, {}],
    edges := [⟨1, 0, .move⟩, ⟨2, 0, .move⟩, ⟨3, 1, .move⟩, ⟨4, 2, .excl⟩, ⟨4, 3, .shared⟩, ⟨0, 5, .move⟩] }

theorem C01_statement_false : ¬ C01_statement := by
  intro h
  have hs := h exclWitness [4, 3, 2, 1, 0, 5] (List.range 6) (by decide) (by decide) (by decide)
    (by decide) (by decide)
  have : ownCheck exclWitness [4, 3, 2, 1, 0, 5] (List.range 6) = true := (ownCheck_iff _ _ _).mpr hs
  revert this
  decide

-- Non-vacuity: a capture-free diamond (`a` borrowed by `c`, moved into `d`; ui_tests diamond)
-- meets every hypothesis of `C01_partial`, and its only legal orders put the borrower first.
example : let g : Graph := { nodes := [{}, {}, {}, {}],
                             edges := [⟨0, 1, .shared⟩, ⟨0, 2, .move⟩, ⟨1, 3, .move⟩, ⟨2, 3, .move⟩] }
    isRun g [0, 1, 2, 3] = true ∧ isRun g [0, 2, 1, 3] = false ∧ predClosed g [0, 1, 2, 3] = true ∧
    oneMover g [0, 1, 2, 3] = true ∧ g.wellFormed = true ∧ captureFree g = true ∧
    order g = some [0, 1, 2, 3] := by decide
-- the hypotheses of `C01_order_safe` are met by the witness graph and its legal orders:
example : isRun witnessGraph [5, 4, 1, 3, 2, 0, 6] = true ∧ exclClean witnessGraph = true ∧
    ownCheck witnessGraph [5, 4, 1, 3, 2, 0, 6] (List.range 7) = true := by decide

end Pxv.CG


/-! ### across the middlewares of one stage (pipeline.rs step 4, `type2cloning_indexes`)

Each call graph is borrow-checked on its own; a request-scoped value that several middlewares of one stage (pre-processors,
the handler / next stage, post-processors) take is handed to each of them by the generated stage function, which passes
`value.clone()` at the indexes step 4 computes and the value itself elsewhere. `stageCloning` (Model/Scope.lean) mirrors
that analysis and is compared with the real one on every stage of every generated application (hook 64e5e26, ev = stage4). -/
namespace Pxv.Scope

/-- **no use after the move, across a stage**: when step 4 accepts a stage, a middleware that is handed a non-Copy value
    itself (it takes the type by value and its index is not among the cloning indexes of that type) is the last
    middleware of the stage to touch that type: no later one takes it, by value or by reference. For every number of
    middlewares, every mix of types and every pattern of by-value / by-reference inputs. -/
theorem stage_moves_sound (mws : List (List StageInput)) (t : List (Nat × List Nat))
    (h : stageCloning mws = .ok t)
    (i : Nat) (mwi : List StageInput) (inp : StageInput) (hi : mws[i]? = some mwi) (hin : inp ∈ mwi)
    (hval : inp.byRef = false)
    (hcopy : ∀ e ∈ collectAll [] 0 mws, e.1 = inp.ty → e.2.copy = false)
    (hnot : ∀ idxs, (inp.ty, idxs) ∈ t → i ∉ idxs) :
    ∀ (j : Nat) (mwj : List StageInput) (inp' : StageInput), i < j → mws[j]? = some mwj → inp' ∈ mwj →
      inp'.ty ≠ inp.ty := by
  -- everything the stage hands out has been recorded
  obtain ⟨k', hC⟩ := collectAll_complete mws 0 (fun _ _ => False) [] complete_empty (fun _ _ hp => hp.elim)
  have hP : ∀ (a : Nat) (mw : List StageInput) (x : StageInput), mws[a]? = some mw → x ∈ mw →
      (False ∨ ∃ d mw', mws[d]? = some mw' ∧ a = 0 + d ∧ x ∈ mw') :=
    fun a mw x ha hx => Or.inr ⟨a, mw, ha, by omega, hx⟩
  obtain ⟨e, he, hek, c, hc⟩ := hC.vals i inp (hP i mwi inp hi hin) hval
  -- its entry is not an error, and (i, c) is not among the consumers that get a clone
  rw [stageCloning_eq] at h
  have hok := (foldl_stageStep_ok _ [] t h).2 e he
  have hcp := hcopy e he hek
  have hout : (i, c) ∉ consumersOf e.2 := by
    intro hmem
    rcases hok with hnone | ⟨idxs, hsome, hidx⟩
    · unfold cloningFor at hnone
      rw [hcp] at hnone
      simp only [Bool.false_eq_true, if_false] at hnone
      split at hnone
      · rename_i hemp
        rw [List.isEmpty_iff] at hemp
        rw [hemp] at hmem; cases hmem
      · split at hnone <;> cases hnone
    · have hidxs : idxs = (consumersOf e.2).map (·.1) := by
        unfold cloningFor at hsome
        rw [hcp] at hsome
        simp only [Bool.false_eq_true, if_false] at hsome
        split at hsome
        · cases hsome
        · split at hsome
          · cases hsome
          · simpa using hsome.symm
      apply hnot idxs (hek ▸ hidx)
      rw [hidxs]
      exact List.mem_map.mpr ⟨(i, c), hmem, rfl⟩
  obtain ⟨hlast, hrefs⟩ := not_consumer_is_last (hC.sorted e he).1 (hC.sorted e he).2 hc hout
  -- a later access of the same type contradicts one of the two
  intro j mwj inp' hij hj hinj hty
  by_cases hr : inp'.byRef = true
  · have := hC.refs e he (i, c) hc j inp' (hP j mwj inp' hj hinj) hij (by rw [hty, hek]) hr
    have := hrefs j this
    simp only at this
    omega
  · have hr' : inp'.byRef = false := by simpa using hr
    obtain ⟨e', he', hek', c', hc'⟩ := hC.vals j inp' (hP j mwj inp' hj hinj) hr'
    have hee : e' = e := hC.uniq e' he' e he (by rw [hek', hty, hek])
    rw [hee] at hc'
    have := hlast (j, c') hc'
    simp only at this
    omega

-- Non-vacuity: move, borrow, move, borrow of one clone-if-necessary type: both movers get a clone (the second one only
-- because of the trailing borrow); move, borrow, move: only the first; and the hypotheses of the theorem are met by
-- the last mover of the second stage.
def exMBMB : List (List StageInput) :=
  [[⟨0, false, true, false⟩], [⟨0, true, false, false⟩], [⟨0, false, true, false⟩], [⟨0, true, false, false⟩]]
def okView (r : Except Nat (List (Nat × List Nat))) : Option (List (Nat × List Nat)) :=
  match r with | .ok t => some t | .error _ => none
theorem okView_some {r : Except Nat (List (Nat × List Nat))} {t : List (Nat × List Nat)} (h : okView r = some t) : r = .ok t := by
  cases r with
  | ok t' => simp only [okView, Option.some.injEq] at h; rw [h]
  | error e => simp [okView] at h
example : stageCloning exMBMB = .ok [(0, [0, 2])] := okView_some (by decide)
example : stageCloning (exMBMB.take 3) = .ok [(0, [0])] ∧
    (∀ e ∈ collectAll [] 0 (exMBMB.take 3), e.1 = 0 → e.2.copy = false) ∧
    (∀ idxs, ((0 : Nat), idxs) ∈ [((0 : Nat), [(0 : Nat)])] → 2 ∉ idxs) := by
  refine ⟨okView_some (by decide), by decide, ?_⟩
  intro idxs h
  simp only [List.mem_singleton, Prod.mk.injEq, true_and] at h
  subst h; decide
/-- what a seeded change did (C01-4): decide whether the last mover needs a clone by looking at the FIRST recorded borrow
    instead of the last one. On move, borrow, move, borrow the last mover then gets the value itself although a
    later middleware borrows it: `stage_moves_sound` fails for that variant. -/
def consumersOfFirst (ci : CloningInfo) : List (Nat × Bool) :=
  match ci.refBy.head? with
  | some r =>
    match ci.consumedBy.getLast? with
    | some last => if r < last.1 then ci.consumedBy.dropLast else ci.consumedBy
    | none => ci.consumedBy
  | none => ci.consumedBy.dropLast
example : ((collectAll [] 0 exMBMB).map (fun e => ((consumersOfFirst e.2).map (·.1), (consumersOf e.2).map (·.1)))) =
    [([0], [0, 2])] := by decide

end Pxv.Scope

/-! ### how a stage function hands its parameters on (`Bindings::get_expr_for_type`, processing_pipeline/codegen.rs) -/
namespace Pxv.Bind

/-- **C01 — the invocations inside a generated stage function type-check against its signature**: resolve, in invocation
    order, the inputs of every pre-processor, of the wrapping middleware / handler and of every post-processor of a stage
    with `get_expr_for_type` (mirrored by `getExpr`; a post-processor also sees the temporary `response`), then render the
    signature from the bindings as the loop leaves them. Every argument is then the parameter itself when the types agree
    (or `&mut T` where `&T` is wanted), `&param`, or `&mut param` with `param` declared `mut` — for any number of parameters,
    components and inputs, whatever is requested first. rustc's E0596 ("cannot borrow as mutable, as it is not declared as
    mutable") cannot arise from a stage parameter. -/
theorem stage_invocations_well_typed (resp : Binding) (calls : List (Bool × List Ty)) (bs bsF : List Binding)
    (ess : List (List Expr)) (h : resolveStage resp bs calls = some (ess, bsF)) :
    Le bs bsF ∧ stageTyped resp bsF calls ess :=
  resolveStage_typed resp calls bs bsF ess h

/-- one lookup: what is handed out is well typed against the bindings as the lookup leaves them -/
theorem lookup_well_typed {bs bs' : List Binding} {w : Ty} {e : Expr} (h : getExpr bs w = some (e, bs')) :
    Le bs bs' ∧ wellTyped bs' e w = true :=
  ⟨getExpr_le h, getExpr_typed h⟩

-- non-vacuity: `s_0: Budget` (type 0), a pre-processor wants `&mut Budget`, the handler wants `Budget`, a post-processor
-- wants the response (type 9) and `&Budget`... which is gone by then in real life; here: a second parameter `s_1: Cfg`
example : resolveStage ⟨99, .base 9, false⟩ [⟨0, .base 0, false⟩, ⟨1, .base 1, false⟩]
    [(false, [.ref true (.base 0)]), (false, [.base 0, .ref false (.base 1)]), (true, [.base 9, .ref false (.base 1)])] =
    some ([[.borrow true 0], [.name 0, .borrow false 1], [.name 99, .borrow false 1]],
      [⟨0, .base 0, true⟩, ⟨1, .base 1, false⟩]) := by decide
-- the variant a seeded change introduced (a lookup that no longer records `&mut` borrows) hands out `&mut s_0` while the
-- signature still says `s_0: Budget`: ill typed (E0596)
example : getExprPure [⟨0, .base 0, false⟩] (.ref true (.base 0)) = some (.borrow true 0, [⟨0, .base 0, false⟩]) ∧
    wellTyped [⟨0, .base 0, false⟩] (.borrow true 0) (.ref true (.base 0)) = false ∧
    (getExpr [⟨0, .base 0, false⟩] (.ref true (.base 0))).map (fun r => wellTyped r.2 r.1 (.ref true (.base 0))) = some true := by decide

end Pxv.Bind

