import Pxv.Lemmas.SessionStrict
/-!
C11 — session state carries over from one request to the next, exactly.

Property theorems only. `Pxv.Session` (Model/Session.lean) is the model of the `Session` state
machine, `sync`, `finalize`, `finalize_session` over an abstract store; `Pxv.Session.Spec`
(Model/SessionSpec.lean) is the plain pair-of-maps specification. Helper lemmas:
Lemmas/Session.lean, Lemmas/SessionRefine.lean, Lemmas/SessionStrict.lean.

All theorems quantify over every configuration (creation policy, missing-state policy, TTL trigger
and threshold, cookie configuration, crypto rule) and every history: any number of requests, any
operations in each, any cookie source (the jar, nothing, a replayed older cookie), external expiry
of records, any remaining-TTL report.
-/
namespace Pxv.Session
open Spec

variable {κ ν : Type} [DecidableEq κ]

/-- What a history shows: per request, the results of the operations and the session cookie of
    the response. -/
def observed (outs : List (ReqOut κ ν)) : List (List (Res ν) × Fin κ ν) :=
  outs.map (fun o => (o.res, o.fin))

/-- **C11, full strength** (kept visible): every history of the model observes exactly what the
    ideal pair-of-maps specification says. False as it stands — see `C11_full_statement_false`. -/
def C11_full_statement (κ ν : Type) [DecidableEq κ] : Prop :=
  ∀ (cfg : Config) (reqs : List (Req κ ν)),
    observed (runHistory cfg reqs Client.init World.init) = Spec.runHistory cfg false reqs Client.init SWorld.init

/-- **C11 (refinement, every history)**: the model observes exactly what the pair-of-maps
    specification says, where the specification includes the one recorded finding (F7: cycling the
    id of a session whose record is missing and was never looked at is refused). -/
theorem refines_every_history (cfg : Config) (reqs : List (Req κ ν)) :
    observed (runHistory cfg reqs Client.init World.init) = Spec.runHistory cfg true reqs Client.init SWorld.init := by
  have h := history_refines cfg reqs (Client.init : Client κ ν) (World.init : World κ ν)
    (by intro i hi; simp [World.init, Map.lookup] at hi)
    (by constructor <;> simp [Client.init])
  have e : absW (World.init : World κ ν) = SWorld.init := rfl
  rw [e] at h
  exact h

/-- **C11 (carry-over, partial)**: on every history in which the model never reports the F7
    refusal — a condition on what the history itself shows — the model observes exactly what the
    *ideal* pair-of-maps specification says: every request sees precisely the client-side and
    server-side key/values the previous request on that cookie ended with. -/
theorem carry_over_partial (cfg : Config) (reqs : List (Req κ ν))
    (h : NoF7 (observed (runHistory cfg reqs Client.init World.init))) :
    observed (runHistory cfg reqs Client.init World.init) = Spec.runHistory cfg false reqs Client.init SWorld.init := by
  have e := refines_every_history (κ := κ) (ν := ν) cfg reqs
  rw [e] at h ⊢
  exact (runHistory_strict cfg reqs Client.init SWorld.init h).symm

/-- **C11, one operation** (`refine_step`): under the session/store coherence invariant, every
    public operation returns what the pair of maps returns and leads to related states. -/
theorem refine_step (cfg : Config) (rem : Nat) (op : Op κ ν) (s : Sess κ ν) (w : World κ ν) (h : Inv s w) :
    (step cfg rem op s w).1 = (Spec.step cfg true op (abs s) (absW w)).1 ∧
    abs (step cfg rem op s w).2.1 = (Spec.step cfg true op (abs s) (absW w)).2.1 ∧
    absW (step cfg rem op s w).2.2 = (Spec.step cfg true op (abs s) (absW w)).2.2 ∧
    Inv (step cfg rem op s w).2.1 (step cfg rem op s w).2.2 :=
  step_refines cfg rem op s w h

/-- **`sync` fails only as F7**, never panics, and a refused sync changes neither the session nor
    any record (`finalize_unreachable_free`: the `unreachable!`/`assert!` arms of `sync` are dead). -/
theorem sync_fails_only_f7 (cfg : Config) (s : Sess κ ν) (w : World κ ν) (h : Inv s w) :
    (sync cfg s w).1 ≠ .panic ∧
    (∀ e, (sync cfg s w).1 = .err e →
      e = f7 ∧ (sync cfg s w).2.1 = s ∧ absW (sync cfg s w).2.2 = absW w ∧
      s.server = none ∧ ∃ o n, s.id = .toBeRenamed o n ∧ Map.lookup w.store o = none) := by
  have hs := sync_refines cfg s w h
  unfold SyncSim at hs
  generalize hm : sync cfg s w = m at *
  obtain ⟨o, s', w'⟩ := m
  cases o with
  | ok => exact ⟨by simp, by intro e he; simp at he⟩
  | panic =>
    cases hf : flush cfg true (abs s) (absW w) <;> simp [hf] at hs
  | err e =>
    cases hf : flush cfg true (abs s) (absW w) with
    | some p => simp [hf] at hs
    | none =>
      simp only [hf] at hs
      obtain ⟨h1, h2, h3, _⟩ := hs
      refine ⟨by simp, ?_⟩
      intro e' he'
      simp at he'
      subst he'
      refine ⟨h1, h2, h3, ?_⟩
      -- why the specification refused
      obtain ⟨id, server, client, inval⟩ := s
      unfold flush at hf
      cases server with
      | some sv => cases sv <;> simp [abs, viewSrv] at hf <;> (split at hf <;> simp at hf)
      | none =>
        cases id with
        | existing o => simp [abs, viewSrv] at hf
        | newlyGenerated n => simp [abs, viewSrv] at hf
        | toBeRenamed o n =>
          refine ⟨rfl, o, n, rfl, ?_⟩
          cases hl : Map.lookup w.store o with
          | none => rfl
          | some r => simp [abs, viewSrv, absW_recs, hl] at hf

/-- **No panic anywhere**: on every history, no operation and no finalisation of the model hits an
    `unreachable!`/`assert!`. -/
theorem no_panic (cfg : Config) (reqs : List (Req κ ν)) :
    ∀ o ∈ observed (runHistory cfg reqs Client.init World.init), o.2 ≠ .panic ∧ ∀ r ∈ o.1, Res.isPanic r = false := by
  rw [refines_every_history]
  exact Spec.runHistory_no_panic cfg true reqs Client.init SWorld.init


/-! ### The recorded finding, and concrete instances (non-vacuity) -/

def exCfg : Config :=
  { ttl := 100, creation := .neverSkip, missing := .reject, extend := .onLoadsAndChanges, threshold := some (3, 4),
    cookie := { name := "id", domain := none, path := some "/", secure := true, httpOnly := true,
                sameSite := some .lax, kind := .persistent },
    crypto := { alg := .encrypt, ruleName := "id", percentEncode := true } }

/-- request 1 stores a value, request 2 deletes the record (the cookie stays valid), request 3 cycles
    the id without looking at the state. -/
def f7History : List (Req Nat Nat) :=
  [⟨.jar, false, 100, [.insert 1 7]⟩, ⟨.jar, false, 100, [.delete]⟩, ⟨.jar, false, 100, [.cycle]⟩]

/-- The faithful model does **not** satisfy C11 at full strength: on `f7History` the third request
    fails (`change_id` on an unknown id) where the pair of maps goes on. Recorded as finding C11-F7;
    the behaviour is pinned by the project's own test-suite. -/
theorem C11_full_statement_false : ¬ C11_full_statement Nat Nat := by
  intro h
  have := h exCfg f7History
  revert this
  decide

example : (observed (runHistory exCfg f7History Client.init World.init)).map (·.2) =
    [.set 0 [], .set 0 [], .err (.sync f7)] := by decide

/-- The witness of the repaired `remove_raw` defect: insert; next request remove; next request get. -/
example : observed (runHistory exCfg
      [⟨.jar, false, 100, [.insert 1 7]⟩, ⟨.jar, false, 100, [.remove 1]⟩, ⟨.jar, false, 100, [.get 1]⟩]
      (Client.init : Client Nat Nat) World.init) =
    [([.val none], .set 0 []), ([.val (some 7)], .set 0 []), ([.val none], .set 0 [])] := by decide

/-- `carry_over_partial` is not vacuous: a history with client and server state, an explicit sync,
    a cycled id and a replayed old cookie shows no F7. -/
example : NoF7 (observed (runHistory exCfg
      [⟨.jar, false, 100, [.insert 1 7, .cInsert 2 8, .sync, .cycle]⟩,
       ⟨.jar, false, 10, [.get 1, .cGet 2, .cycle, .remove 1]⟩,
       ⟨.issued 0, false, 10, [.get 1, .cGet 2]⟩]
      (Client.init : Client Nat Nat) World.init)) := by
  intro o ho
  revert o
  decide

end Pxv.Session
