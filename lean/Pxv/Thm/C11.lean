import Pxv.Lemmas.SessionStrict
import Pxv.Lemmas.SessionCarry
/-!
C11 — session state carries over from one request to the next, exactly.

Property theorems only. `Pxv.Session` (Model/Session.lean) is the model of the `Session` state
machine, `sync`, `finalize`, `finalize_session` over an abstract store; `Pxv.Session.Spec`
(Model/SessionSpec.lean) is the plain pair-of-maps specification. Helper lemmas:
Lemmas/Session.lean, Lemmas/SessionRefine.lean, Lemmas/SessionStrict.lean.

All theorems quantify over every configuration (creation policy, missing-state policy, TTL trigger
and threshold, cookie configuration, crypto rule) and every history: any number of requests, any
operations in each, any cookie source (the jar, nothing, a replayed older cookie), external expiry
of records, any remaining-TTL report.
-/
set_option linter.unusedSimpArgs false
set_option linter.unusedSectionVars false
namespace Pxv.Session
open Spec

variable {κ ν : Type} [DecidableEq κ]

/-- What a history shows: per request, the results of the operations and the session cookie of
    the response. -/
def observed (outs : List (ReqOut κ ν)) : List (List (Res ν) × Fin κ ν) :=
  outs.map (fun o => (o.res, o.fin))

/-- **C11, full strength** (kept visible): every history of the model observes exactly what the
    ideal pair-of-maps specification says. False as it stands — see `C11_full_statement_false`. -/
def C11_full_statement (κ ν : Type) [DecidableEq κ] : Prop :=
  ∀ (cfg : Config) (reqs : List (Req κ ν)),
    observed (runHistory cfg reqs Client.init World.init) = Spec.runHistory cfg false reqs Client.init SWorld.init

/-- **C11 (refinement, every history)**: the model observes exactly what the pair-of-maps
    specification says, where the specification includes the one recorded finding (F7: cycling the
    id of a session whose record is missing and was never looked at is refused). -/
theorem refines_every_history (cfg : Config) (reqs : List (Req κ ν)) :
    observed (runHistory cfg reqs Client.init World.init) = Spec.runHistory cfg true reqs Client.init SWorld.init := by
  have h := history_refines cfg reqs (Client.init : Client κ ν) (World.init : World κ ν)
    (by intro i hi; simp [World.init, Map.lookup] at hi)
    (by constructor <;> simp [Client.init])
  have e : absW (World.init : World κ ν) = SWorld.init := rfl
  rw [e] at h
  exact h

/-- **C11 (carry-over, partial)**: on every history in which the model never reports the F7
    refusal — a condition on what the history itself shows — the model observes exactly what the
    *ideal* pair-of-maps specification says: every request sees precisely the client-side and
    server-side key/values the previous request on that cookie ended with. -/
theorem carry_over_partial (cfg : Config) (reqs : List (Req κ ν))
    (h : NoF7 (observed (runHistory cfg reqs Client.init World.init))) :
    observed (runHistory cfg reqs Client.init World.init) = Spec.runHistory cfg false reqs Client.init SWorld.init := by
  have e := refines_every_history (κ := κ) (ν := ν) cfg reqs
  rw [e] at h ⊢
  exact (runHistory_strict cfg reqs Client.init SWorld.init h).symm

/-- **C11, one operation** (`refine_step`): under the session/store coherence invariant, every
    public operation returns what the pair of maps returns and leads to related states. -/
theorem refine_step (cfg : Config) (rem : Nat) (op : Op κ ν) (s : Sess κ ν) (w : World κ ν) (h : Inv s w) :
    (step cfg rem op s w).1 = (Spec.step cfg true op (abs s) (absW w)).1 ∧
    abs (step cfg rem op s w).2.1 = (Spec.step cfg true op (abs s) (absW w)).2.1 ∧
    absW (step cfg rem op s w).2.2 = (Spec.step cfg true op (abs s) (absW w)).2.2 ∧
    Inv (step cfg rem op s w).2.1 (step cfg rem op s w).2.2 :=
  step_refines cfg rem op s w h

/-- **`sync` fails only as F7**, never panics, and a refused sync changes neither the session nor
    any record (`finalize_unreachable_free`: the `unreachable!`/`assert!` arms of `sync` are dead). -/
theorem sync_fails_only_f7 (cfg : Config) (s : Sess κ ν) (w : World κ ν) (h : Inv s w) :
    (sync cfg s w).1 ≠ .panic ∧
    (∀ e, (sync cfg s w).1 = .err e →
      e = f7 ∧ (sync cfg s w).2.1 = s ∧ absW (sync cfg s w).2.2 = absW w ∧
      s.server = none ∧ ∃ o n, s.id = .toBeRenamed o n ∧ Map.lookup w.store o = none) := by
  have hs := sync_refines cfg s w h
  unfold SyncSim at hs
  generalize hm : sync cfg s w = m at *
  obtain ⟨o, s', w'⟩ := m
  cases o with
  | ok => exact ⟨by simp, by intro e he; simp at he⟩
  | panic =>
    cases hf : flush cfg true (abs s) (absW w) <;> simp [hf] at hs
  | err e =>
    cases hf : flush cfg true (abs s) (absW w) with
    | some p => simp [hf] at hs
    | none =>
      simp only [hf] at hs
      obtain ⟨h1, h2, h3, _⟩ := hs
      refine ⟨by simp, ?_⟩
      intro e' he'
      simp at he'
      subst he'
      refine ⟨h1, h2, h3, ?_⟩
      -- why the specification refused
      obtain ⟨id, server, client, inval⟩ := s
      unfold flush at hf
      cases server with
      | some sv => cases sv <;> simp [abs, viewSrv] at hf <;> (split at hf <;> simp at hf)
      | none =>
        cases id with
        | existing o => simp [abs, viewSrv] at hf
        | newlyGenerated n => simp [abs, viewSrv] at hf
        | toBeRenamed o n =>
          refine ⟨rfl, o, n, rfl, ?_⟩
          cases hl : Map.lookup w.store o with
          | none => rfl
          | some r => simp [abs, viewSrv, absW_recs, hl] at hf

/-- **No panic anywhere**: on every history, no operation and no finalisation of the model hits an
    `unreachable!`/`assert!`. -/
theorem no_panic (cfg : Config) (reqs : List (Req κ ν)) :
    ∀ o ∈ observed (runHistory cfg reqs Client.init World.init), o.2 ≠ .panic ∧ ∀ r ∈ o.1, Res.isPanic r = false := by
  rw [refines_every_history]
  exact Spec.runHistory_no_panic cfg true reqs Client.init SWorld.init


/-- **C11 (carry-over, in plain terms)**: if a request ends by handing out the session cookie
    `(id, c)`, then the next request that presents this cookie reads, for every key, exactly the
    server-side value and the client-side value the previous request ended with — whatever
    operations produced them, under every configuration, whatever the TTL reports. -/
theorem carry_over (cfg : Config) (rem rem' : Nat) (s s' : Sess κ ν) (w w' : World κ ν) (id : Nat) (c : Map κ ν)
    (h : Inv s w) (hf : finalizeSession cfg s w = (.set id c, s', w')) (k : κ) :
    (getRaw cfg rem' k (newSession (some (id, c)) w').1 (newSession (some (id, c)) w').2).1 = (getRaw cfg rem k s w).1 ∧
    clientGet k (newSession (some (id, c)) w').1 = clientGet k s := by
  obtain ⟨hs, hinv, hid, hc⟩ := finalize_set_sync cfg s s' w w' id c (finalizeSession_set cfg s s' w w' id c hf)
  obtain ⟨hfl, hI'⟩ := sync_ok_flush cfg s s' w w' h hs
  obtain ⟨_, g2, g3⟩ := sync_ok_fields cfg s s' w w' hs
  have hlt : id < w'.nextId := by rw [hid]; exact hI'.newLt
  have hnext := Inv_incoming id c w' hI'.storeLt hlt
  constructor
  · rw [getRaw_eq_specGet cfg rem' k _ _ hnext, getRaw_eq_specGet cfg rem k s w h]
    have := flush_carry cfg k (abs s) (abs s') (absW w) (absW w') c (SInv_of_Inv s w h) hfl hinv
    rw [← this, hid]
    rfl
  · have e1 : s.invalidated = false := by rw [← g2]; exact hinv
    simp [clientGet, newSession, e1, Cli.state, hc, g3]

/-- **C11 (cycle_id)**: after `cycle_id()` and a successful sync the state is reachable only under
    the new id: nothing is left under the old id, the session now goes by the new id, and the
    record stored under the new id is the session's server state. -/
theorem cycle_only_new_id (cfg : Config) (s s' : Sess κ ν) (w w' : World κ ν) (old new : Nat) (h : Inv s w)
    (hid : s.id = .toBeRenamed old new) (hs : sync cfg s w = (.ok, s', w')) :
    s'.id = .existing new ∧ old ≠ new ∧ Map.lookup w'.store old = none ∧
    (∀ m, viewSrv s.server = .present m → (Map.lookup w'.store new).map (·.state) = some m) ∧
    (s.server = none → (Map.lookup w'.store new).map (·.state) = (Map.lookup w.store old).map (·.state)) := by
  obtain ⟨hfl, hI'⟩ := sync_ok_flush cfg s s' w w' h hs
  obtain ⟨A, B, C, D⟩ := SInv_of_Inv s w h
  have hne := (h.renamedFresh old new hid).2
  have hnew := (h.renamedFresh old new hid).1
  have hne' : ¬ new = old := fun e => hne e.symm
  have none_iff : ∀ (w0 : World κ ν) (i : Nat), (absW w0).recs i = none → Map.lookup w0.store i = none := by
    intro w0 i hh
    simp only [absW_recs] at hh
    cases hl : Map.lookup w0.store i <;> simp_all
  obtain ⟨id, server, client, inval⟩ := s
  simp only at hid
  subst hid
  cases server with
  | none =>
    cases hr : (absW w).recs old with
    | none => simp [flush, abs, viewSrv, hr] at hfl
    | some m =>
      simp [flush, abs, viewSrv, hr] at hfl
      obtain ⟨e1, e2⟩ := hfl
      have e1' := e1.1
      refine ⟨e1'.symm, hne, none_iff w' old ?_, by simp [viewSrv], ?_⟩
      · rw [← e2]; simp [SWorld.set, hne, hne']
      · intro _
        have := absW_recs w' new
        rw [← e2] at this
        simp [SWorld.set] at this
        rw [← this, ← absW_recs w old, hr]
  | some sv =>
    cases sv with
    | unchanged st t =>
      simp [flush, abs, viewSrv, CurId.newId, CurId.oldId, SWorld.unset] at hfl
      obtain ⟨e1, e2⟩ := hfl
      have e1' := e1.1
      refine ⟨e1'.symm, hne, none_iff w' old ?_, ?_, by simp⟩
      · rw [← e2]; simp [SWorld.set, hne, hne']
      · intro m hm
        simp [viewSrv] at hm
        subst hm
        have := absW_recs w' new
        rw [← e2] at this
        simp [SWorld.set] at this
        exact this.symm
    | changed st =>
      simp [flush, abs, viewSrv, CurId.newId, CurId.oldId, SWorld.unset] at hfl
      obtain ⟨e1, e2⟩ := hfl
      have e1' := e1.1
      refine ⟨e1'.symm, hne, none_iff w' old ?_, ?_, by simp⟩
      · rw [← e2]; simp [SWorld.set, hne, hne']
      · intro m hm
        simp [viewSrv] at hm
        subst hm
        have := absW_recs w' new
        rw [← e2] at this
        simp [SWorld.set] at this
        exact this.symm
    | doesNotExist =>
      have hold : (absW w).recs old = none := A rfl old rfl
      cases hcr : cfg.creation with
      | neverSkip =>
        simp [flush, abs, viewSrv, hcr, CurId.newId, CurId.oldId] at hfl
        obtain ⟨e1, e2⟩ := hfl
        have e1' := e1.1
        refine ⟨e1'.symm, hne, none_iff w' old ?_, by simp [viewSrv], by simp⟩
        rw [← e2]; simp [SWorld.set, hne, hne', hold]
      | skipIfEmpty =>
        simp [flush, abs, viewSrv, hcr, normId, CurId.newId, CurId.oldId] at hfl
        obtain ⟨e1, e2⟩ := hfl
        have e1' := e1.1
        refine ⟨e1'.symm, hne, none_iff w' old ?_, by simp [viewSrv], by simp⟩
        rw [← e2]; exact hold
    | markedForDeletion =>
      simp [flush, abs, viewSrv, normId, CurId.newId, CurId.oldId, SWorld.unset] at hfl
      obtain ⟨e1, e2⟩ := hfl
      have e1' := e1.1
      refine ⟨e1'.symm, hne, none_iff w' old ?_, by simp [viewSrv], by simp⟩
      rw [← e2]; simp [SWorld.set]

/-- **C11 (invalidate)**: finalising an invalidated session hands the client a removal cookie exactly
    if the client had a session (otherwise nothing), and leaves no record behind, neither under the
    old nor under the new id. -/
theorem invalidate_removes (cfg : Config) (s s' : Sess κ ν) (w w' : World κ ν) (f : Fin κ ν) (h : Inv s w)
    (hinv : s.invalidated = true) (hf : finalize cfg s w = (f, s', w')) :
    ((f = .removal ∧ s.id.oldId.isSome = true) ∨ (f = .none ∧ s.id.oldId = none)) ∧
    (∀ o, s.id.oldId = some o → Map.lookup w'.store o = none) ∧
    Map.lookup w'.store s.id.newId = none := by
  have hm := h.invOk hinv
  obtain ⟨id, server, client, inval⟩ := s
  simp only at hinv hm
  subst hinv hm
  cases id with
  | newlyGenerated n =>
    have hn := (h.newFresh n rfl).1
    simp [finalize, sync, syncStore, syncServer, syncId, CurId.oldId, CurId.newId] at hf
    obtain ⟨e1, e2, e3⟩ := hf
    subst e1 e3
    simp [CurId.oldId, CurId.newId, hn]
  | existing o =>
    cases hl : Map.lookup w.store o <;>
      simp [finalize, sync, syncStore, stDelete, hl, syncServer, syncId, CurId.oldId, CurId.newId] at hf <;>
      obtain ⟨e1, e2, e3⟩ := hf <;> subst e1 e3 <;>
      simp [CurId.oldId, CurId.newId, hl, Map.lookup_erase]
  | toBeRenamed o n =>
    have hn := (h.renamedFresh o n rfl).1
    have hne := (h.renamedFresh o n rfl).2
    cases hl : Map.lookup w.store o <;>
      simp [finalize, sync, syncStore, stDelete, hl, syncServer, syncId, CurId.oldId, CurId.newId] at hf <;>
      obtain ⟨e1, e2, e3⟩ := hf <;> subst e1 e3 <;>
      simp [CurId.oldId, CurId.newId, hl, hn, hne, Map.lookup_erase]

/-- ... and a cookie whose id has no record yields no server-side state, under either policy
    (the old cookie after `invalidate()`, after `cycle_id()`, after `delete()`). -/
theorem cookie_without_record_yields_nothing (cfg : Config) (rem : Nat) (id : Nat) (c : Map κ ν) (k : κ) (w : World κ ν)
    (hl : Map.lookup w.store id = none) :
    (getRaw cfg rem k (newSession (some (id, c)) w).1 (newSession (some (id, c)) w).2).1 = .val none := by
  cases hm : cfg.missing <;> simp [getRaw, newSession, forceLoad, CurId.oldId, stLoad, hl, hm]

/-! ### The recorded finding, and concrete instances (non-vacuity) -/

def exCfg : Config :=
  { ttl := 100, creation := .neverSkip, missing := .reject, extend := .onLoadsAndChanges, threshold := some (3, 4),
    cookie := { name := "id", domain := none, path := some "/", secure := true, httpOnly := true,
                sameSite := some .lax, kind := .persistent },
    crypto := { alg := .encrypt, ruleName := "id", percentEncode := true } }

/-- request 1 stores a value, request 2 deletes the record (the cookie stays valid), request 3 cycles
    the id without looking at the state. -/
def f7History : List (Req Nat Nat) :=
  [⟨.jar, false, 100, [.insert 1 7], none⟩, ⟨.jar, false, 100, [.delete], none⟩, ⟨.jar, false, 100, [.cycle], none⟩]

/-- The faithful model does **not** satisfy C11 at full strength: on `f7History` the third request
    fails (`change_id` on an unknown id) where the pair of maps goes on. Recorded as finding C11-F7;
    the behaviour is pinned by the project's own test-suite. -/
theorem C11_full_statement_false : ¬ C11_full_statement Nat Nat := by
  intro h
  have := h exCfg f7History
  revert this
  decide +kernel

example : (observed (runHistory exCfg f7History Client.init World.init)).map (·.2) =
    [.set 0 [], .set 0 [], .err (.sync f7)] := by decide +kernel

/-- The witness of the repaired `remove_raw` defect: insert; next request remove; next request get. -/
example : observed (runHistory exCfg
      [⟨.jar, false, 100, [.insert 1 7], none⟩, ⟨.jar, false, 100, [.remove 1], none⟩, ⟨.jar, false, 100, [.get 1], none⟩]
      (Client.init : Client Nat Nat) World.init) =
    [([.val none], .set 0 []), ([.val (some 7)], .set 0 []), ([.val none], .set 0 [])] := by decide +kernel

/-- `carry_over_partial` is not vacuous: a history with client and server state, an explicit sync,
    a cycled id and a replayed old cookie shows no F7. -/
example : NoF7 (observed (runHistory exCfg
      [⟨.jar, false, 100, [.insert 1 7, .cInsert 2 8, .sync, .cycle], none⟩,
       ⟨.jar, false, 10, [.get 1, .cGet 2, .cycle, .remove 1], none⟩,
       ⟨.issued 0, false, 10, [.get 1, .cGet 2], none⟩]
      (Client.init : Client Nat Nat) World.init)) := by
  intro o ho
  revert o
  decide +kernel


/-! Hypotheses of the per-state theorems are satisfiable on non-trivial instances. -/

/-- A loaded session with server and client state whose id has been cycled, and its store. -/
def exSess : Sess Nat Nat := ⟨.toBeRenamed 0 1, some (.unchanged [(1, 7)] 50), .unchanged [(2, 8)], false⟩
def exWorld : World Nat Nat := ⟨[(0, ⟨[(1, 7)], 100⟩)], 2, []⟩

theorem exInv : Inv exSess exWorld := by
  constructor <;> simp [exSess, exWorld, CurId.newId, CurId.oldId, Map.lookup]

-- `refine_step`, `carry_over`, `cycle_only_new_id`: the invariant holds, sync succeeds, a cookie comes out
example : (sync exCfg exSess exWorld).1 = .ok := by decide
example : (finalizeSession exCfg exSess exWorld).1 = .set 1 [(2, 8)] := by decide
example : (getRaw exCfg 9 1 (newSession (some (1, [(2, 8)])) (finalizeSession exCfg exSess exWorld).2.2).1
    (finalizeSession exCfg exSess exWorld).2.2).1 = .val (some 7) := by decide

-- `invalidate_removes`: an invalidated session the client knows about
def exInvalidated : Sess Nat Nat := ⟨.existing 0, some .markedForDeletion, .unchanged [(2, 8)], true⟩
example : Inv exInvalidated exWorld := by
  constructor <;> simp [exInvalidated, exWorld, CurId.newId, CurId.oldId, Map.lookup]
example : (finalize exCfg exInvalidated exWorld).1 = .removal ∧ (finalize exCfg exInvalidated exWorld).2.2.store = [] := by decide

-- `sync_fails_only_f7`: the refusal does occur (never-loaded state, cycled id, no record)
def exF7 : Sess Nat Nat := ⟨.toBeRenamed 0 1, none, .unchanged [], false⟩
example : Inv exF7 (⟨[], 2, []⟩ : World Nat Nat) := by
  constructor <;> simp [exF7, CurId.newId, CurId.oldId, Map.lookup]
example : (sync exCfg exF7 (⟨[], 2, []⟩ : World Nat Nat)).1 = .err f7 := by decide

end Pxv.Session
