import Pxv.Model.Generate
import Pxv.Lemmas.Manifest
/-!
C10 — code generation is deterministic, cache-independent and idempotent (the modelled part):
persistence never touches a file whose bytes are already right, `--check` never writes, `--check`
succeeds exactly when an update run would write nothing, and a read-through cache that only ever
stores `f k` under `k` is transparent for every history of prior insertions.
-/
namespace Pxv.Gen

theorem persist_check_fs (w : Writer) (fs : FS) (p : String) (c : List Nat) (h : w.mode = .check) :
    (w.persist fs p c).2 = fs ∧ (w.persist fs p c).1.writes = w.writes ∧
    (w.persist fs p c).1.mode = .check := by
  unfold Writer.persist
  simp only [h]
  refine ⟨trivial, ?_, ?_⟩ <;> split <;> simp [h]

/-- **`--check` is pure**: whatever the verdict, a check run writes no file. -/
theorem check_pure (b : Build) (fs : FS) :
    (generate b .check fs).fs = fs ∧ (generate b .check fs).writes = 0 := by
  have hd : ∀ s : Writer × FS, s.1.mode = .check →
      (stepDiag b s).2 = s.2 ∧ (stepDiag b s).1.writes = s.1.writes ∧ (stepDiag b s).1.mode = .check := by
    intro s hs; unfold stepDiag; split
    · exact persist_check_fs _ _ _ _ hs
    · exact ⟨rfl, rfl, hs⟩
  have hm : ∀ s : Writer × FS, s.1.mode = .check →
      (stepManifests b s).2 = s.2 ∧ (stepManifests b s).1.writes = s.1.writes ∧
      (stepManifests b s).1.mode = .check := by
    intro s hs
    simp only [stepManifests]
    obtain ⟨a1, a2, a3⟩ := persist_check_fs s.1 s.2 b.rootPath
      (b.rootEdit (match s.2.get b.rootPath with | some f => f.bytes | none => [])) hs
    obtain ⟨b1, b2, b3⟩ := persist_check_fs _ (s.1.persist s.2 b.rootPath
      (b.rootEdit (match s.2.get b.rootPath with | some f => f.bytes | none => []))).2 b.sdkManifestPath
      (b.sdkEdit (((s.1.persist s.2 b.rootPath
      (b.rootEdit (match s.2.get b.rootPath with | some f => f.bytes | none => []))).2.get b.sdkManifestPath).map (·.bytes))) a3
    exact ⟨b1.trans a1, b2.trans a2, b3⟩
  have hl : ∀ s : Writer × FS, s.1.mode = .check →
      (stepLib b s).2 = s.2 ∧ (stepLib b s).1.writes = s.1.writes := by
    intro s hs
    obtain ⟨a1, a2, _⟩ := persist_check_fs s.1 s.2 b.libPath b.lib hs
    exact ⟨a1, a2⟩
  unfold generate
  by_cases he : b.errors > 0
  · simp [he]
  · simp only [he, if_false]
    obtain ⟨d1, d2, d3⟩ := hd (⟨.check, [], 0⟩, fs) rfl
    by_cases hc : b.codegenOk = true
    · obtain ⟨m1, m2, m3⟩ := hm _ d3
      by_cases hp : b.libParses = true
      · obtain ⟨l1, l2⟩ := hl _ m3
        simp only [hc, hp, Bool.not_true, Bool.false_eq_true, if_false, finish]
        split <;> simp [l1, l2, m1, m2, d1, d2]
      · simp [hc, hp, m1, m2, d1, d2]
    · simp [hc, d1, d2]

/-- a file whose bytes are already right is not touched (bytes **and** modification stamp). -/
theorem persist_unchanged (fs : FS) (p : String) (c : List Nat) (f : File)
    (h : fs.get p = some f) (hb : f.bytes = c) : persistIfChanged fs p c = fs := by
  simp [persistIfChanged, hasChanged, h, hb]

theorem get_write_same (fs : FS) (p : String) (c : List Nat) :
    ((fs.write p c).get p).map (·.bytes) = some c := by
  simp [FS.write, FS.get]

/-- **idempotence of persistence**: persisting the same bytes twice writes at most once. -/
theorem persist_idem (fs : FS) (p : String) (c : List Nat) :
    persistIfChanged (persistIfChanged fs p c) p c = persistIfChanged fs p c := by
  by_cases hch : hasChanged fs p c = true
  · have h1 : persistIfChanged fs p c = fs.write p c := by simp [persistIfChanged, hch]
    rw [h1]
    have := get_write_same fs p c
    cases hg : (fs.write p c).get p with
    | none => simp [hg] at this
    | some f =>
      simp only [hg, Option.map_some, Option.some.injEq] at this
      exact persist_unchanged _ p c f hg this
  · have h1 : persistIfChanged fs p c = fs := by simp [persistIfChanged, hch]
    rw [h1, h1]

/-- an update step that reports no write left the file system as it was. -/
theorem persist_update_nowrite (w : Writer) (fs : FS) (p : String) (c : List Nat)
    (hm : w.mode = .update) :
    (w.persist fs p c).1.mode = .update ∧ (w.persist fs p c).1.writes ≥ w.writes ∧
    ((w.persist fs p c).1.writes = w.writes → (w.persist fs p c).2 = fs) ∧
    ((w.persist fs p c).1.writes = w.writes ↔ hasChanged fs p c = false) := by
  unfold Writer.persist
  simp only [hm]
  by_cases hc : hasChanged fs p c = true
  · simp [hc, hm, persistIfChanged]
  · simp [hc, hm, persistIfChanged]

/-- The simulation invariant between a check run (never writes, state `fs`) and an update run:
    nothing is outdated so far iff nothing was written so far, and then both see the same files. -/
def Sim (fs : FS) (sc su : Writer × FS) : Prop :=
  sc.1.mode = .check ∧ su.1.mode = .update ∧ sc.2 = fs ∧
  (sc.1.outdated = [] ↔ su.1.writes = 0) ∧ (su.1.writes = 0 → su.2 = fs)

theorem sim_step (fs : FS) (sc su : Writer × FS) (p : String) (cf : FS → List Nat)
    (h : Sim fs sc su) :
    Sim fs (sc.1.persist sc.2 p (cf sc.2)) (su.1.persist su.2 p (cf su.2)) := by
  obtain ⟨hc, hu, hfs, hiff, hsame⟩ := h
  obtain ⟨c1, _, c3⟩ := persist_check_fs sc.1 sc.2 p (cf sc.2) hc
  obtain ⟨u1, u2, u3, u4⟩ := persist_update_nowrite su.1 su.2 p (cf su.2) hu
  refine ⟨c3, u1, by rw [c1]; exact hfs, ?_, ?_⟩
  · by_cases hw : su.1.writes = 0
    · have hfu : su.2 = fs := hsame hw
      have hout : sc.1.outdated = [] := hiff.mpr hw
      -- same files, same content, same verdict of `hasChanged`
      have hcs : cf su.2 = cf sc.2 := by rw [hfu, hfs]
      constructor
      · intro hno
        have : hasChanged sc.2 p (cf sc.2) = false := by
          unfold Writer.persist at hno
          simp only [hc, hout, List.contains_nil, Bool.not_false, Bool.and_true] at hno
          by_cases hch : hasChanged sc.2 p (cf sc.2) = true
          · simp [hch, hout] at hno
          · simpa using hch
        have h2 : hasChanged su.2 p (cf su.2) = false := by rw [hcs, hfu, ← hfs]; exact this
        rw [u4.mpr h2, hw]
      · intro hz
        have hw' : (su.1.persist su.2 p (cf su.2)).1.writes = su.1.writes := by omega
        have h2 : hasChanged su.2 p (cf su.2) = false := u4.mp hw'
        have : hasChanged sc.2 p (cf sc.2) = false := by rw [← hcs, hfs, ← hfu]; exact h2
        unfold Writer.persist
        simp [hc, this, hout]
    · have hout : sc.1.outdated ≠ [] := fun h => hw (hiff.mp h)
      constructor
      · intro hno
        exfalso
        unfold Writer.persist at hno
        simp only [hc] at hno
        split at hno
        · simp at hno
        · exact hout hno
      · intro hz; omega
  · intro hz
    have hw : su.1.writes = 0 := by omega
    have := u3 (by omega)
    rw [this]; exact hsame hw

/-- **`--check` agrees with update**: for an accepted blueprint, `--check` exits 0 exactly when a
    normal run writes no file — whatever the files on disk are (manifests are edited in place, so
    their expected content is computed from the current content in both modes). -/
theorem check_iff_update_writes_nothing (b : Build) (fs : FS) (h0 : b.errors = 0)
    (h1 : b.codegenOk = true) (h2 : b.libParses = true) :
    (generate b .check fs).exit = 0 ↔ (generate b .update fs).writes = 0 := by
  have s0 : Sim fs (⟨.check, [], 0⟩, fs) (⟨.update, [], 0⟩, fs) := ⟨rfl, rfl, rfl, by simp, fun _ => rfl⟩
  have s1 : Sim fs (stepDiag b (⟨.check, [], 0⟩, fs)) (stepDiag b (⟨.update, [], 0⟩, fs)) := by
    unfold stepDiag
    cases hd : b.diag with
    | none => exact s0
    | some pc => exact sim_step fs _ _ pc.1 (fun _ => pc.2) s0
  have s3 : Sim fs (stepManifests b (stepDiag b (⟨.check, [], 0⟩, fs)))
      (stepManifests b (stepDiag b (⟨.update, [], 0⟩, fs))) := by
    unfold stepManifests
    have a := sim_step fs _ _ b.rootPath
      (fun f => b.rootEdit (match f.get b.rootPath with | some x => x.bytes | none => [])) s1
    exact sim_step fs _ _ b.sdkManifestPath
      (fun f => b.sdkEdit ((f.get b.sdkManifestPath).map (·.bytes))) a
  have s4 := sim_step fs _ _ b.libPath (fun _ => b.lib) s3
  obtain ⟨hc, hu, _, hiff, _⟩ := s4
  simp only [generate, h0, Nat.lt_irrefl, if_false, h1, h2, Bool.not_true, Bool.false_eq_true, finish,
    stepLib]
  have hvu : (Writer.persist (stepManifests b (stepDiag b (⟨.update, [], 0⟩, fs))).1
      (stepManifests b (stepDiag b (⟨.update, [], 0⟩, fs))).2 b.libPath b.lib).1.verifyOk = true := by
    simp [Writer.verifyOk, hu]
  simp only [hvu, if_true]
  rw [← hiff]
  simp only [Writer.verifyOk, hc]
  constructor
  · intro h
    split at h
    · rename_i hv; simpa using hv
    · simp at h
  · intro h
    simp [h]

/-- and such a run leaves every file — bytes and modification stamp — as it was. -/
theorem update_nowrite_fs (b : Build) (fs : FS) (h0 : b.errors = 0) (h1 : b.codegenOk = true)
    (h2 : b.libParses = true) (hw : (generate b .update fs).writes = 0) :
    (generate b .update fs).fs = fs := by
  have s0 : Sim fs (⟨.check, [], 0⟩, fs) (⟨.update, [], 0⟩, fs) := ⟨rfl, rfl, rfl, by simp, fun _ => rfl⟩
  have s1 : Sim fs (stepDiag b (⟨.check, [], 0⟩, fs)) (stepDiag b (⟨.update, [], 0⟩, fs)) := by
    unfold stepDiag
    cases hd : b.diag with
    | none => exact s0
    | some pc => exact sim_step fs _ _ pc.1 (fun _ => pc.2) s0
  have s3 : Sim fs (stepManifests b (stepDiag b (⟨.check, [], 0⟩, fs)))
      (stepManifests b (stepDiag b (⟨.update, [], 0⟩, fs))) := by
    unfold stepManifests
    have a := sim_step fs _ _ b.rootPath
      (fun f => b.rootEdit (match f.get b.rootPath with | some x => x.bytes | none => [])) s1
    exact sim_step fs _ _ b.sdkManifestPath
      (fun f => b.sdkEdit ((f.get b.sdkManifestPath).map (·.bytes))) a
  have s4 := sim_step fs _ _ b.libPath (fun _ => b.lib) s3
  obtain ⟨_, hu, _, _, hsame⟩ := s4
  simp only [generate, h0, Nat.lt_irrefl, if_false, h1, h2, Bool.not_true, Bool.false_eq_true, finish,
    stepLib] at hw ⊢
  have hvu : (Writer.persist (stepManifests b (stepDiag b (⟨.update, [], 0⟩, fs))).1
      (stepManifests b (stepDiag b (⟨.update, [], 0⟩, fs))).2 b.libPath b.lib).1.verifyOk = true := by
    simp [Writer.verifyOk, hu]
  simp only [hvu, if_true] at hw ⊢
  exact hsame hw

/-- **cache transparency**: a table that only holds `f k` under `k` answers `f k`, and stays such,
    for every history of previous insertions (none, this project, other projects). -/
theorem cache_transparent {κ ν} [BEq κ] [LawfulBEq κ] (f : κ → ν) (c : List (κ × ν)) (k : κ)
    (hinv : ∀ kv ∈ c, kv.2 = f kv.1) :
    (getOrCompute f c k).1 = f k ∧ ∀ kv ∈ (getOrCompute f c k).2, kv.2 = f kv.1 := by
  unfold getOrCompute
  cases h : c.find? (·.1 == k) with
  | none =>
    refine ⟨rfl, ?_⟩
    intro kv hkv
    simp at hkv
    rcases hkv with hkv | hkv
    · exact hinv kv hkv
    · subst hkv; rfl
  | some x =>
    obtain ⟨k', v⟩ := x
    have hmem := List.mem_of_find?_eq_some h
    have hk := List.find?_some h
    simp only [beq_iff_eq] at hk
    refine ⟨?_, hinv⟩
    have := hinv (k', v) hmem
    simp only at this hk
    rw [this, hk]

/-- hence any sequence of look-ups returns what a cold cache would return. -/
theorem cache_history_irrelevant {κ ν} [BEq κ] [LawfulBEq κ] (f : κ → ν) (ks : List κ)
    (c : List (κ × ν)) (hinv : ∀ kv ∈ c, kv.2 = f kv.1) (k : κ) :
    (getOrCompute f (ks.foldl (fun c k => (getOrCompute f c k).2) c) k).1 = f k := by
  have : ∀ (ks : List κ) (c : List (κ × ν)), (∀ kv ∈ c, kv.2 = f kv.1) →
      ∀ kv ∈ ks.foldl (fun c k => (getOrCompute f c k).2) c, kv.2 = f kv.1 := by
    intro ks
    induction ks with
    | nil => intro c h; simpa using h
    | cons a ks ih => intro c h; exact ih _ (cache_transparent f c a h).2
  exact (cache_transparent f _ k (this ks c hinv)).1

-- Non-vacuity
def exBuildCheck : Build :=
  { errors := 0, diag := some ("d.dot", [9]), codegenOk := true, libParses := true,
    rootPath := "Cargo.toml", rootEdit := fun x => x, sdkManifestPath := "sdk/Cargo.toml",
    sdkEdit := fun _ => [1], libPath := "sdk/src/lib.rs", lib := [2] }
-- only the diagnostics file is missing: `--check` fails and (check_pure) writes nothing
example : (generate exBuildCheck .check
    (FS.ofList [("Cargo.toml", ⟨[], 1⟩), ("sdk/Cargo.toml", ⟨[1], 3⟩), ("sdk/src/lib.rs", ⟨[2], 5⟩)])).exit = 1 := by
  decide
example : (persistIfChanged (FS.ofList [("a", ⟨[1], 4⟩)]) "a" [1]).get "a" = some ⟨[1], 4⟩ ∧
    (persistIfChanged (FS.ofList [("a", ⟨[1], 4⟩)]) "a" [2]).get "a" = some ⟨[2], 5⟩ := by decide

end Pxv.Gen

/-! ### The SDK manifest: what an earlier generation left in the directory does not matter -/
namespace Pxv.Gen

/-- **History does not matter for the SDK manifest**: generating into a directory whose manifest was written by an
    earlier generation (of anything) gives the manifest a generation on the original document gives. -/
theorem overwrite_absorbs (g1 g2 : GenManifest) (d : Doc) : g2.overwrite (g1.overwrite d) = g2.overwrite d := by
  unfold GenManifest.overwrite
  simp only [setTable_eq, setIn_eq]
  have hne : ("package" : String) ≠ "dependencies" := by decide
  rw [kset_comm_of_present _ "dependencies" "package" (Ne.symm hne) _ _ (kset_any _ _ _)]
  rw [kset_kset, kset_kset]
  congr 1
  funext o
  cases o with
  | none => simp [Tbl.set]
  | some t =>
    show Tbl.set (Tbl.set t "edition" g1.edition) "edition" g2.edition = Tbl.set t "edition" g2.edition
    have e1 : ∀ v, Tbl.set t "edition" v = kset t "edition" (fun _ => v) := by intro v; unfold Tbl.set kset; rfl
    have e2 : ∀ (t' : Tbl) v, Tbl.set t' "edition" v = kset t' "edition" (fun _ => v) := by intro t' v; unfold Tbl.set kset; rfl
    rw [e2, e2, e2, kset_kset]

theorem overwrite_idem (g : GenManifest) (d : Doc) : g.overwrite (g.overwrite d) = g.overwrite d :=
  overwrite_absorbs g g d

/-- the same for `persist_manifest` as a whole: whatever was generated before (`hist`), starting from no file or from
    the user's own manifest `d0`, the manifest after generating `g` is the one a single generation gives. -/
theorem sdkManifest_history_irrelevant (g : GenManifest) (hist : List GenManifest) (d0 : Option Doc) :
    sdkManifest g (some (hist.foldl (fun d h => h.overwrite d) (d0.getD freshDoc))) = sdkManifest g d0 := by
  unfold sdkManifest
  simp only [Option.getD_some]
  induction hist generalizing d0 with
  | nil => rfl
  | cons h hs ih =>
    simp only [List.foldl_cons]
    have := ih (some (h.overwrite (d0.getD freshDoc)))
    simp only [Option.getD_some] at this
    rw [this, overwrite_absorbs]

/-- non-vacuity / what the theorem excludes: the in-place variant keeps a dependency that is no longer needed. -/
example :
    let gH : GenManifest := ⟨[("app", [1]), ("helper", [2]), ("pavex", [3])], [2024]⟩
    let gP : GenManifest := ⟨[("app", [1]), ("pavex", [3])], [2024]⟩
    gP.overwrite (gH.overwrite freshDoc) = gP.overwrite freshDoc ∧
    gP.overwriteInPlace (gH.overwriteInPlace freshDoc) ≠ gP.overwriteInPlace freshDoc := by decide

end Pxv.Gen

/-! ### `persist_if_changed` leaves the requested bytes on disk, whatever was there -/
namespace Pxv.Gen

/-- after `persist_if_changed(p, c)` the file at `p` holds exactly `c`: for no file, the same bytes, other bytes of
    another length, other bytes of the SAME length. (↔ `has_changed_file2buffer`: length + checksum of ALL bytes.) -/
theorem persistIfChanged_result (fs : FS) (p : String) (c : List Nat) :
    ((persistIfChanged fs p c).get p).map (·.bytes) = some c := by
  unfold persistIfChanged hasChanged FS.get
  cases h : fs p with
  | none => simp [FS.write]
  | some f =>
    by_cases hb : f.bytes = c
    · simp [h, hb]
    · simp [hb, FS.write]

/-- and nothing else is touched -/
theorem persistIfChanged_other (fs : FS) (p q : String) (c : List Nat) (h : q ≠ p) :
    (persistIfChanged fs p c).get q = fs.get q := by
  unfold persistIfChanged FS.get
  split
  · simp [FS.write, h]
  · rfl

end Pxv.Gen
