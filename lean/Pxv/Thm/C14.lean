import Pxv.Model.Body
/-!
C14 — a buffered request body never exceeds the configured size limit.
Property theorems only. All are for every limit, every frame list (every chunking), every
Content-Length header value.
-/
namespace Pxv.Body

theorem collectLimited_ok {rem : Nat} {fs : List Frame} {acc b : List Nat}
    (h : collectLimited rem fs acc = .ok b) :
    b = acc ++ dataJoin fs ∧ (dataJoin fs).length ≤ rem ∧ noErr fs = true := by
  induction fs generalizing rem acc with
  | nil => simp [collectLimited] at h; simp [dataJoin, noErr, h]
  | cons f fs ih =>
    cases f with
    | data bs =>
      simp only [collectLimited] at h
      by_cases hle : bs.length > rem
      · simp [hle] at h
      · simp only [hle, if_false] at h
        obtain ⟨h1, h2, h3⟩ := ih h
        refine ⟨?_, ?_, ?_⟩
        · simp [dataJoin, h1, List.append_assoc]
        · simp [dataJoin]; omega
        · simpa [noErr] using h3
    | trailers =>
      simp only [collectLimited] at h
      have := ih h
      simpa [dataJoin, noErr] using this
    | err => simp [collectLimited] at h

theorem collectLimited_of_fits {rem : Nat} {fs : List Frame} {acc : List Nat}
    (hn : noErr fs = true) (hl : (dataJoin fs).length ≤ rem) :
    collectLimited rem fs acc = .ok (acc ++ dataJoin fs) := by
  induction fs generalizing rem acc with
  | nil => simp [collectLimited, dataJoin]
  | cons f fs ih =>
    cases f with
    | data bs =>
      simp [dataJoin] at hl
      simp only [collectLimited]
      have : ¬ bs.length > rem := by omega
      simp only [this, if_false]
      rw [ih (by simpa [noErr] using hn) (by omega)]
      simp [dataJoin, List.append_assoc]
    | trailers =>
      simp only [collectLimited]
      rw [ih (by simpa [noErr] using hn) (by simpa [dataJoin] using hl)]
      simp [dataJoin]
    | err => simp [noErr] at hn

theorem collectLimited_over {rem : Nat} {fs : List Frame} {acc : List Nat}
    (hn : noErr fs = true) (hl : (dataJoin fs).length > rem) :
    collectLimited rem fs acc = .sizeLimit := by
  induction fs generalizing rem acc with
  | nil => simp [dataJoin] at hl
  | cons f fs ih =>
    cases f with
    | data bs =>
      simp [dataJoin] at hl
      simp only [collectLimited]
      split
      · rfl
      · exact ih (by simpa [noErr] using hn) (by omega)
    | trailers =>
      simp only [collectLimited]
      exact ih (by simpa [noErr] using hn) (by simpa [dataJoin] using hl)
    | err => simp [noErr] at hn

/-- **C14 (1)**: a successful extraction hands over exactly the bytes the client sent, at most
    `N` of them, and only if the transport did not fail. -/
theorem ok_bounded (hdr : Option (List Nat)) (N : Nat) (fs : List Frame) (b : List Nat)
    (h : extractWithLimit hdr N fs = .ok b) :
    b = dataJoin fs ∧ b.length ≤ N ∧ noErr fs = true := by
  unfold extractWithLimit at h
  have key : ∀ {b}, collectLimited (min N usizeMax) fs [] = .ok b →
      b = dataJoin fs ∧ b.length ≤ N ∧ noErr fs = true := by
    intro b hb
    have := collectLimited_ok hb
    simp at this
    refine ⟨this.1, ?_, this.2.2⟩
    rw [this.1]; omega
  split at h
  · split at h
    · cases h
    · exact key h
  · exact key h

/-- **C14 (2)**: the application is never handed more than `N` bytes, whatever the outcome. -/
theorem never_more_than_limit (hdr : Option (List Nat)) (N : Nat) (fs : List Frame) :
    match extractWithLimit hdr N fs with
    | .ok b => b.length ≤ N
    | _ => True := by
  cases h : extractWithLimit hdr N fs with
  | ok b => exact (ok_bounded hdr N fs b h).2.1
  | sizeLimit => trivial
  | bufferErr => trivial

/-- **C14 (3)**: exact error condition when the transport does not fail: size-limit error iff the
    header announces more than `N` or the body really is longer than `N`; otherwise the body. -/
theorem sizeLimit_iff (hdr : Option (List Nat)) (N : Nat) (fs : List Frame)
    (hN : N ≤ usizeMax) (hn : noErr fs = true) :
    extractWithLimit hdr N fs = .sizeLimit ↔
      ((∃ len, contentLength hdr = some len ∧ len > N) ∨ (dataJoin fs).length > N) := by
  have hmin : min N usizeMax = N := Nat.min_eq_left hN
  unfold extractWithLimit
  rw [hmin]
  by_cases hl : (dataJoin fs).length > N
  · have := collectLimited_over (acc := []) hn hl
    cases hc : contentLength hdr with
    | none => simp [this, hl]
    | some len => by_cases hlen : len > N <;> simp [hlen, this, hl]
  · have := collectLimited_of_fits (acc := []) hn (Nat.le_of_not_gt hl)
    cases hc : contentLength hdr with
    | none => simp [this, hl]
    | some len => by_cases hlen : len > N <;> simp [hlen, this, hl]

/-- **C14 (4)**: and when neither holds the body is returned intact. -/
theorem ok_of_fits (hdr : Option (List Nat)) (N : Nat) (fs : List Frame)
    (hN : N ≤ usizeMax) (hn : noErr fs = true)
    (hcl : ∀ len, contentLength hdr = some len → len ≤ N) (hl : (dataJoin fs).length ≤ N) :
    extractWithLimit hdr N fs = .ok (dataJoin fs) := by
  have hmin : min N usizeMax = N := Nat.min_eq_left hN
  unfold extractWithLimit
  rw [hmin]
  have := collectLimited_of_fits (acc := []) hn hl
  cases hc : contentLength hdr with
  | none => simpa using this
  | some len =>
    have : ¬ len > N := Nat.not_lt.mpr (hcl len hc)
    simp [*]

/-- **C14 (5)**: the split of the body into transport frames is irrelevant. -/
theorem chunking_irrelevant (hdr : Option (List Nat)) (N : Nat) (fs fs' : List Frame)
    (hN : N ≤ usizeMax) (hn : noErr fs = true) (hn' : noErr fs' = true)
    (hj : dataJoin fs = dataJoin fs') :
    extractWithLimit hdr N fs = extractWithLimit hdr N fs' := by
  have hmin : min N usizeMax = N := Nat.min_eq_left hN
  unfold extractWithLimit
  rw [hmin]
  have hc : collectLimited N fs [] = collectLimited N fs' [] := by
    by_cases hl : (dataJoin fs).length > N
    · rw [collectLimited_over hn hl, collectLimited_over hn' (hj ▸ hl)]
    · rw [collectLimited_of_fits hn (Nat.le_of_not_gt hl),
          collectLimited_of_fits hn' (hj ▸ Nat.le_of_not_gt hl), hj]
  rw [hc]

/-- **C14 (6)**: extractors layered on the buffered body (JSON, form) parse at most `N` bytes,
    and exactly the client's bytes. -/
theorem layered_bounded {α} (p : List Nat → α) (hdr : Option (List Nat)) (N : Nat)
    (fs : List Frame) (a : α) (h : extractThen p hdr N fs = some a) :
    a = p (dataJoin fs) ∧ (dataJoin fs).length ≤ N := by
  unfold extractThen at h
  split at h
  · rename_i b hb
    have := ok_bounded hdr N fs b hb
    cases h
    exact ⟨by rw [this.1], this.1 ▸ this.2.1⟩
  · cases h

/-- A garbage or absent header never *admits* an oversized body. -/
theorem header_cannot_admit (hdr : Option (List Nat)) (N : Nat) (fs : List Frame)
    (hl : (dataJoin fs).length > N) : ∀ b, extractWithLimit hdr N fs ≠ .ok b := by
  intro b h
  have := ok_bounded hdr N fs b h
  rw [this.1] at this
  omega

-- Non-vacuity: concrete instances satisfying the hypotheses, with non-trivial outcomes.
example : extractWithLimit (some [43, 51]) 3 [.data [1, 2], .trailers, .data [3]] = .ok [1, 2, 3] := by
  decide
example : extractWithLimit (some [52]) 3 [.data [1]] = .sizeLimit := by decide
example : extractWithLimit (some [120]) 3 [.data [1, 2], .data [3, 4]] = .sizeLimit := by decide
example : extractWithLimit none 3 [.data [1], .err] = .bufferErr := by decide

/-! ### the public entry point -/

/-- **C14 for `BufferedBody::extract`**: with `BodySizeLimit::Enabled { max_size: N }` the public extractor hands the
    application at most `N` bytes, identical to what the client sent, or fails — whatever headers the request carries (none
    at all included: an HTTP/2 request may stream a body that no header announces) and however the body is framed. -/
theorem extract_enabled_bounded (hdr : Option (List Nat)) (N : Nat) (fs : List Frame) (b : List Nat)
    (h : extract hdr (.enabled N) fs = .ok b) : b = dataJoin fs ∧ b.length ≤ N :=
  ⟨(ok_bounded hdr N fs b h).1, (ok_bounded hdr N fs b h).2.1⟩

-- the seeded variant (no Content-Length ⇒ no limit) hands 3 bytes to an application that allowed 2
example : extractSkipUnannounced none (.enabled 2) [.data [1, 2], .data [3]] = .ok [1, 2, 3] ∧
    extract none (.enabled 2) [.data [1, 2], .data [3]] = .sizeLimit := by decide

end Pxv.Body
