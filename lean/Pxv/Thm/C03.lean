import Pxv.Lemmas.LifecyclePlan
import Pxv.Lemmas.Transient
import Pxv.Lemmas.Partition
/-!
C03 — constructor lifecycles are honoured at run time.

`closureOf` mirrors how pavexc builds the call graph of one generated closure (`build_call_graph` with
`NodeDeduplicator`), `plan` the cross-stage bookkeeping of `RequestHandlerPipeline::new` (steps 1c–3),
`Plan.invariantsOk` its `enforce_invariants` (a blueprint on which that check fails is not accepted: pavexc
panics), `Plan.origin` the type-keyed hand-over of values between the generated stage functions.
A *run* is what executes for one request: any sub-list of every closure's nodes (early returns skip whole
components, a failing constructor cuts a closure short, error arms run a different part of it).
-/
namespace Pxv.Life
open Pxv.Scope

/-! ### one call graph -/

/-- **node de-duplication** (↔ `NodeDeduplicator::add_node_at_most_once`): in the call graph of one
    closure every constructor of the de-duplicated lifecycle — request-scoped in a request graph,
    singleton in the application-state graph — has at most one node, whatever the inputs, the
    prebuilt set and the depth of the dependency chains. -/
theorem dedup_unique (lk : Nat → Option CDef) (pre : List Nat) (once : Life) (hne : once ≠ .transient)
    (fuel : Nat) (ins : List (Nat × Mode)) :
    ((closureOf lk pre once fuel ins).1.idsOf once).Nodup :=
  closure_dedup lk pre once hne fuel ins

/-- every node of a call graph is a transient constructor, or a constructor of the de-duplicated
    lifecycle that is not prebuilt: the other long-lived lifecycle and the prebuilt components are
    input parameters (↔ `component_id2node`). -/
theorem nodes_lifecycle (lk : Nat → Option CDef) (pre : List Nat) (once : Life)
    (fuel : Nat) (ins : List (Nat × Mode)) :
    ∀ n ∈ (closureOf lk pre once fuel ins).1.nodes,
      n.ctor.life = .transient ∨ (n.ctor.life = once ∧ pre.contains n.ctor.uid = false) := by
  apply closureOf_preserves (fun cl => ∀ n ∈ cl.nodes,
      n.ctor.life = .transient ∨ (n.ctor.life = once ∧ pre.contains n.ctor.uid = false))
  · intro cl ty m h; exact h
  · intro cl c srcs h ht n hn
    simp only [Closure.push, List.mem_append, List.mem_singleton] at hn
    rcases hn with hn | rfl
    · exact h n hn
    · exact Or.inl ht
  · intro cl c srcs h hl _ hp _ n hn
    simp only [Closure.push, List.mem_append, List.mem_singleton] at hn
    rcases hn with hn | rfl
    · exact h n hn
    · exact Or.inr ⟨hl, hp⟩
  · intro n hn; simp at hn

/-! ### the pipeline of a route -/

/-- **C03 (request-scoped, once)**: in a pipeline that pavexc's `enforce_invariants` lets through,
    every request-scoped constructor runs at most once per request — for every pipeline shape and
    whatever part of it a request executes (early returns, failing constructors, error arms). -/
theorem rs_once (p : Plan) (h : p.invariantsOk = true) (r : Run p) (x : Nat) : r.constructions x ≤ 1 :=
  Nat.le_trans (constructions_le_count r x) (count_le_one_of_invariants p h x)


/-- **C03 — `enforce_invariants` never fires in a uniform pipeline** (↔ the cross-stage bookkeeping of
    `RequestHandlerPipeline::new`, steps 2–3, is right): when the handler and the middlewares of a route resolve every
    type alike, every request-scoped constructor gets a node in at most one closure of the pipeline — the closure of its
    only user, or, when several components use it, the closure of the wrapping middleware of the earliest stage that
    needs it, from where it reaches the others through the `Next` states. (`World`: constructor ids identify
    constructors, dependency chains are shorter than the recursion depth; `StagesOk`: the components of the pipeline are
    pairwise different and the synthetic wrapping middleware comes first — `stagesOk_group`.) -/
theorem pipeline_partition {env : Env} {lk : Nat → Option CDef} {rank : Nat → Nat} {tyOf : Nat → Option Nat}
    (w : World env lk rank tyOf) (chain : List Comp) (h : Comp)
    (hu : UniformStages env lk (group chain [] [] h)) (hok : StagesOk (group chain [] [] h)) :
    (plan env tyOf chain h).invariantsOk = true :=
  pipeline_partition_lem w chain h hu hok

/-- **C03 (request-scoped, once) without the guard**: in the pipeline pavexc builds for a route whose components
    resolve types alike — the synthetic wrapping middleware `c0`, the chain `ms`, the handler `h`, all different —
    every request-scoped constructor runs at most once per request, whatever part of the pipeline the request executes. -/
theorem rs_once_uniform {env : Env} {lk : Nat → Option CDef} {rank : Nat → Nat} {tyOf : Nat → Option Nat}
    (w : World env lk rank tyOf) (c0 : Comp) (ms : List Comp) (h : Comp) (hw : c0.isWrapping = true)
    (hnd : (c0 :: ms ++ [h]).Nodup) (hun : Uniform env lk (c0 :: ms) h)
    (r : Run (plan env tyOf (c0 :: ms) h)) (x : Nat) : r.constructions x ≤ 1 :=
  rs_once _ (pipeline_partition w (c0 :: ms) h (uniformStages_of_uniform hun) (stagesOk_group c0 ms h hw hnd)) r x

/-- **C03 (request-scoped, shared)**: in an accepted pipeline all values built by the request-scoped
    constructor `x` that reach any input of any component (handler, middlewares, constructors) are one
    and the same node — the consumers see that instance (or clones of it). -/
theorem rs_shared (env : Env) (tyOf : Nat → Option Nat) (chain : List Comp) (h : Comp)
    (hok : (plan env tyOf chain h).invariantsOk = true) (x : Nat) (o1 o2 : Origin)
    (h1 : (plan env tyOf chain h).isNodeOf o1 x) (h2 : (plan env tyOf chain h).isNodeOf o2 x) : o1 = o2 := by
  generalize hp : plan env tyOf chain h = p at *
  obtain ⟨c1, hc1, hu1, hl1⟩ := h1
  obtain ⟨c2, hc2, hu2, hl2⟩ := h2
  cases o1 with
  | app t => simp [Plan.ctorAt] at hc1
  | stuck => simp [Plan.ctorAt] at hc1
  | node a i =>
    cases o2 with
    | app t => simp [Plan.ctorAt] at hc2
    | stuck => simp [Plan.ctorAt] at hc2
    | node b j =>
      simp only [Plan.ctorAt, Option.bind_eq_some_iff, Option.map_eq_some_iff] at hc1 hc2
      obtain ⟨cpa, hcpa, na, hna, rfl⟩ := hc1
      obtain ⟨cpb, hcpb, nb, hnb, rfl⟩ := hc2
      have hcount := count_le_one_of_invariants p hok x
      rw [count_eq] at hcount
      have ha : a < p.comps.length := by
        rcases Nat.lt_or_ge a p.comps.length with h | h
        · exact h
        · rw [List.getElem?_eq_none h] at hcpa; cases hcpa
      have hb : b < p.comps.length := by
        rcases Nat.lt_or_ge b p.comps.length with h | h
        · exact h
        · rw [List.getElem?_eq_none h] at hcpb; cases hcpb
      have hcpa' : p.comps[a] = cpa := by
        have := List.getElem?_eq_getElem ha
        rw [this] at hcpa; exact Option.some.inj hcpa
      have hcpb' : p.comps[b] = cpb := by
        have := List.getElem?_eq_getElem hb
        rw [this] at hcpb; exact Option.some.inj hcpb
      have hpa : 0 < (p.comps.map (fun c => rsCount x c.cl.nodes))[a]'(by simpa using ha) := by
        simp only [List.getElem_map, hcpa']
        exact rsCount_pos_of_node x _ i na hna hu1 hl1
      have hpb : 0 < (p.comps.map (fun c => rsCount x c.cl.nodes))[b]'(by simpa using hb) := by
        simp only [List.getElem_map, hcpb']
        exact rsCount_pos_of_node x _ j nb hnb hu2 hl2
      have hab := sum_le_one_unique _ hcount a b (by simpa using ha) (by simpa using hb) hpa hpb
      subst hab
      rw [hcpa] at hcpb
      cases hcpb
      -- same closure: de-duplication inside one call graph
      have hfrom := plan_comps env tyOf chain h
      rw [hp] at hfrom
      obtain ⟨ins, hcl⟩ := hfrom cpa (List.mem_of_getElem? hcpa)
      have hnd := dedup_unique (env.get cpa.comp.scope)
        ((p.builtAt.filter (fun b => b.2 < cpa.stage)).map (·.1)) .request (by decide) env.fuel ins
      rw [← hcl] at hnd
      -- two positions of `nodes` with the same request-scoped uid coincide
      by_cases hij : i = j
      · rw [hij]
      · exfalso
        have hi : i < cpa.cl.nodes.length := by
          rcases Nat.lt_or_ge i cpa.cl.nodes.length with h | h
          · exact h
          · rw [List.getElem?_eq_none h] at hna; cases hna
        have hj : j < cpa.cl.nodes.length := by
          rcases Nat.lt_or_ge j cpa.cl.nodes.length with h | h
          · exact h
          · rw [List.getElem?_eq_none h] at hnb; cases hnb
        have hni : cpa.cl.nodes[i] = na := by
          have := List.getElem?_eq_getElem hi; rw [this] at hna; exact Option.some.inj hna
        have hnj : cpa.cl.nodes[j] = nb := by
          have := List.getElem?_eq_getElem hj; rw [this] at hnb; exact Option.some.inj hnb
        unfold Closure.idsOf at hnd
        have := nodup_map_filter_inj (fun n : Node => n.ctor.life == .request) (fun n => n.ctor.uid)
          cpa.cl.nodes hnd i j hi hj (by simp [hni, hl1]) (by simp [hnj, hl2]) (by simp [hni, hnj, hu1, hu2])
        exact hij this

/-- **C03 (request-scoped, shared) without the guard**: in a uniform pipeline all values of a request-scoped
    constructor that reach any input of any component are one and the same node. -/
theorem rs_shared_uniform {env : Env} {lk : Nat → Option CDef} {rank : Nat → Nat} {tyOf : Nat → Option Nat}
    (w : World env lk rank tyOf) (c0 : Comp) (ms : List Comp) (h : Comp) (hw : c0.isWrapping = true)
    (hnd : (c0 :: ms ++ [h]).Nodup) (hun : Uniform env lk (c0 :: ms) h) (x : Nat) (o1 o2 : Origin)
    (h1 : (plan env tyOf (c0 :: ms) h).isNodeOf o1 x) (h2 : (plan env tyOf (c0 :: ms) h).isNodeOf o2 x) : o1 = o2 :=
  rs_shared env tyOf (c0 :: ms) h
    (pipeline_partition w (c0 :: ms) h (uniformStages_of_uniform hun) (stagesOk_group c0 ms h hw hnd)) x o1 o2 h1 h2


/-- **C03 (singletons, never while a request is served)**: no closure of any pipeline contains a
    node for a singleton constructor — singletons are inputs, read from the application state. -/
theorem singleton_never_in_request (env : Env) (tyOf : Nat → Option Nat) (chain : List Comp) (h : Comp) :
    ∀ cp ∈ (plan env tyOf chain h).comps, ∀ n ∈ cp.cl.nodes, n.ctor.life ≠ .singleton := by
  intro cp hcp n hn
  obtain ⟨ins, hcl⟩ := plan_comps env tyOf chain h cp hcp
  rw [hcl] at hn
  rcases nodes_lifecycle _ _ _ _ _ n hn with h1 | ⟨h1, _⟩ <;> rw [h1] <;> decide

/-- a request-scoped constructor that was hoisted into stage `b` (`built_at`) is an input, never a
    node, of every closure of a later stage (↔ `prebuilt_ids`). -/
theorem hoisted_not_rebuilt (env : Env) (tyOf : Nat → Option Nat) (chain : List Comp) (h : Comp) :
    ∀ cp ∈ (plan env tyOf chain h).comps, ∀ n ∈ cp.cl.nodes, n.ctor.life = .request →
      ∀ xb ∈ (plan env tyOf chain h).builtAt, xb.1 = n.ctor.uid → ¬ xb.2 < cp.stage := by
  intro cp hcp n hn hl xb hxb hx hlt
  obtain ⟨ins, hcl⟩ := plan_comps env tyOf chain h cp hcp
  rw [hcl] at hn
  rcases nodes_lifecycle _ _ _ _ _ n hn with h1 | ⟨_, h2⟩
  · rw [hl] at h1; cases h1
  · have : n.ctor.uid ∈ ((plan env tyOf chain h).builtAt.filter (fun b => b.2 < cp.stage)).map (·.1) :=
      List.mem_map.mpr ⟨xb, List.mem_filter.mpr ⟨hxb, by simpa using hlt⟩, hx⟩
    rw [← List.contains_iff_mem] at this
    rw [this] at h2
    cases h2

/-- **C03 (singletons, once)**: in the graph `ApplicationState::new` is generated from, every singleton
    constructor has at most one node, and no request-scoped constructor has any. -/
theorem singleton_once (lk : Nat → Option CDef) (fuel : Nat) (needed : List Nat) :
    ((appClosure lk fuel needed).1.idsOf .singleton).Nodup ∧
    ∀ n ∈ (appClosure lk fuel needed).1.nodes, n.ctor.life ≠ .request := by
  unfold appClosure
  refine ⟨dedup_unique lk [] .singleton (by decide) fuel _, ?_⟩
  intro n hn
  rcases nodes_lifecycle _ _ _ _ _ n hn with h1 | ⟨h1, _⟩ <;> rw [h1] <;> decide

/-- **transients are never shared**: in the call graph of a closure every node of a transient
    constructor feeds at most one input — of the component or of another node. -/
theorem transient_never_shared (lk : Nat → Option CDef) (hu : UidInj lk) (pre : List Nat) (once : Life)
    (fuel : Nat) (ins : List (Nat × Mode)) (i : Nat)
    (ht : (closureOf lk pre once fuel ins).1.transientAt i) :
    refs i ((closureOf lk pre once fuel ins).1.inner ++ (closureOf lk pre once fuel ins).2) ≤ 1 := by
  have hs := foldRes_step lk _ (resolve_step lk hu pre once fuel) ins {} ⟨by simp, by simp [Closure.inner]⟩
  exact hs.newT i (by simp) ht


/-- **one construction per injection site**: every time the traversal meets an input whose
    constructor is transient it adds a brand-new node for it. -/
theorem transient_per_site (lk : Nat → Option CDef) (hu : UidInj lk) (pre : List Nat) (once : Life) (f : Nat)
    (cl : Closure) (hg : Good lk cl) (ty : Nat) (m : Mode) (c : CDef) (hl : lk ty = some c)
    (ht : c.life = .transient) :
    ∃ k n, (resolve lk pre once (f + 1) cl (ty, m)).2 = .built k ∧ cl.nodes.length ≤ k ∧
      (resolve lk pre once (f + 1) cl (ty, m)).1.nodes[k]? = some n ∧ n.ctor = c := by
  have hs := foldRes_step lk _ (resolve_step lk hu pre once f) c.ins cl hg
  obtain ⟨new, hn⟩ := hs.ext
  simp only [resolve, hl, ht, beq_self_eq_true, if_true]
  refine ⟨_, ⟨c, (foldRes (resolve lk pre once f) cl c.ins).2⟩, rfl, ?_, ?_, rfl⟩
  · rw [hn]; simp
  · simp [Closure.push]



/-- T0: request-scoped `c0`; T1: request-scoped `c1(&T0)`; T2: transient `c2(&T0)`; T3: singleton `c3` -/
def exTab : List CDef := [⟨0, 0, .request, false, []⟩, ⟨1, 1, .request, false, [(0, .ref)]⟩,
  ⟨2, 2, .transient, false, [(0, .ref)]⟩, ⟨3, 3, .singleton, false, []⟩]
def exLk : Nat → Option CDef := fun t => exTab.find? (fun d => d.ty == t)

-- Non-vacuity (one call graph): a component taking &T1, &T0, T2, T2, &T3. `c0` is needed three times and has
-- one node; each of the two T2 inputs gets its own `c2` node; the singleton is a parameter.
example :
    let r := closureOf exLk [] .request 5 [(1, .ref), (0, .ref), (2, .val), (2, .val), (3, .ref)]
    r.1.nodes.map (·.ctor.uid) = [0, 1, 2, 2] ∧ r.2 = [.built 1, .built 0, .built 2, .built 3, .param 3] ∧
    r.1.rs = [0, 1] ∧ r.1.paramTypes = [(3, .ref)] ∧
    r.1.nodes.map (·.ins) = [[], [.built 0], [.built 0], [.built 0]] ∧
    refs 2 (r.1.inner ++ r.2) = 1 ∧ refs 3 (r.1.inner ++ r.2) = 1 ∧ refs 0 (r.1.inner ++ r.2) = 4 := by decide
example : UidInj exLk := uidInj_of_table exTab (by decide)
-- with `c0` prebuilt by an earlier stage it becomes a parameter of the closure
example : (closureOf exLk [0] .request 5 [(1, .ref), (0, .ref)]).1.nodes.map (·.ctor.uid) = [1] ∧
    (closureOf exLk [0] .request 5 [(1, .ref), (0, .ref)]).2 = [.built 0, .param 0] := by decide
-- the application-state graph: the singleton is the de-duplicated node there
example : (appClosure exLk 5 [3, 3]).1.nodes.map (·.ctor.uid) = [3] ∧ (appClosure exLk 5 [3, 3]).2 = [.built 0, .built 0] := by decide

/-- a uniform pipeline: wrap `m0(&T0)` in the root (scope 1), pre `m1(&T1)`, handler `h0(&T0, T2)`; every scope
    resolves like `exLk` -/
def exEnv : Env := { get := fun _ => exLk, fuel := 5 }
def exChain : List Comp := [⟨.noop, 0, 5, []⟩, ⟨.wrap, 0, 1, [(0, .ref)]⟩, ⟨.pre, 1, 4, [(1, .ref)]⟩]
def exH : Comp := ⟨.handler, 0, 5, [(0, .ref), (2, .val), (3, .ref)]⟩
def exPlan : Plan := plan exEnv (fun u => (exTab.find? (fun d => d.uid == u)).map (·.ty)) exChain exH

-- Non-vacuity (pipeline): `c0` has three users (m0, m1 through c1, h0) and is hoisted into stage 1 (the wrap `m0`),
-- the later stage receives it through `Next1`; `enforce_invariants` passes; everybody sees node (1, 0).
example : exPlan.builtAt = [(0, 1)] ∧ exPlan.invariantsOk = true ∧ exPlan.comps.length = 4 ∧
    exPlan.comps.map (fun c => c.cl.nodes.map (·.ctor.uid)) = [[], [0], [1], [2]] ∧
    (exPlan.comps[3]?.map (fun c => c.args.map (exPlan.origin 3))) = some [.node 1 0, .node 3 0, .app 3] ∧
    (exPlan.comps[2]?.map (fun c => c.cl.nodes.map (fun n => n.ins.map (exPlan.origin 2)))) = some [[.node 1 0]] ∧
    exPlan.count 0 = 1 := by decide
example : exPlan.isNodeOf (.node 1 0) 0 := ⟨⟨0, 0, .request, false, []⟩, by decide, rfl, rfl⟩


-- Non-vacuity of `pipeline_partition` / `rs_once_uniform`: the example table makes a `World`, the example pipeline is
-- uniform and well-shaped, so its guard passes by the theorem (and by evaluation, above)
example : exPlan.invariantsOk = true :=
  pipeline_partition (world_of_table exTab 5 (by decide) (by decide) (by decide) (by decide)) exChain exH
    (uniformStages_of_uniform (fun _ _ => rfl))
    (stagesOk_group ⟨.noop, 0, 5, []⟩ [⟨.wrap, 0, 1, [(0, .ref)]⟩, ⟨.pre, 1, 4, [(1, .ref)]⟩] exH rfl (by decide))

end Pxv.Life
