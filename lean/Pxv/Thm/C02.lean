import Pxv.Lemmas.Order
import Pxv.Lemmas.Stalemate
import Pxv.Lemmas.StalemateInClass
import Pxv.Lemmas.Complex
import Pxv.Lemmas.PassesSilent
import Pxv.Lemmas.ComplexCloneable
import Pxv.Lemmas.McCloneable
import Pxv.Lemmas.MwbCloneable
import Pxv.Model.BorrowCheck
/-!
C02 — rule-abiding blueprints are accepted: the ordering step never gets stuck.

`OrderedCallGraph::order` panics (`unreachable!("... stuck ...")`) when no unplaced node can be
placed. `order_never_stuck` shows this cannot happen for any acyclic call graph in which no
non-Copy value is both taken by value and borrowed — the shape every in-class application has
once the clone-insertion passes ran (values are only borrowed, or moved and never borrowed, or
Copy, or were given a clone per by-value consumer).
-/
namespace Pxv.CG
open Graph

theorem canPlace_of_preds_placed {g : Graph} {placed : List Nat} {n : Nat}
    (hnc : noConflict g = true) (hwf : g.wellFormed = true)
    (hp : ∀ p ∈ g.preds n, p ∈ placed) : canPlace g placed n = true := by
  unfold canPlace
  rw [List.all_eq_true]
  intro p hpm
  have hpl := List.contains_iff_mem.mpr (hp p hpm)
  simp only [hpl, Bool.true_and, Bool.not_eq_true', Bool.and_eq_false_iff, Bool.not_eq_false']
  -- p is a node: wellFormed
  have hps : p < g.size := by
    simp only [preds, inEdges, List.mem_map, List.mem_filter] at hpm
    obtain ⟨e, ⟨he, _⟩, rfl⟩ := hpm
    unfold wellFormed at hwf
    rw [List.all_eq_true] at hwf
    have := hwf e he
    simp only [Bool.and_eq_true, decide_eq_true_eq] at this
    exact this.1
  unfold noConflict at hnc
  rw [List.all_eq_true] at hnc
  have := hnc p (List.mem_range.mpr hps)
  simp only [Bool.or_eq_true, List.isEmpty_iff] at this
  rcases this with (h | h) | h
  · right; exact h
  · left; left; simp [h]
  · left; right; simp [h]

/-- **progress**: while some node is unplaced, one of them can be placed. -/
theorem exists_placeable {g : Graph} {τ placed : List Nat}
    (hnc : noConflict g = true) (hwf : g.wellFormed = true) (hτ : isTopo g τ = true)
    (hlt : ∃ n, n < g.size ∧ n ∉ placed) :
    ∃ n, n < g.size ∧ n ∉ placed ∧ canPlace g placed n = true := by
  simp only [isTopo, Bool.and_eq_true, decide_eq_true_eq, List.all_eq_true] at hτ
  obtain ⟨⟨⟨hnd, hall⟩, hbound⟩, hedges⟩ := hτ
  -- the first unplaced node of τ
  have key : ∀ (pre : List Nat) (rest : List Nat), τ = pre ++ rest → (∀ x ∈ pre, x ∈ placed) →
      (∃ n ∈ rest, n ∉ placed) → ∃ n, n < g.size ∧ n ∉ placed ∧ canPlace g placed n = true := by
    intro pre rest
    induction rest generalizing pre with
    | nil => intro _ _ ⟨n, hn, _⟩; simp at hn
    | cons a rest ih =>
      intro hsplit hpre hex
      by_cases ha : a ∈ placed
      · apply ih (pre ++ [a]) (by simp [hsplit])
        · intro x hx
          simp at hx
          rcases hx with hx | hx
          · exact hpre x hx
          · exact hx ▸ ha
        · obtain ⟨n, hn, hnp⟩ := hex
          simp at hn
          rcases hn with rfl | hn
          · exact absurd ha hnp
          · exact ⟨n, hn, hnp⟩
      · have haτ : a ∈ τ := by simp [hsplit]
        have hasz : a < g.size := by simpa using hbound a haτ
        refine ⟨a, hasz, ha, canPlace_of_preds_placed hnc hwf ?_⟩
        intro p hp
        -- p precedes a in τ, hence lies in `pre`, hence is placed
        simp only [preds, inEdges, List.mem_map, List.mem_filter, beq_iff_eq] at hp
        obtain ⟨e, ⟨he, hd⟩, rfl⟩ := hp
        have hlt' := hedges e he
        rw [hd] at hlt'
        have hanp : a ∉ pre := by
          intro hin
          rw [hsplit] at hnd
          have := (List.nodup_append.mp hnd).2.2 a hin a (by simp)
          exact this rfl
        have hpa : pos τ a = pre.length := by
          unfold pos
          rw [hsplit, List.idxOf_append]
          simp [hanp]
        have hsrcτ : e.src ∈ τ := by
          have hs : e.src < g.size := by
            unfold wellFormed at hwf
            rw [List.all_eq_true] at hwf
            have := hwf e he
            simp only [Bool.and_eq_true, decide_eq_true_eq] at this
            exact this.1
          exact List.contains_iff_mem.mp (hall e.src (List.mem_range.mpr hs))
        have : e.src ∈ pre := by
          apply Classical.byContradiction
          intro hnot
          have : pos τ e.src ≥ pre.length := by
            unfold pos
            rw [hsplit, List.idxOf_append]
            simp [hnot]
          omega
        exact hpre _ this
  obtain ⟨n, hn, hnp⟩ := hlt
  have hnτ : n ∈ τ := List.contains_iff_mem.mp (hall n (List.mem_range.mpr hn))
  exact key [] τ (by simp) (by simp) ⟨n, hnτ, hnp⟩

/-- the placement guard is monotone: placing more nodes never blocks a node. -/
theorem canPlace_mono {g : Graph} {p1 p2 : List Nat} {n : Nat} (hsub : ∀ x ∈ p1, x ∈ p2)
    (h : canPlace g p1 n = true) : canPlace g p2 n = true := by
  unfold canPlace at *
  rw [List.all_eq_true] at *
  intro p hp
  have := h p hp
  simp only [Bool.and_eq_true, Bool.not_eq_true', Bool.and_eq_false_iff, Bool.not_eq_false'] at this ⊢
  refine ⟨List.contains_iff_mem.mpr (hsub p (List.contains_iff_mem.mp this.1)), ?_⟩
  rcases this.2 with (h1 | h1) | h1
  · left; left; exact h1
  · left; right
    rw [List.any_eq_false] at h1 ⊢
    intro b hb
    have := h1 b hb
    simp only [Bool.not_eq_true', Bool.not_eq_false'] at this ⊢
    simp only [Bool.not_eq_eq_eq_not, Bool.not_true, Bool.not_eq_false] at this ⊢
    exact List.contains_iff_mem.mpr (hsub b (List.contains_iff_mem.mp this))
  · right; exact h1

/-- **confluence / progress**: if *some* complete legal order `τ` exists, then from every reachable
    partial placement some unplaced node can be placed — greedy placement never gets stuck,
    whatever it placed so far. -/
theorem exists_placeable_of_run {g : Graph} {τ placed : List Nat}
    (hτ : isRun g τ = true) (hcomp : isComplete g τ = true)
    (hlt : ∃ n, n < g.size ∧ n ∉ placed) :
    ∃ n, n ∈ τ ∧ n ∉ placed ∧ canPlace g placed n = true := by
  have key : ∀ (pre rest : List Nat), τ = pre ++ rest → (∀ x ∈ pre, x ∈ placed) →
      (∃ n ∈ rest, n ∉ placed) → ∃ n, n ∈ τ ∧ n ∉ placed ∧ canPlace g placed n = true := by
    intro pre rest
    induction rest generalizing pre with
    | nil => intro _ _ ⟨n, hn, _⟩; simp at hn
    | cons a rest ih =>
      intro hsplit hpre hex
      by_cases ha : a ∈ placed
      · apply ih (pre ++ [a]) (by simp [hsplit])
        · intro x hx
          simp at hx
          rcases hx with hx | hx
          · exact hpre x hx
          · exact hx ▸ ha
        · obtain ⟨n, hn, hnp⟩ := hex
          simp at hn
          rcases hn with rfl | hn
          · exact absurd ha hnp
          · exact ⟨n, hn, hnp⟩
      · refine ⟨a, by simp [hsplit], ha, ?_⟩
        exact canPlace_mono hpre (isRun_split hτ pre a rest hsplit).1
  obtain ⟨n, hn, hnp⟩ := hlt
  unfold isComplete at hcomp
  rw [List.all_eq_true] at hcomp
  have hnτ : n ∈ τ := List.contains_iff_mem.mp (hcomp n (List.mem_range.mpr hn))
  exact key [] τ (by simp) (by simp) ⟨n, hnτ, hnp⟩

/-- every reachable state of the model's ordering loop stays within the graph, without repeats. -/
theorem orderLoop_complete {g : Graph}
    (hprog : ∀ placed : List Nat, (∃ n, n < g.size ∧ n ∉ placed) →
      ∃ n, n < g.size ∧ n ∉ placed ∧ canPlace g placed n = true) :
    ∀ (fuel : Nat) (placed : List Nat), placed.Nodup → (∀ x ∈ placed, x < g.size) →
      placed.length + fuel ≥ g.size → isRunFrom g [] placed = true →
      ∃ σ, orderLoop g fuel placed = some σ ∧ isRun g σ = true ∧ σ.length = g.size := by
  intro fuel
  induction fuel with
  | zero =>
    intro placed hnd hb hlen hrun
    have hle : placed.length ≤ g.size := by
      have := List.Nodup.length_le_of_subset hnd (l₂ := List.range g.size)
        (by intro x hx; exact List.mem_range.mpr (hb x hx))
      simpa using this
    have : placed.length = g.size := by omega
    exact ⟨placed, by simp [orderLoop, this], hrun, this⟩
  | succ f ih =>
    intro placed hnd hb hlen hrun
    by_cases hfull : placed.length = g.size
    · exact ⟨placed, by simp [orderLoop, hfull], hrun, hfull⟩
    · have hle : placed.length ≤ g.size := by
        have := List.Nodup.length_le_of_subset hnd (l₂ := List.range g.size)
          (by intro x hx; exact List.mem_range.mpr (hb x hx))
        simpa using this
      -- some node is unplaced (pigeonhole)
      have hex : ∃ n, n < g.size ∧ n ∉ placed := by
        apply Classical.byContradiction
        intro hno
        have hsub : ∀ x ∈ List.range g.size, x ∈ placed := by
          intro x hx
          apply Classical.byContradiction
          intro hx'
          exact hno ⟨x, List.mem_range.mp hx, hx'⟩
        have := List.Nodup.length_le_of_subset (List.nodup_range (n := g.size)) hsub
        simp at this
        omega
      obtain ⟨n, hn, hnp, hcp⟩ := hprog placed hex
      have hfind : ∃ m, (List.range g.size).find? (fun n => !placed.contains n && canPlace g placed n) = some m := by
        cases hf : (List.range g.size).find? (fun n => !placed.contains n && canPlace g placed n) with
        | some m => exact ⟨m, rfl⟩
        | none =>
          rw [List.find?_eq_none] at hf
          have := hf n (List.mem_range.mpr hn)
          simp [hcp, hnp] at this
      obtain ⟨m, hm⟩ := hfind
      have hmprop := List.find?_some hm
      have hmmem := List.mem_of_find?_eq_some hm
      simp only [Bool.and_eq_true, Bool.not_eq_true'] at hmprop
      have hmnp : m ∉ placed := by
        intro hin
        simp at hmprop
        exact hmprop.1 hin
      have hrun' : isRunFrom g [] (placed ++ [m]) = true := by
        -- extend the run by one legal placement
        have ext : ∀ (pl σ : List Nat), isRunFrom g pl σ = true → (∀ x ∈ pl, x ≠ m) → m ∉ σ →
            canPlace g (pl ++ σ) m = true → isRunFrom g pl (σ ++ [m]) = true := by
          intro pl σ
          induction σ generalizing pl with
          | nil =>
            intro _ hpl _ hc
            simp only [List.nil_append, isRunFrom, Bool.and_eq_true, Bool.not_eq_true', and_true]
            refine ⟨?_, by simpa using hc⟩
            cases hcm : pl.contains m with
            | false => rfl
            | true => exact absurd rfl (hpl m (List.contains_iff_mem.mp hcm))
          | cons a σ ih2 =>
            intro hr hpl hmσ hc
            simp only [isRunFrom, Bool.and_eq_true] at hr
            simp only [List.cons_append, isRunFrom, Bool.and_eq_true]
            refine ⟨hr.1, ?_⟩
            apply ih2 (pl ++ [a]) hr.2
            · intro x hx
              simp at hx
              rcases hx with hx | hx
              · exact hpl x hx
              · intro h; apply hmσ; simp [← h, hx]
            · intro h; apply hmσ; simp [h]
            · simpa [List.append_assoc] using hc
        exact ext [] placed hrun (by simp) hmnp (by simpa using hmprop.2)
      have hnd' : (placed ++ [m]).Nodup := by
        rw [List.nodup_append]
        refine ⟨hnd, by simp, ?_⟩
        intro x hx y hy
        simp at hy; subst hy
        intro h; exact hmnp (h ▸ hx)
      have hb' : ∀ x ∈ placed ++ [m], x < g.size := by
        intro x hx
        simp at hx
        rcases hx with hx | hx
        · exact hb x hx
        · exact hx ▸ List.mem_range.mp hmmem
      obtain ⟨σ, h1, h2, h3⟩ := ih (placed ++ [m]) hnd' hb' (by simp; omega) hrun'
      refine ⟨σ, ?_, h2, h3⟩
      simp only [orderLoop, hm]
      have : (placed.length == g.size) = false := by simpa using hfull
      simp [this, h1]

/-- **C02 (ordering)**: for every acyclic, well-formed call graph in which no non-Copy value is both
    taken by value and borrowed, the ordering step terminates with a complete legal order: the
    `unreachable!("... stuck ...")` branch of `OrderedCallGraph::order` is dead on such graphs. -/
theorem order_never_stuck {g : Graph} {τ : List Nat}
    (hnc : noConflict g = true) (hwf : g.wellFormed = true) (hτ : isTopo g τ = true) :
    ∃ σ, order g = some σ ∧ isRun g σ = true ∧ σ.length = g.size := by
  unfold order
  exact orderLoop_complete (fun _ h => exists_placeable hnc hwf hτ h) g.size [] (by simp) (by simp)
    (by simp) (by simp [isRunFrom])

/-- **C02 (ordering, general form)**: whenever the borrow-checked call graph admits *some* complete
    legal order, the ordering step finds one — it cannot get stuck, whichever nodes it happens to
    place first (the guard is monotone). -/
theorem order_never_stuck_of_run {g : Graph} {τ : List Nat}
    (hτ : isRun g τ = true) (hcomp : isComplete g τ = true) (hb : ∀ x ∈ τ, x < g.size) :
    ∃ σ, order g = some σ ∧ isRun g σ = true ∧ σ.length = g.size := by
  unfold order
  refine orderLoop_complete (fun placed h => ?_) g.size [] (by simp) (by simp) (by simp)
    (by simp [isRunFrom])
  obtain ⟨n, hn, hnp, hc⟩ := exists_placeable_of_run hτ hcomp h
  exact ⟨n, hb n hn, hnp, hc⟩

-- Non-vacuity: the diamond after clone insertion (node 4 = clone of 0 feeding the consumer 2).
def exDiamond : Graph :=
  { nodes := [{}, {}, {}, {}, {}],
    edges := [⟨0, 1, .shared⟩, ⟨0, 4, .shared⟩, ⟨4, 2, .move⟩, ⟨1, 3, .move⟩, ⟨2, 3, .move⟩] }
example : let g := exDiamond
    noConflict g = true ∧ g.wellFormed = true ∧ isTopo g [0, 1, 4, 2, 3] = true ∧
    order g = some [0, 1, 4, 2, 3] := by decide
-- and the hypothesis matters: the un-cloned conflict graph `x -> c (move)`, `x -> d (&)`, `c -> d`
-- is stuck in the model exactly as in the compiler (this was the panic fixed by 37343ca/05372da).
def exStuck : Graph :=
  { nodes := [{}, {}, {}],
    edges := [⟨0, 1, .move⟩, ⟨0, 2, .shared⟩, ⟨1, 2, .move⟩] }
example : let g := exStuck
    noConflict g = false ∧ order g = none := by decide


/-! ### the forward pass `ordering_stalemates` (repo commit 437e3c1)

Before that repair nothing guaranteed the hypothesis of `order_never_stuck_of_run`: `complex_borrow_check` releases the
borrows of a node when it has visited it, whether or not the node's own dependencies can be scheduled, so a cycle of
"borrowers first" constraints that goes through dependency edges was accepted and the ordering step panicked
(`exCross` below; replayed on the real compiler: corpus/e2e/crossing_stalemate_through_dependencies). The last pass
of the borrow checker now plays the ordering forward; these theorems are about its mirror `findStalemate` /
`resolveStalemates` (Model/Stalemate.lean), compared with the real pass on every call graph of every run. -/

/-- **no stalemate, no panic**: when the forward pass finds no stalemate in a well-formed acyclic call graph, a complete
    legal order exists and the ordering step — whatever it places first — finds one. -/
theorem no_stalemate_order {g : Graph} {r : Nat → Nat} (hwf : g.wellFormed = true) (hr : Ranked g r)
    (h : findStalemate g [] = []) :
    ∃ σ, order g = some σ ∧ isRun g σ = true ∧ σ.length = g.size := by
  obtain ⟨final, hrun, hb, hfr⟩ := findStalemateLoop_none (g := g) (g.size + 1) [] (by simp [isRunFrom])
    (by simp) h
  have hall := all_placed hr hwf hfr
  have hcomp : isComplete g final = true := by
    unfold isComplete
    rw [List.all_eq_true]
    intro n hn
    exact List.contains_iff_mem.mpr (hall n (List.mem_range.mp hn))
  exact order_never_stuck_of_run (τ := final) hrun hcomp hb

/-- **C02 / C09 (ordering, unconditional)**: whenever `ordering_stalemates` reports nothing, the call graph it hands to
    `OrderedCallGraph::order` (with the clones it inserted) can be ordered: the `unreachable!("... stuck ...")` is dead
    for every well-formed acyclic input graph, with no assumption on who borrows or consumes what. -/
theorem stalemates_resolved_order {g g' : Graph} {r : Nat → Nat} (hwf : g.wellFormed = true) (hr : Ranked g r)
    (h : resolveStalemates g = (g', [])) :
    ∃ σ, order g' = some σ ∧ isRun g' σ = true ∧ σ.length = g'.size := by
  obtain ⟨_, hwf', ⟨r', hr'⟩, hnone⟩ := resolveLoop_sound _ g [] [] g' h hwf ⟨r, hr⟩
  exact no_stalemate_order hwf' hr' (hnone rfl)

/-- helper: the model's ordering loop only ever extends a run by legal placements. -/
theorem orderLoop_sound {g : Graph} :
    ∀ (fuel : Nat) (placed σ : List Nat), isRunFrom g [] placed = true → (∀ x ∈ placed, x < g.size) →
      orderLoop g fuel placed = some σ →
      isRun g σ = true ∧ (∀ x ∈ σ, x < g.size) ∧ σ.length = g.size := by
  intro fuel
  induction fuel with
  | zero =>
    intro placed σ hrun hb h
    simp only [orderLoop] at h
    split at h
    · rename_i hl
      simp only [Option.some.injEq] at h; subst h
      exact ⟨hrun, hb, by simpa using hl⟩
    · cases h
  | succ f ih =>
    intro placed σ hrun hb h
    simp only [orderLoop] at h
    split at h
    · rename_i hl
      simp only [Option.some.injEq] at h; subst h
      exact ⟨hrun, hb, by simpa using hl⟩
    · split at h
      · rename_i n hfind
        have hprop := List.find?_some hfind
        have hmem := List.mem_of_find?_eq_some hfind
        simp only [Bool.and_eq_true, Bool.not_eq_true'] at hprop
        have hnp : n ∉ placed := by
          intro hin
          have := List.contains_iff_mem.mpr hin
          rw [hprop.1] at this; cases this
        apply ih (placed ++ [n]) σ (isRunFrom_snoc hrun hnp hprop.2) _ h
        intro x hx
        simp only [List.mem_append, List.mem_singleton] at hx
        rcases hx with hx | rfl
        · exact hb x hx
        · exact List.mem_range.mp hmem
      · cases h

/-- **the forward pass is exact**: it reports a stalemate only when the ordering step really would get stuck — a graph
    that has a complete legal order is never touched by `ordering_stalemates` (no clone, no diagnostic). With
    `no_stalemate_order`: for well-formed acyclic call graphs, `findStalemate g [] = []` iff `order g` succeeds. -/
theorem stalemate_means_stuck {g : Graph} (h : findStalemate g [] ≠ []) : order g = none := by
  cases hfs : findStalemate g [] with
  | nil => exact absurd hfs h
  | cons s rest =>
    obtain ⟨final, hrun, hb, hstuck, hs1, hs2⟩ := findStalemateLoop_some (g := g) (g.size + 1) []
      (by simp [isRunFrom]) (by simp) (by simp) s (by
        have : s ∈ findStalemate g [] := by rw [hfs]; exact List.mem_cons_self ..
        exact this)
    cases ho : order g with
    | none => rfl
    | some σ =>
      exfalso
      obtain ⟨hσrun, hσb, hσlen⟩ := orderLoop_sound g.size [] σ (by simp [isRunFrom]) (by simp) ho
      have hσnd : σ.Nodup := isRun_nodup hσrun
      have hsσ : s.1 ∈ σ := nodup_full hσnd hσb hσlen s.1 hs1
      -- the first node of σ outside `final` can be placed from `final`
      have key : ∀ (pre rest : List Nat), σ = pre ++ rest → (∀ x ∈ pre, x ∈ final) →
          (∃ n ∈ rest, n ∉ final) → ∃ n, n ∈ σ ∧ n ∉ final ∧ canPlace g final n = true := by
        intro pre rest
        induction rest generalizing pre with
        | nil => intro _ _ ⟨n, hn, _⟩; cases hn
        | cons a rest ih =>
          intro hsplit hpre hex
          by_cases ha : a ∈ final
          · apply ih (pre ++ [a]) (by simp [hsplit])
            · intro x hx
              simp only [List.mem_append, List.mem_singleton] at hx
              rcases hx with hx | rfl
              · exact hpre x hx
              · exact ha
            · obtain ⟨n, hn, hnp⟩ := hex
              simp only [List.mem_cons] at hn
              rcases hn with rfl | hn
              · exact absurd ha hnp
              · exact ⟨n, hn, hnp⟩
          · exact ⟨a, by simp [hsplit], ha, canPlace_mono hpre (isRun_split hσrun pre a rest hsplit).1⟩
      obtain ⟨n, hnσ, hnf, hcp⟩ := key [] σ (by simp) (by simp) ⟨s.1, hsσ, hs2⟩
      rcases hstuck n (hσb n hnσ) with hin | hno
      · exact hnf hin
      · rw [hcp] at hno; cases hno

/-- a diagnostic is reported only when no contended input of any stuck node may be cloned: as long as one may, the pass
    clones instead (for the first stuck node that has one). -/
theorem stalemate_reported_only_if_not_cloneable (fuel : Nat) (g : Graph) (reported : List Nat) (ds : List OsDiag)
    (hc : ∃ s ∈ findStalemate g reported, ∃ b ∈ s.2, (g.node b).cloneable = true) :
    ∃ n b, (g.node b).cloneable = true ∧
      resolveLoop (fuel + 1) g reported ds = resolveLoop fuel (insertClone g b n).1 reported ds := by
  obtain ⟨s, hs, b, hb, hcb⟩ := hc
  simp only [resolveLoop]
  cases hfs : findStalemate g reported with
  | nil => rw [hfs] at hs; cases hs
  | cons s0 rest =>
    obtain ⟨n0, bl0⟩ := s0
    simp only
    cases hf : ((n0, bl0) :: rest).findSome?
        (fun s => (s.2.find? (fun b => (g.node b).cloneable)).map (fun b => (s.1, b))) with
    | some nb =>
      obtain ⟨s', _, hf'⟩ := List.exists_of_findSome?_eq_some hf
      simp only [Option.map_eq_some_iff] at hf'
      obtain ⟨b', hfind, rfl⟩ := hf'
      exact ⟨s'.1, b', by simpa using List.find?_some hfind, rfl⟩
    | none =>
      exfalso
      rw [List.findSome?_eq_none_iff] at hf
      have := hf s (by rw [← hfs]; exact hs)
      simp only [Option.map_eq_none_iff] at this
      rw [List.find?_eq_none] at this
      have := this b hb
      simp [hcb] at this

/-- the mirrored pass is total: with the fuel `resolveFuel` (2·|edges| + |nodes| + 1 rounds: every round removes a `move`
    edge out of a clone-if-necessary value or reports one more node) it never gives up. -/
theorem stalemates_pass_terminates {g : Graph} (hwf : g.wellFormed = true) :
    ∀ d ∈ (resolveStalemates g).2, d ≠ .outOfFuel :=
  resolve_never_out_of_fuel hwf

/-- **C02 (last pass, in class)**: a well-formed, acyclic, capture-free call graph in which every value that is both
    taken by value and borrowed is Copy or clone-if-necessary is accepted by `ordering_stalemates` without a diagnostic,
    and what the pass hands on can be ordered. -/
theorem inClass_accepted_and_ordered {g : Graph} {r : Nat → Nat} (hwf : g.wellFormed = true) (hr : Ranked g r)
    (hcf : captureFree g = true) (hcc : ContendedCloneable g) :
    (resolveStalemates g).2 = [] ∧
      ∃ σ, order (resolveStalemates g).1 = some σ ∧ isRun (resolveStalemates g).1 σ = true ∧
        σ.length = (resolveStalemates g).1.size := by
  have h := resolve_inClass_silent hwf hcf hcc
  refine ⟨h, ?_⟩
  exact stalemates_resolved_order (g' := (resolveStalemates g).1) hwf hr (by rw [← h])

-- The witness: V1 = 0, V2 = 1, c1(V1) = 2, b2(&V2, c1) = 3, c2(V2) = 4, b1(&V1, c2) = 5, handler(b2, b1) = 6.
def exCross (cloneable : Bool) : Graph :=
  { nodes := [{ cloneable }, { cloneable }, {}, {}, {}, {}, {}],
    edges := [⟨0, 2, .move⟩, ⟨1, 3, .shared⟩, ⟨2, 3, .move⟩, ⟨1, 4, .move⟩, ⟨0, 5, .shared⟩, ⟨4, 5, .move⟩,
              ⟨3, 6, .move⟩, ⟨5, 6, .move⟩] }
-- b1 < c1 < b2 < c2 < b1: no order exists (the compiler panicked here), the forward pass names the stuck node
example : order (exCross false) = none ∧ findStalemate (exCross false) [] = [(2, [0]), (4, [1])] := by decide
-- and a graph that can be ordered is left alone (`stalemate_means_stuck`, contrapositive): the diamond after cloning
example : findStalemate exDiamond [] = [] ∧ resolveStalemates exDiamond = (exDiamond, []) := by decide
-- not cloneable: reported, once
example : (resolveStalemates (exCross false)).2 = [.stalemate 2 [0]] := by decide
-- clone-if-necessary: one clone of V1 (node 7) for c1 breaks the cycle, nothing is reported, and the result can be ordered
example : (resolveStalemates (exCross true)).2 = [] ∧
    (resolveStalemates (exCross true)).1.edges = [⟨1, 3, .shared⟩, ⟨2, 3, .move⟩, ⟨1, 4, .move⟩, ⟨0, 5, .shared⟩,
      ⟨4, 5, .move⟩, ⟨3, 6, .move⟩, ⟨5, 6, .move⟩, ⟨0, 7, .shared⟩, ⟨7, 2, .move⟩] ∧
    order (resolveStalemates (exCross true)).1 = some [0, 1, 7, 2, 3, 4, 5, 6] := by decide
-- only the second value may be cloned: the pass clones it for the second stuck node instead of reporting the first
def exCross2 : Graph := { exCross false with nodes := [{}, { cloneable := true }, {}, {}, {}, {}, {}] }
example : (resolveStalemates exCross2).2 = [] ∧ (order (resolveStalemates exCross2).1).isSome = true := by decide
-- and the hypotheses of `stalemates_resolved_order` are met by it
example : (exCross true).wellFormed = true ∧ captureFree (exCross true) = true ∧ ContendedCloneable (exCross true) ∧
    Ranked (exCross true) (fun n => n) := by
  refine ⟨by decide, by decide, ?_, ?_⟩
  · intro p hp
    have : p < 7 := hp
    have hcases : p = 0 ∨ p = 1 ∨ p = 2 ∨ p = 3 ∨ p = 4 ∨ p = 5 ∨ p = 6 := by omega
    rcases hcases with rfl | rfl | rfl | rfl | rfl | rfl | rfl <;> decide
  intro e he
  simp [exCross] at he
  rcases he with rfl | rfl | rfl | rfl | rfl | rfl | rfl | rfl <;> decide

/-! ### `complex_borrow_check`, mirrored statement by statement (Model/Complex.lean, compared with the real pass on every
call graph of every program through the hooks affca2a) -/

/-- **C02 — the third clone-insertion pass leaves rule-abiding call graphs alone**: when every value that some node takes by
    value is Copy, or is borrowed by nobody (neither through a `&`/`&mut` input nor through a value that holds a reference
    to it), `complexCheck` returns the call graph unchanged and reports nothing — for every graph size and shape, every
    order of the adjacency lists, every strategy state. (The values the property also allows — Clone and clone-if-necessary
    — are covered by `complex_pass_only_clones_cloneable`, Thm/C04, and the per-graph correspondence.) -/
theorem complex_pass_silent_when_uncontended {g : Graph} (h : uncontended g = true) :
    (complexCheck g).g = g ∧ (complexCheck g).diags = [] :=
  complexCheck_silent_of_uncontended h

/-- the call graph of the doc comment of `complex_borrow_check`: `D` takes `A` and borrows `B`, `C` takes `B` and borrows `A` -/
def exX (ca cb : Bool) : Graph := ⟨[{ cloneable := ca }, { cloneable := cb }, {}, {}, {}],
  [⟨0, 2, .move⟩, ⟨1, 2, .shared⟩, ⟨1, 3, .move⟩, ⟨0, 3, .shared⟩, ⟨2, 4, .move⟩, ⟨3, 4, .move⟩]⟩
-- non-vacuity: a graph with moves AND borrows that meets the hypothesis (the borrowed value is not the moved one) ...
example : uncontended ⟨[{}, {}, {}, {}], [⟨0, 2, .move⟩, ⟨1, 2, .shared⟩, ⟨1, 3, .shared⟩, ⟨2, 3, .move⟩]⟩ = true := by decide
-- ... and the pass does act when it is not met: two diagnostics ("Pavex should detect this and return two errors"), or one
-- clone of the first value that may be cloned, for the node that wanted it by value
example : uncontended (exX false false) = false ∧ (complexCheck (exX false false)).diags = [(3, [1]), (2, [0])] ∧
    (complexCheck (exX false false)).g = exX false false := by decide
example : (complexCheck (exX true false)).diags = [] ∧
    (complexCheck (exX true false)).g.edges.filter (fun e => !((exX true false).edges.contains e)) = [⟨0, 5, .shared⟩, ⟨5, 2, .move⟩] ∧
    (complexCheck (exX true false)).fuelOut = false := by decide

/-- **C02 — `complex_borrow_check` never rejects an application whose contended values are clone-if-necessary** (the fourth
    alternative of the property's ownership clause): on every well-formed call graph in which each value that some node takes
    by value while somebody borrows it — through `&`, `&mut`, or a value that holds a reference to it — is Copy or may be
    cloned, the pass reports nothing, whatever it parks, clones or revisits on the way. The invariant behind it: the error
    strategy is never entered, because a cloning round that parks a node has cloned for it (`CK.flag`), and the tables of
    `OwnershipRelationships` never get an entry for a node that does not exist yet (`CK.fresh`). With
    `complex_pass_only_clones_cloneable` (Thm/C04): the pass only adds clones of those values. -/
theorem complex_pass_accepts_when_contended_values_cloneable {g : Graph} (hwf : g.wellFormed = true)
    (h : contendedCloneable g = true) : (complexCheck g).diags = [] :=
  complexCheck_no_diag_of_contendedCloneable hwf h

-- non-vacuity: the graph of the doc comment with both values clone-if-necessary meets the hypotheses, is contended, and gets
-- exactly one clone; with one value that may not be cloned the hypothesis fails (and so does the pass, see above)
example : (exX true true).wellFormed = true ∧ contendedCloneable (exX true true) = true ∧ uncontended (exX true true) = false ∧
    (complexCheck (exX true true)).g.size = 6 := by decide
example : contendedCloneable (exX false false) = false ∧ contendedCloneable (exX true false) = false := by decide

/-- **C02 — `multiple_consumers` never rejects an application whose contended values are clone-if-necessary**: if every value
    that several nodes take by value is Copy, a reference, or may be cloned, the pass reports nothing — it clones instead, and
    the clones it inserts for one value leave the flags and the by-value consumers of every other value as they were
    (`Pres`), so the argument goes through the whole traversal. -/
theorem multiple_consumers_accepts_when_contended_values_cloneable {g : Graph} (hq : mcCloneable g = true) :
    (multipleConsumers g).2 = [] :=
  multipleConsumers_no_diag hq

-- non-vacuity: a clone-if-necessary value with two by-value consumers on one path: no diagnostic, one clone
example : mcCloneable ⟨[{ cloneable := true }, {}, {}, {}], [⟨0, 1, .move⟩, ⟨0, 2, .move⟩, ⟨1, 3, .move⟩, ⟨2, 3, .move⟩]⟩ = true ∧
    (multipleConsumers ⟨[{ cloneable := true }, {}, {}, {}], [⟨0, 1, .move⟩, ⟨0, 2, .move⟩, ⟨1, 3, .move⟩, ⟨2, 3, .move⟩]⟩).1.size = 5 ∧
    (multipleConsumers ⟨[{}, {}, {}, {}], [⟨0, 1, .move⟩, ⟨0, 2, .move⟩, ⟨1, 3, .move⟩, ⟨2, 3, .move⟩]⟩).2.length = 1 := by decide

/-- **C02 — `move_while_borrowed` never rejects an application without `&mut` inputs whose by-value inputs are Copy or
    clone-if-necessary**: on every well-formed call graph of that kind the pass reports nothing, for any number of nodes and
    any pattern of borrows below a move (it clones there). With the three theorems above, each of the four passes of the
    borrow checker is proved never to report on the call graphs of C02's fourth alternative it is handed. (The hypothesis of
    each theorem is about the graph THAT pass receives; that the clones of one pass keep the next pass's hypothesis is
    observed per graph by the correspondence, not proved.) -/
theorem move_while_borrowed_accepts_when_by_value_inputs_cloneable {g : Graph} (hwf : g.wellFormed = true)
    (hq : mwbCloneable g = true) : (moveWhileBorrowed g).2 = [] :=
  moveWhileBorrowed_no_diag hwf hq

-- non-vacuity: a clone-if-necessary value (0) moved into 2 and borrowed by 3 below it: a clone, no diagnostic; never-clone: reported
example : mwbCloneable ⟨[{ cloneable := true }, { cloneable := true }, { cloneable := true }, {}], [⟨0, 2, .move⟩, ⟨2, 3, .move⟩, ⟨0, 3, .shared⟩, ⟨1, 3, .move⟩]⟩ = true ∧
    (moveWhileBorrowed ⟨[{ cloneable := true }, { cloneable := true }, { cloneable := true }, {}], [⟨0, 2, .move⟩, ⟨2, 3, .move⟩, ⟨0, 3, .shared⟩, ⟨1, 3, .move⟩]⟩).1.size = 5 ∧
    (moveWhileBorrowed ⟨[{}, {}, {}, {}], [⟨0, 2, .move⟩, ⟨2, 3, .move⟩, ⟨0, 3, .shared⟩, ⟨1, 3, .move⟩]⟩).2.length = 1 := by decide

/-! ### the whole borrow checker on rule-abiding call graphs -/

theorem uncontended_of_mwbQuiet {g : Graph} (h : mwbQuiet g = true) : uncontended g = true := by
  unfold uncontended
  rw [List.all_eq_true]
  intro e he
  have hs := mwbQuiet_spec h he
  cases hk : e.kind with
  | move =>
    rcases hs.2 hk with hc | hnb
    · simp [hc]
    · have : g.edges.all (fun e' => !(e'.src == e.src && (e'.kind == .shared || e'.kind == .excl)) &&
          (e'.kind == .before || !(lookup (captured g) e'.src).contains e.src)) = true := by
        rw [List.all_eq_true]
        intro e' he'
        have h1 : ¬ (e'.src = e.src ∧ (e'.kind = .shared ∨ e'.kind = .excl)) :=
          fun hh => hnb (Or.inl ⟨e', he', hh.2, hh.1⟩)
        have h2 : e.src ∉ lookup (captured g) e'.src := fun hh => hnb (Or.inr ⟨e', he', hh⟩)
        simp only [Bool.and_eq_true, Bool.not_eq_true', Bool.or_eq_true, beq_iff_eq, Bool.and_eq_false_iff,
          Bool.or_eq_false_iff, beq_eq_false_iff_ne, ne_eq]
        refine ⟨?_, Or.inr (by simpa using h2)⟩
        by_cases hsrc : e'.src = e.src
        · right
          exact ⟨fun hk' => h1 ⟨hsrc, Or.inl hk'⟩, fun hk' => h1 ⟨hsrc, Or.inr hk'⟩⟩
        · exact Or.inl hsrc
      rw [this]; simp
  | shared => simp
  | excl => simp
  | before => simp

/-- **C02 — the borrow checker, all four passes, on rule-abiding call graphs**: take any acyclic, well-formed call graph in
    which (1) no value has two by-value consumers on one control-flow path unless it is Copy or a reference, (2) there is no
    `&mut` input and whatever is taken by value is Copy or borrowed by nobody (neither directly nor through a value that
    holds a reference to it; stated for both capture bookkeepings of the compiler, `captured` and `holds`). Then
    `multiple_consumers`, `move_while_borrowed`, `complex_borrow_check` and `ordering_stalemates` (each mirrored statement
    by statement and compared with the real pass on every call graph of every run) all return the graph untouched, none
    reports a diagnostic, and the ordering step that follows finds a complete legal order: such an application is never
    rejected, never asked to restructure, and never sees a clone it did not ask for. For every size and shape of graph. -/
theorem inClass_borrowCheck_identity {g : Graph} {τ : List Nat} (hwf : g.wellFormed = true) (hτ : isTopo g τ = true)
    (hmc : McQuiet g) (hq : mwbQuiet g = true) (hnc : noConflict g = true) :
    borrowCheck g = some g ∧ ∃ σ, order g = some σ ∧ isRun g σ = true ∧ σ.length = g.size := by
  have hord := order_never_stuck hnc hwf hτ
  refine ⟨?_, hord⟩
  obtain ⟨σ, hσ, _, _⟩ := hord
  have hfs : findStalemate g [] = [] := by
    apply Classical.byContradiction
    intro hne
    rw [stalemate_means_stuck hne] at hσ
    cases hσ
  have hos : resolveStalemates g = (g, []) := by
    unfold resolveStalemates resolveFuel
    rw [show 2 * g.edges.length + g.size + 1 = (2 * g.edges.length + g.size) + 1 from rfl]
    simp only [resolveLoop, hfs]
  have hcx := complex_pass_silent_when_uncontended (uncontended_of_mwbQuiet hq)
  unfold borrowCheck
  simp only [multipleConsumers_quiet hmc, moveWhileBorrowed_quiet hq, hcx.1, hcx.2, hos, List.isEmpty_nil, Bool.and_self,
    Bool.not_true, Bool.false_eq_true, if_false]

-- non-vacuity: a handler (4) that borrows a singleton (0), takes a request-scoped value (2) built from a borrow of it, and a
-- Copy value (1) that is both taken by value twice and borrowed
def exInClass : Graph :=
  { nodes := [{}, { copy := true }, {}, {}, {}],
    edges := [⟨0, 2, .shared⟩, ⟨1, 2, .move⟩, ⟨1, 3, .shared⟩, ⟨1, 4, .move⟩, ⟨0, 4, .shared⟩, ⟨2, 4, .move⟩, ⟨3, 4, .move⟩] }
example : exInClass.wellFormed = true ∧ isTopo exInClass [0, 1, 2, 3, 4] = true ∧ mwbQuiet exInClass = true ∧
    noConflict exInClass = true := by decide
example : McQuiet exInClass := by
  intro n
  by_cases h0 : n = 0
  · subst h0; left; decide
  by_cases h1 : n = 1
  · subst h1; right; left; rfl
  by_cases h2 : n = 2
  · subst h2; left; decide
  by_cases h3 : n = 3
  · subst h3; left; decide
  by_cases h4 : n = 4
  · subst h4; left; decide
  left
  have : exInClass.consumers n = [] := by
    unfold Graph.consumers Graph.outEdges exInClass
    rw [List.map_eq_nil_iff, List.filter_eq_nil_iff]
    intro e he
    simp only [List.mem_filter, List.mem_cons, List.not_mem_nil, or_false] at he
    rcases he.1 with rfl | rfl | rfl | rfl | rfl | rfl | rfl <;> simp_all
  rw [this]; decide
example : borrowCheck exInClass = some exInClass := by decide

/-- **C02, from the edges alone** (call graphs without captured references): no `&mut` input, no non-Copy value both taken by
    value and borrowed, at most one by-value consumer per control-flow path — then the borrow checker is the identity, silent,
    and the ordering step succeeds. Every hypothesis is a decidable statement about the edges of the call graph. -/
theorem inClass_captureFree_accepted {g : Graph} {τ : List Nat} (hwf : g.wellFormed = true) (hτ : isTopo g τ = true)
    (hcf : captureFree g = true) (hedges : inClassEdges g = true) (hmc : McQuiet g) :
    borrowCheck g = some g ∧ ∃ σ, order g = some σ ∧ isRun g σ = true ∧ σ.length = g.size :=
  inClass_borrowCheck_identity hwf hτ hmc (mwbQuiet_of_inClassEdges hcf hedges) (noConflict_of_inClassEdges hcf hedges)

example : captureFree exInClass = true ∧ inClassEdges exInClass = true := by decide

end Pxv.CG
